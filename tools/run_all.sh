#!/bin/bash
# tools/run_all.sh <tier> <seeds...> : run every claimed check on /repo; prints one line per run. Evidence of the LAST seed stays in evidence/.
tier=${1:-quick}; shift; seeds=${@:-0}
cd "$(dirname "$0")/.."
ids=$(/venv/bin/python -c "import json;print(' '.join(c['property_id'] for c in json.load(open('MANIFEST.json'))['checks']))")
for s in $seeds; do for id in $ids; do
  out=$(VERIF_SEED=$s /usr/bin/time -f "wall=%es user=%Us" ./check $id $tier 2>&1); rc=$?
  echo "seed=$s $id exit=$rc $(echo "$out" | grep -E '^\[C' | sed 's/.*violations=/violations=/') $(echo "$out" | grep -c '^VIOLATION') VIOLATION-lines $(echo "$out" | grep -E '^wall=')"
  echo "$out" | grep -E "^VIOLATION|CHECK-ERROR|  class=" | head -5
done; done
