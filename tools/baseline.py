#!/venv/bin/python
"""Run the pinned baseline suite on a tree (default /repo) and compare with BASELINE.json's stable_pass list.
usage: tools/baseline.py [repo_dir]   -> exit 0 iff all 75 stable tests pass."""
import json, os, subprocess, sys, tempfile
import xml.etree.ElementTree as ET

repo = sys.argv[1] if len(sys.argv) > 1 else "/repo"
base = json.load(open("/root/.vp/BASELINE.json"))
want = set(base["stable_pass"])
fd, xml = tempfile.mkstemp(suffix=".xml")
os.close(fd)
env = dict(os.environ)
env.pop("PYOMA2_VERIF", None)
env["PYTHONPATH"] = os.path.join(repo, "src")
r = subprocess.run(["/venv/bin/python", "-m", "pytest", "-q", "-p", "no:cacheprovider", "--timeout=900", "-n", "8",
                    "--continue-on-collection-errors", f"--junitxml={xml}"], cwd=repo, env=env, capture_output=True, text=True)
passed = set()
for tc in ET.parse(xml).getroot().iter("testcase"):
    if not any(c.tag in ("failure", "error", "skipped") for c in tc):
        passed.add(f"{tc.get('classname')}::{tc.get('name')}")
os.remove(xml)
missing = sorted(want - passed)
if missing:
    # de-flake (the box may be heavily loaded): re-run the missing tests once, serially
    ids = []
    for m in missing:
        cls, name = m.split("::", 1)
        ids.append(cls.replace(".", "/") + ".py::" + name)
    fd, xml2 = tempfile.mkstemp(suffix=".xml")
    os.close(fd)
    subprocess.run(["/venv/bin/python", "-m", "pytest", "-q", "-p", "no:cacheprovider", "--timeout=900", f"--junitxml={xml2}"] + ids,
                   cwd=repo, env=env, capture_output=True, text=True)
    try:
        for tc in ET.parse(xml2).getroot().iter("testcase"):
            if not any(c.tag in ("failure", "error", "skipped") for c in tc):
                passed.add(f"{tc.get('classname')}::{tc.get('name')}")
    except Exception:
        pass
    os.remove(xml2)
    missing = sorted(want - passed)
print(f"baseline on {repo}: {len(want & passed)}/{len(want)} stable tests pass; extra passing: {len(passed - want)}")
for m in missing:
    print("  NOT PASSING:", m)
sys.exit(1 if missing else 0)
