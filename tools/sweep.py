#!/venv/bin/python
"""Mutation sweep: for each patch (mutants/<ID>_<name>.patch or seeded/<dir>/patch.diff) copy /repo to a scratch
directory outside /repo and /verif, apply the patch, run the 75 baseline tests (mutants killed by the suite are
discarded), run the property's check against the copy, record the result, delete the copy.

usage: tools/sweep.py [--tier quick] [--no-baseline] [--seeds 0,1] <patch> [<patch> ...]
       patch file name must start with the property id (C07_xyz.patch) or live in seeded/<ID>-xyz/patch.diff
"""
import json, os, re, shutil, subprocess, sys, time

V = os.path.dirname(os.path.dirname(os.path.abspath(__file__)))
SCR = "/root/scratch/sweep"


def prop_of(path):
    m = re.search(r"(C\d\d)", os.path.basename(path)) or re.search(r"(C\d\d)", os.path.basename(os.path.dirname(path)))
    return m.group(1) if m else None


def main():
    a = sys.argv[1:]
    tier, baseline, seeds, props = "quick", True, [0], None
    while a and a[0].startswith("--"):
        f = a.pop(0)
        if f == "--tier": tier = a.pop(0)
        elif f == "--no-baseline": baseline = False
        elif f == "--seeds": seeds = [int(x) for x in a.pop(0).split(",")]
        elif f == "--props": props = a.pop(0).split(",")
    rows = []
    for patch in a:
        pids = props or [prop_of(patch)]
        name = os.path.basename(os.path.dirname(patch)) if os.path.basename(patch) == "patch.diff" else os.path.basename(patch)
        d = os.path.join(SCR, re.sub(r"\W", "_", name))
        shutil.rmtree(d, ignore_errors=True)
        os.makedirs(SCR, exist_ok=True)
        subprocess.run(["rsync", "-a", "--exclude", ".git", "/repo/", d + "/"], check=True)
        r = subprocess.run(["patch", "-p1", "-s", "-i", os.path.abspath(patch)], cwd=d, capture_output=True, text=True)
        if r.returncode:
            rows.append((name, "PATCH-FAILED", r.stdout[-200:] + r.stderr[-200:]))
            shutil.rmtree(d, ignore_errors=True)
            continue
        base = "skipped"
        if baseline:
            b = subprocess.run([os.path.join(V, "tools", "baseline.py"), d], capture_output=True, text=True)
            base = "suite-passes" if b.returncode == 0 else "KILLED-BY-SUITE"
        res = []
        for pid in pids:
            for s in seeds:
                env = dict(os.environ, VERIF_REPO=d, VERIF_NO_CONFIRM="1", VERIF_EVIDENCE_DIR=os.path.join(SCR, "ev"), VERIF_SEED=str(s))
                t0 = time.time()
                c = subprocess.run([os.path.join(V, "check"), pid, tier], cwd=V, env=env, capture_output=True, text=True)
                first = next((l for l in c.stdout.splitlines() if l.strip().startswith("class=")), "").strip()
                res.append(f"{pid}/s{s}: exit={c.returncode} {first[:110]} ({time.time()-t0:.0f}s)")
        rows.append((name, base, " | ".join(res)))
        shutil.rmtree(d, ignore_errors=True)
        print(rows[-1], flush=True)
    shutil.rmtree(os.path.join(SCR, "ev"), ignore_errors=True)
    return 0


if __name__ == "__main__":
    sys.exit(main())
