#!/venv/bin/python
"""Regenerate MANIFEST.json from the check modules present under checks/ (metadata lives in each module)."""
import importlib, json, os, sys
V = os.path.dirname(os.path.dirname(os.path.abspath(__file__)))
sys.path.insert(0, V)
os.environ.setdefault("PYTHONHASHSEED", "0")
from mc import env
env.pin(); env.quiet()
props = [json.loads(l) for l in open(os.path.join(V, "properties.jsonl"))]
checks, na = [], []
for p in props:
    pid = p["id"]
    path = os.path.join(V, "checks", pid.lower() + ".py")
    if not os.path.exists(path):
        na.append({"property_id": pid, "reason": "not claimed yet: the bounded-exhaustive check designed in DESIGN.md section 4 is not built at this commit (the technique applies; this is a work-in-progress marker, not a limit of the method)"})
        continue
    m = importlib.import_module(f"checks.{pid.lower()}")
    checks.append({
        "property_id": pid,
        "quick_cmd": f"./check {pid} quick",
        "thorough_cmd": f"./check {pid} thorough",
        "evidence_file": f"/verif/evidence/{pid}.json",
        "replay_cmd_template": f"./check {pid} --replay {{path}}",
        "engine": "mc",
        "level_claimed": {"category": "model_checking", "text": getattr(m, "LEVEL_TEXT", m.TECHNIQUE), "design_ref": f"DESIGN.md section 4, {pid}"},
        "level_note": "; ".join(m.ASSUMPTIONS),
        "technique": m.TECHNIQUE,
    })
man = {
    "version": 1,
    "setup_cmd": "./check --selftest",
    "hooks": {"guard": "PYOMA2_VERIF", "enable": "no source hooks: checks import /repo/src as it stands and interpose at run time by patching module attributes from outside (DESIGN.md 2.3); PYOMA2_VERIF=1 is exported by ./check and read by nothing in /repo",
              "baseline_off_cmd": "cd /repo && /venv/bin/python -m pytest -ra -q -p no:cacheprovider --timeout=900 --continue-on-collection-errors",
              "source_commits": [], "add_only": True},
    "engines": [{"name": "mc", "path": "/verif/mc", "serves_properties": [c["property_id"] for c in checks],
                 "kind_free_text": "hand-written explicit-state / bounded-exhaustive explorer for Python: level-synchronous BFS over event histories of real objects with canonical-state merging, exhaustive product-space enumeration over 16 forked workers, lock-step reference models, replay files, known-findings file"}],
    "checks": checks,
    "not_applicable": na,
    "notes": "All checks run the real code imported from /repo/src (or $VERIF_REPO/src for mutation sweeps). Exit 0 = held on everything explored (KNOWN-FINDING lines for listed findings), 1 = VIOLATION lines, 2 = CHECK-ERROR (broken harness: vacuity/guard monitors).",
}
json.dump(man, open(os.path.join(V, "MANIFEST.json"), "w"), indent=1)
print(f"MANIFEST.json: {len(checks)} checks, {len(na)} not claimed")
