#!/venv/bin/python
"""tools/timing_table.py <quick run_all log> <thorough log> [<thorough log> ...]: markdown table of the final quick and thorough runs
(one line per check: states, evaluations, wall and CPU seconds, exit code). Later thorough logs override earlier ones."""
import re, sys

def parse_quick(path):
    out = {}
    for line in open(path):
        m = re.match(r"seed=(\d+) (C\d\d) exit=(\d+) .*?wall=([\d.]+)s .*?user=([\d.]+)s", line)
        if m:
            out.setdefault(m.group(2), []).append((int(m.group(1)), int(m.group(3)), float(m.group(4)), float(m.group(5))))
    return out

def parse_thor(paths):
    out = {}
    for p in paths:
        for line in open(p):
            m = re.match(r"(C\d\d) exit=(\d+) states=(\d+) transitions=(\d+) validated=(\d+) evaluations=(\d+).*?violations=(\d+) wall=([\d.]+)s.*?user=([\d.]+)s", line)
            if m:
                out[m.group(1)] = dict(exit=int(m.group(2)), states=int(m.group(3)), transitions=int(m.group(4)), evaluations=int(m.group(6)),
                                       violations=int(m.group(7)), wall=float(m.group(8)), user=float(m.group(9)))
    return out

def main():
    q = parse_quick(sys.argv[1])
    t = parse_thor(sys.argv[2:])
    import json, os
    V = os.path.dirname(os.path.dirname(os.path.abspath(__file__)))
    print("| check | quick: states | evaluations | wall s (seeds) | CPU s | exit | thorough: states | evaluations | wall s | CPU s | exit |")
    print("|---|---|---|---|---|---|---|---|---|---|---|")
    for cid in sorted(set(q) | set(t)):
        ev = json.load(open(os.path.join(V, "evidence", cid + ".json")))
        c = ev.get("coverage", {})
        runs = q.get(cid, [])
        walls = "/".join(f"{w:.0f}" for _s, _e, w, _u in runs)
        cpu = max((u for *_x, u in runs), default=0)
        ex = ",".join(str(e) for _s, e, _w, _u in runs)
        th = t.get(cid)
        tt = f"{th['states']} | {th['evaluations']} | {th['wall']:.0f} | {th['user']:.0f} | {th['exit']}" if th else "- | - | - | - | -"
        print(f"| {cid} | {c.get('states')} | {c.get('evaluations')} | {walls} | {cpu:.0f} | {ex} | {tt} |")
main()
