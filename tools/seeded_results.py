#!/venv/bin/python
"""Regenerate seeded/RESULTS.md from seeded/*/meta.json and the verification logs in seeded/verify_logs/ (last run per change wins)."""
import glob, json, os, re
V = os.path.dirname(os.path.dirname(os.path.abspath(__file__)))
NOTES = {
 'C16-s1': 'MISSED by the first version of C16 (picks on an empty order were not generated); caught after the alphabet was extended',
 'C18-s1': 'MISSED by the first version of C18 (only one MAC argument was ever scaled); caught after MAC(p,p), second-argument scales and both-sets-scaled pairs were added',
 'C15-s2': 'MISSED by the first version of C15 (every algorithm had its own parameter object); caught after shared-parameter subsets were added',
 'C01-s1': 'MISSED by the first version of C01 (no two consecutive cases shared shape+parameters); caught after the forced-collision run was added',
 'C13-s1': 'MISSED by the first version of C13 (even segment lengths only); caught after odd nxseg (25, 75) was added for the periodogram estimator',
 'C17-s2': 'MISSED by the first version of C17 (record lengths with N mod nb = 1 only); caught after the data factor was also judged on a record with N mod nb = nb-1 (either contiguous partition accepted, each block normalised by its own length)',
 'C01-s3': 'MISSED (response level was always O(1)); caught after the level of the initial condition became an axis (1, 3e-8, 2e5)',
 'C03-s3': 'MISSED (every call got fresh copies of the records); caught after a second identification on the SAME record objects was judged (function and class route)',
 'C06-s3': 'MISSED (first-stage band always smaller than the bell band); caught after an EFDD/FSDD case with DF2 < DF1 was added',
 'C07-s3': 'MISSED (scale factors 1e-6..1e6 only); caught after the scale set was extended to 4e-16 and 1e15',
 'C09-s3': 'MISSED (criteria lattice did not contain the ends of the stated ranges); caught after mpd_lim = 0, mpc_lim = 1, xi_max = 1e-3 points were added (and the key order of the hc dict rotates)',
 'C10-s3': 'MISSED (soft-criteria dict always written in the same key order); caught after the key order rotates over the six permutations',
 'C11-s3': 'MISSED (class mpe always called with keywords); caught after the call form rotates (positional for rtol = 0.02)',
 'C12-s3': 'MISSED (a fresh algorithm object for every run); caught after the same algorithm object is re-added to a setup with other records of the same shape and run again',
 'C13-s3': 'MISSED (overlap fractions 0, 1/4, 1/2, 3/4 only); caught after decimal overlaps (0.3, 0.7, 0.8, 0.9) on nxseg 20 and 100 were added',
 'C14-s3': 'MISSED (float64 records only); caught after an int16 kind (thorough: float32, int64) was added',
 'C15-s3': 'MISSED by C15 (no preprocessing between add calls) but caught as shipped by C14 (probe algorithms must keep the data of the moment they were added); C15 catches it too after the prep event with data versions was added',
 'C16-s3': 'MISSED (dialog only driven with ordmin = 0); caught after a variant with ordmin = 2 was added',
 'C19-s3': 'MISSED (fresh tables for every call); caught after the reuse part (the same table objects handed to a second definition; caller tables must come back unchanged) was added',
 'C20-s3': 'MISSED (singular values of ordinary size only); caught after lines with a near-null and an exactly null singular value were added',
 'C01-s4': 'MISSED (integer-valued sampling rates only); caught after fs = 102.4 replaced 100',
 'C02-s4': 'MISSED (float / complex shape matrices only); caught after a kind with an integer-typed first setup was added',
 'C03-s4': 'caught as shipped by the version of C03 current at that time (non-default hc on the _MS classes); the sampling rates of C03 are now non-integer too',
 'C05-s4': 'MISSED (spectra of level 1e-2..1 only); caught after a coefficient family with a numerator of level 1e-8 was added',
 'C06-s4': 'MISSED (stored decomposition judged right after run() only); caught after it is judged again after the extractions',
 'C07-s4': 'MISSED (selected frequency always a list of float); caught after the form of the pick rotates (float / int list / int tuple / int array)',
 'C08-s4': 'MISSED (float records only); caught after int64 raw-count records under integer gains were added - which also exposed a genuine int64 overflow of the unchanged tree in the OTHER covariance method (defect 18, fixed in 8d930cb)',
 'C09-s4': 'MISSED by C09 (fresh algorithm object per criteria point) but caught as shipped by C15 (run twice must equal the isolated reference); C09 catches it too after a second run of the same object is compared',
 'C11-s4': 'MISSED (no pole just above the upper edge of the band); caught after symbols 10.51 and 10.202 were added to the cell catalogue',
 'C12-s4': 'MISSED (float64 records only); caught after int16 / int32 records rotate through the run route',
 'C13-s4': 'MISSED (records far below 2**22 channel-pair-samples); caught after one long record per estimator was added (lattice and delay part)',
 'C14-s4': 'MISSED by the quick tier (breakpoint detrend only in the thorough alphabet); caught after det(bp=half) moved into the quick alphabet',
 'C15-s4': 'MISSED (a fresh instance for every add); caught after the composite event re-add-the-same-instance-and-run was added',
 'C16-s4': 'MISSED (no click at x = 0.0); caught after picks and deselect-nearest at exactly 0 Hz were added',
 'C17-s4': 'MISSED (Hankel matrices of ordinary size only); caught after a level axis (1, 1e-9 on the records / 1e-18 on H) was added',
 'C18-s4': 'MISSED (a fresh array for every call); caught after the same array object is rescaled in place between two MAC calls',
 'C19-s4': 'MISSED (index corruptions renamed a label, never re-ordered rows); caught after the reorder-rows corruption (relaxed oracle: ValueError or a geometry aligned by label) was added',
 'C20-s4': 'MISSED (ordmin = 0 only); caught after a sub-lattice with ordmin 1 and 2 was added',
 'C01-s5': 'MISSED (all modes further apart than the extraction tolerance); caught after the pole placement "close" (two modes 3 % apart, inside the default rtol) was added to the lattice',
 'C02-s5': 'MISSED (global mode-shape matrices of unit level only); caught after the level of the global matrix became an axis (1e-6, 1e-3, 1, 1e3, 1e6) on the function and class routes',
 'C03-s5': 'MISSED (ordmax = 2m only); caught after ordmax rotates over 2m, 2m+2 and the two ends of the band br*nref < ordmax <= (br+1)*nref (wide reference block; capped by the rows of the shifted global observability matrix)',
 'C04-s5': 'MISSED (power-of-two segment lengths only; the frequency grid was already compared); caught after nxseg 65, 100, 127 (thorough 255, 2047) were added on both routes',
 'C06-s5': 'MISSED (extraction entered through mpe only); caught after the entry point became an axis {mpe, mpe_from_plot} (dialog replaced by a stand-in returning grid lines) with three call forms and DF omitted / non-default, on all five FDD-family classes',
 'C07-s5': 'MISSED (fs 1 and 100, thorough 12.8); caught after the non-integer sampling rates 0.64, 1.6, 2.56, 6.25, 12.5, 102.4 Hz were added as a covering sub-lattice on both routes',
 'C08-s5': 'MISSED (every run got a fresh copy of the record); caught after same-object sequences were added: one ndarray (one list of ndarrays) handed to successive setups at k*fs, rescaled and permuted in place between the runs',
 'C09-s5': 'MISSED (criteria always written as Python bool/float); caught after the form of the criteria values rotates (bool / numpy.bool_ / int for the flag; float / numpy.float64 / int / numpy.int64 for integral limits)',
 'C10-s5': 'MISSED (labels never judged with the uncertainty option on); caught after the route SSIcov.run with calc_unc=True and a cov_max axis (off, default, tighter, rejects all) over designed uncertainty tables was added',
 'C11-s5': 'MISSED (one extraction per fresh table; inputs not compared after the call); caught after every call compares the tables handed in (and the stored result tables) with their pristine bytes, and after chains of two (thorough three) extractions on the same objects were added',
 'C12-s5': 'MISSED (records of at most a few thousand samples); caught after the long-record region was added (numbers of averaged products around 2**12, 2**14, 2**16, 2**17 and mid-octave lengths up to 3*2**16+50; three methods, three dtypes)',
 'C13-s5': 'MISSED (11-smooth segment lengths only); caught after lengths with a prime factor >= 13 were added (17, 26, 39, 52, 65, 998, 1018, 1023, 4082; thorough also 34, 514) in all four parts',
 'C16-s5': 'MISSED (dialog always opened with the default frequency limits); caught after band variants were added (SSI (3, 7), FDD (2.5, 9.2); thorough also pLSCF (0, 8.5), FDD (3, 7)) in which some clicks and some poles lie outside the band',
 'C17-s5': 'MISSED (random systems never have two poles of equal natural frequency); caught after the designed region "coincident natural frequencies" (two modes, or a mode and a real pole, tuned to f_b = f_a(1+offset), offset 0 and 1e-6) was added on the exact and the data route',
 'C18-s5': 'MISSED (complex128 / float64 arrays only); caught after the storage dtype of the shapes became an axis (int64, int32, float32, float64, complex64, complex128; every ordered pair for the two-argument indicators)',
 'C20-s5': 'MISSED (every figure drawn in a fresh state, order step 1 only); caught after history cases were added: a second drawing of the same table shape in the same (forked, otherwise untouched) process after the same chart / the other hide_poles value / another table / another step, steps 1, 2, 3',
 'C01-s6': 'MISSED (tables were read straight after run()); caught after read-only operations were interleaved (mc/looks.py): on every 29th free-decay case plot_stab / plot_cluster / plot_svalH are called with a frequency window between run and the reading of the tables / mpe',
 'C02-s6': 'MISSED (PoSER object built after all results existed, merged once); caught after order of operations on one existing PoSER object was added (replace / rollback+re-add / re-run / re-extract in a subset of setups, sequences C-M, M-C-M, C-M-M, C-M-C-M) on the class and end-to-end routes',
 'C03-s6': 'MISSED (no failing call ever made); caught after a third class-route pass was added in which one or two preprocessing calls with illegal arguments raise and are caught before the algorithms are added (21 calls, 5 patterns)',
 'C05-s6': "MISSED (methodSy='per' only); caught after the blanking and counting clauses are also judged for methodSy='cor' (nxseg 32, 1024) on the true-coefficient route: reported poles minus the window term must be exactly the roots with non-positive real part",
 'C06-s6': 'MISSED (zero-based frequency axes only); caught after the frequency axis became a lattice axis at function level (10 axes cropped at the lower end / off the multiples of the spacing / at both ends) and the stored decomposition is handed to FDD_mpe cropped to four bands end-to-end',
 'C07-s6': 'MISSED (mpe and the function only); caught after EFDD/FSDD.mpe_from_plot through the real dialog driven head-less was added as a third route with seven frequency views (lower limit 0 and > 0)',
 'C08-s6': 'MISSED (nothing between building the setup and running); caught after one pair in 24 calls plot_data / plot_ch_info / plot_STFT of the setup before BOTH runs (mc/looks.py)',
 'C10-s6': 'MISSED (labels compared with the tables straight after run()); caught after one class-route case in 97 stores the result on the algorithm, draws its charts with a window that leaves the highest reference-stable pole outside, and only then compares labels and stored tables (NaN poles must not carry the stable label)',
 'C12-s6': 'MISSED (well-conditioned records only; float reference good to eps*cond^2); caught after part 5 was added: near-redundant / delayed-copy / common-component references with cond(Yp) up to 1.3e7 judged against an exact rational reference with the unchanged tolerance',
 'C13-s6': 'MISSED (records of unit level only); caught after the overall level of the records became an axis (1e-9, 1e-6, 1e-3, 1e6) in all four parts, with common-gain-squared and complexness judgements',
 'C14-s6': 'MISSED (no failing call in the alphabet); caught after events were added in which a preprocessing call with an illegal argument raises and is caught - the setup must equal the unchanged model afterwards',
 'C15-s6': 'MISSED (every prototype setup filled by one add_algorithms call); caught after the way each setup was filled (one call / one call per algorithm) rotates over the PoSER constructor inputs',
 'C16-s6': 'MISSED (one session per fresh object); caught after the prior axis was added: the judged session opens on an algorithm object that already holds modes from mpe() or an earlier session, and what the algorithm holds afterwards is compared field by field with the same history on a fresh object',
 'C17-s6': 'not run against the earlier version: the interleaving of read-only operations (plot_stab with error bars before the variance table is read, one class-route case in three) was added first, for C01-s6; as shipped the class route read the table straight after run()',
 'C18-s6': 'MISSED (each call on fresh arrays, inputs not compared afterwards); caught after every call compares its arguments before/after (bytes, dtype, shape, strides) and ordered pairs (payload: triples) of indicator calls on the same array objects were added',
 'C01-s7': 'MISSED (default ordmin only); caught after the label-only run parameters of the setup route rotate on the case index (ordmin 0, 1, 2m-1, 2m, 2m+1; sc default / none-stable / all-stable; keywords or a run-params object)',
 'C03-s7': 'MISSED (no copy / pickle of a multi-setup object); caught after round trips (save+load, pickle, deepcopy, copy) of the PreGER object were added, optionally after one successful preprocessing step, on the identification route and as a third split route: the returned split must be the split of its own datasets',
 'C04-s7': 'MISSED (one setup per configuration); caught after a third route carries several FDD_MS/EFDD_MS/pLSCF_MS instances that differ in one setting (overlap, estimator, nxseg) on ONE PreGER object, run by run_all, by name in reversed order and on a fresh object',
 'C05-s7': 'MISSED (payload coefficients are never near the identity); caught after coefficient families with the free end coefficient within 1e-9 .. 1.1e-5 of the identity were added on the fit, true-coefficient and class routes (with a ground-truth guard for fit cases the least-squares step cannot resolve)',
 'C07-s7': 'MISSED (DF2 of a few bandwidths); caught after the DF2 axis got the part "band wider than the distance to 0 Hz" (DF2 = 1, 1.5, 2, 3 fn and the library default on a mode below 1 Hz)',
 'C08-s7': 'MISSED (uncertainty bounds never switched on); caught after two SSIcov(cov_mm, calc_unc=True) variants joined the variant list (unit-component and all relations judged on them)',
 'C09-s7': 'MISSED (default ordmin only); caught after ordmin (0, 1, ordmax//2, ordmax) rotates over the cases of both drivers and a reference run with ordmin 0 must give identical pole tables',
 'C10-s7': 'MISSED (one algorithm object alive at a time); caught after other live objects (same / other parameter class, four ways of handing the tolerances over, another triple) are created between constructing and running the judged algorithm, and run_params.sc is compared with what was handed over',
 'C11-s7': 'MISSED (class routes with the default ordmin); caught after ordmin of the algorithm became an axis of the class routes for int, list and find_min orders',
 'C12-s7': 'MISSED (every algorithm constructed with keyword arguments); caught after part 6: one SSIRunParams object reaching two algorithm objects (5 sharing forms x 4 class pairs x 2 routes x 4 requested methods), result.H judged per class and the object compared with a snapshot',
 'C13-s7': 'MISSED (every channel had non-zero samples); caught after degenerate records were added (zero channel, zeroed reference row, constant channel, single spike, twin channels) with zero-in-zero-out and identical-rows judgements',
 'C14-s7': 'MISSED (no copy / pickle of a setup); caught after the round-trip event was added to the alphabet (deepcopy / pickle / save+load / copy, by rotation; the history continues on the returned object, a later rollback must restore the initial data)',
 'C16-s7': 'MISSED (no two designed poles of one order within rtol of each other); caught after a closely spaced pair was added to the designed SSI tables',
 'C17-s7': 'MISSED (float64 factors only); caught after the kind and dtype of the factor became an axis of the function route (one-hot / small integers as float64, float32, int64, int32)',
 'C18-s7': 'MISSED (no nearly uniform shapes); caught after the family v = m(1 + s u), s = 1e-2 .. 1e-8, collinear and with a small non-collinear part, times every scale of the catalogue was added',
 'C19-s7': 'MISSED (unknown labels were invented strings); caught after the corruption family "label borrowed from another table" was added (constraint names, mapping tokens, point numbers as strings, raw reference-channel names) for geo2 and geo1',
 'C12-s8': 'MISSED (matrices read without a copy, and the reference value came from a build_hank call that rewrote the shared buffer just before the comparison); caught after every observed / reference matrix is copied at the moment of reading and the earlier-return-value-survives-a-later-call comparison was added',
 'C17-s8': 'MISSED (retained singular values never closer than a few per cent); caught after the designed-singular-value-gap region (gaps 1.5e-3, 4e-3, 9e-3 between two retained singular values) was added',
 'C04-s9': 'MISSED (overlaps 0, 1/4, 1/2, 3/4 only); caught after the decimal overlaps 0.3, 0.6, 0.7, 2/3 on every segment length 40..100 were added to the function route',
 'C18-s9': 'MISSED (the two sets were always separate arrays); caught after MAC is also called with the two sets as adjacent / overlapping views of one array',
 'C19-s9': 'MISSED (all geometry-2 tables carried the same column headers); caught after the column-header alphabet (4 sets, every triple mapping/sign/points, sign sheet present and omitted, both definition routes) was added',
 'C20-s7': 'MISSED (every figure closed right after judging); caught after "two charts alive at once" was added to the history cases: A is judged again after B was drawn',
 'C20-s2': 'MISSED by the quick tier of the first version of C20 (CMIF with a frequency window only in the thorough tier); caught after the window was added to the quick tier',
}
def main():
    logs = ''
    for f in sorted(glob.glob(os.path.join(V, 'seeded/verify_logs/*.log')), key=lambda p: [int(x) for x in re.findall(r'\d+', os.path.basename(p))] or [0]):
        logs += open(f).read()
    last = {}
    for line in logs.splitlines():
        m = re.match(r'^(C\d\d-s\d): (.*)$', line)
        if m:
            last.setdefault(m.group(1), []).append(m.group(2))
    head = open(os.path.join(V, 'seeded/RESULTS.md')).read().split('| seeded change |')[0]
    out = head + '| seeded change | what it does | needs, to manifest | verification (last run) | note |\n|---|---|---|---|---|\n'
    dirs = sorted(glob.glob(os.path.join(V, 'seeded/C*-s*')))
    ncaught = 0
    for d in dirs:
        name = os.path.basename(d)
        m = json.load(open(d + '/meta.json'))
        runs = last.get(name, ['(not yet verified)'])
        ver = runs[-1]
        if 'baseline on patched: skipped' in ver:        # baseline confirmed in an earlier run of the same patch
            for r in reversed(runs[:-1]):
                b = re.search(r'baseline on patched: (\d+/\d+)', r)
                if b:
                    ver = ver.replace('baseline on patched: skipped', f'baseline on patched: {b.group(1)} (earlier run)')
                    break
        if re.search(r'C\d\d \w+: exit=1', ver):
            ncaught += 1
        c = lambda x: str(x or '').replace('|', '/').replace('\n', ' ')[:420]
        out += f"| `{name}` | {c(m.get('title'))} | {c(m.get('needs_to_manifest'))} | {c(ver)} | {NOTES.get(name, 'caught as shipped')} |\n"
    out += (f"\n{ncaught} of {len(dirs)} seeded changes are reported by the quick tier of their property's check (exit 1, VIOLATION line); "
            f"{len([n for n in NOTES if os.path.isdir(os.path.join(V, 'seeded', n))])} of them needed a strengthening of the check first (marked MISSED above; DESIGN.md section 10.5-10.7). "
            "Baseline runs that reported 74/75 were load flakes of the shared box (the named test passes in isolation; the de-flaked tool re-runs missing tests serially). "
            "Raw logs of every verification run, including the runs in which a change was still missed, are in `seeded/verify_logs/`.\n")
    open(os.path.join(V, 'seeded/RESULTS.md'), 'w').write(out)
    print(f"{ncaught}/{len(dirs)} caught")
main()
