#!/venv/bin/python
"""Regenerate seeded/RESULTS.md from seeded/*/meta.json and the verification logs in seeded/verify_logs/ (last run per change wins)."""
import glob, json, os, re
V = os.path.dirname(os.path.dirname(os.path.abspath(__file__)))
NOTES = {
 'C16-s1': 'MISSED by the first version of C16 (picks on an empty order were not generated); caught after the alphabet was extended',
 'C18-s1': 'MISSED by the first version of C18 (only one MAC argument was ever scaled); caught after MAC(p,p), second-argument scales and both-sets-scaled pairs were added',
 'C15-s2': 'MISSED by the first version of C15 (every algorithm had its own parameter object); caught after shared-parameter subsets were added',
 'C01-s1': 'MISSED by the first version of C01 (no two consecutive cases shared shape+parameters); caught after the forced-collision run was added',
 'C13-s1': 'MISSED by the first version of C13 (even segment lengths only); caught after odd nxseg (25, 75) was added for the periodogram estimator',
 'C17-s2': 'MISSED by the first version of C17 (record lengths with N mod nb = 1 only); caught after the data factor was also judged on a record with N mod nb = nb-1 (either contiguous partition accepted, each block normalised by its own length)',
 'C20-s2': 'MISSED by the quick tier of the first version of C20 (CMIF with a frequency window only in the thorough tier); caught after the window was added to the quick tier',
}
def main():
    logs = ''
    for f in sorted(glob.glob(os.path.join(V, 'seeded/verify_logs/*.log')), key=lambda p: [int(x) for x in re.findall(r'\d+', os.path.basename(p))] or [0]):
        logs += open(f).read()
    last = {}
    for line in logs.splitlines():
        m = re.match(r'^(C\d\d-s\d): (.*)$', line)
        if m:
            last.setdefault(m.group(1), []).append(m.group(2))
    head = open(os.path.join(V, 'seeded/RESULTS.md')).read().split('| seeded change |')[0]
    out = head + '| seeded change | what it does | needs, to manifest | verification (last run) | note |\n|---|---|---|---|---|\n'
    dirs = sorted(glob.glob(os.path.join(V, 'seeded/C*-s*')))
    ncaught = 0
    for d in dirs:
        name = os.path.basename(d)
        m = json.load(open(d + '/meta.json'))
        runs = last.get(name, ['(not yet verified)'])
        ver = runs[-1]
        if re.search(r'C\d\d \w+: exit=1', ver):
            ncaught += 1
        c = lambda x: str(x or '').replace('|', '/').replace('\n', ' ')[:420]
        out += f"| `{name}` | {c(m.get('title'))} | {c(m.get('needs_to_manifest'))} | {c(ver)} | {NOTES.get(name, 'caught as shipped')} |\n"
    out += (f"\n{ncaught} of {len(dirs)} seeded changes are reported by the quick tier of their property's check (exit 1, VIOLATION line); "
            f"{len([n for n in NOTES if os.path.isdir(os.path.join(V, 'seeded', n))])} of them needed a strengthening of the check first (marked MISSED above; DESIGN.md section 10.5-10.7). "
            "Baseline runs that reported 74/75 were load flakes of the shared box (the named test passes in isolation; the de-flaked tool re-runs missing tests serially). "
            "Raw logs of every verification run, including the runs in which a change was still missed, are in `seeded/verify_logs/`.\n")
    open(os.path.join(V, 'seeded/RESULTS.md'), 'w').write(out)
    print(f"{ncaught}/{len(dirs)} caught")
main()
