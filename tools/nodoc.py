#!/usr/bin/env python3
"""Print python sources without docstrings/blank lines, with original line numbers (reading aid)."""
import ast, sys
def strip(path):
    src = open(path).read()
    tree = ast.parse(src)
    lines = src.split("\n")
    drop = set()
    for node in ast.walk(tree):
        if isinstance(node, (ast.FunctionDef, ast.ClassDef, ast.Module, ast.AsyncFunctionDef)):
            b = node.body
            if b and isinstance(b[0], ast.Expr) and isinstance(getattr(b[0], "value", None), ast.Constant) and isinstance(b[0].value.value, str):
                drop.update(range(b[0].lineno, b[0].end_lineno + 1))
    for i, l in enumerate(lines, 1):
        if i in drop or not l.strip():
            continue
        print(f"{i}:{l}")
for p in sys.argv[1:]:
    print("#######", p)
    strip(p)
