#!/venv/bin/python
"""Verify a seeded change kept under /verif/seeded/<name>/ (patch.diff, demo.py, meta.json):
  1. demo.py passes (exit 0) on the unchanged /repo tree,
  2. the patch applies to a scratch copy, the 75 baseline tests still pass there,
  3. demo.py fails (exit != 0) on the patched copy,
  4. the listed checks report a VIOLATION on the patched copy (quick tier; --tier thorough possible).
usage: tools/verify_seeded.py [--tier quick] [--skip-baseline] seeded/<name> [...]
"""
import json, os, re, shutil, subprocess, sys, time
V = os.path.dirname(os.path.dirname(os.path.abspath(__file__)))
SCR = "/root/scratch/seeded"

def run_demo(tree, demo):
    env = dict(os.environ, PYTHONPATH=os.path.join(tree, "src"), MPLBACKEND="Agg", TQDM_DISABLE="1")
    env.pop("PYOMA2_VERIF", None)
    r = subprocess.run(["/venv/bin/python", demo], cwd=os.path.dirname(demo), env=env, capture_output=True, text=True, timeout=1800)
    return r.returncode, (r.stdout + r.stderr)[-400:]

def main():
    a = sys.argv[1:]
    tier, skip = "quick", False
    while a and a[0].startswith("--"):
        f = a.pop(0)
        if f == "--tier": tier = a.pop(0)
        elif f == "--skip-baseline": skip = True
    for d in a:
        d = os.path.abspath(d)
        name = os.path.basename(d)
        meta = json.load(open(os.path.join(d, "meta.json")))
        props = meta.get("checks") or [meta["property"]]
        demo = os.path.join(d, meta.get("demo", "demo.py"))
        tree = os.path.join(SCR, name)
        shutil.rmtree(tree, ignore_errors=True)
        os.makedirs(SCR, exist_ok=True)
        rc0, out0 = run_demo("/repo", demo)
        subprocess.run(["rsync", "-a", "--exclude", ".git", "/repo/", tree + "/"], check=True)
        p = subprocess.run(["patch", "-p1", "-s", "-i", os.path.join(d, "patch.diff")], cwd=tree, capture_output=True, text=True)
        if p.returncode:
            print(f"{name}: PATCH FAILED {p.stdout[-300:]}{p.stderr[-300:]}")
            shutil.rmtree(tree, ignore_errors=True)
            continue
        base = "skipped"
        if not skip:
            b = subprocess.run([os.path.join(V, "tools", "baseline.py"), tree], capture_output=True, text=True)
            base = "75/75" if b.returncode == 0 else "SUITE FAILS: " + b.stdout[-300:]
        rc1, out1 = run_demo(tree, demo)
        res = []
        for pid in props:
            env = dict(os.environ, VERIF_REPO=tree, VERIF_NO_CONFIRM="1", VERIF_EVIDENCE_DIR=os.path.join(SCR, f"ev-{os.getpid()}"))
            t0 = time.time()
            c = subprocess.run([os.path.join(V, "check"), pid, tier], cwd=V, env=env, capture_output=True, text=True)
            first = next((l.strip() for l in c.stdout.splitlines() if l.strip().startswith("class=")), "")
            res.append(f"{pid} {tier}: exit={c.returncode} {first[:140]} ({time.time()-t0:.0f}s)")
        shutil.rmtree(tree, ignore_errors=True)
        print(f"{name}: demo on /repo exit={rc0} | baseline on patched: {base} | demo on patched exit={rc1} | " + " | ".join(res), flush=True)
    shutil.rmtree(os.path.join(SCR, f"ev-{os.getpid()}"), ignore_errors=True)

if __name__ == "__main__":
    main()
