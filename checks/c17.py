"""C17 - the frequency variance of covariance-driven SSI is the first-order propagation of the Hankel covariance factor.

Exhaustive walk of the lattice (channels x reference subset x block rows x order x factor columns x Hankel family).
Oracles, all written from the statement:
  (i)   Fn_cov(T) = sum_k (d f / d H [T_k])^2, the directional derivative of every frequency of every judged model
        order obtained by central finite differences OF THE IDENTIFICATION ITSELF (SSI_fast + SSI_poles without
        uncertainty) at two step sizes that must agree, T_k un-stacked column-major ("column-stacked");
  (ii)  Fn_cov(T) = sum_k Fn_cov(T[:, k]);
  (iii) the factor build_hank produces from data = column-stacked (block estimate - full estimate)/sqrt(nb(nb-1)),
        block estimates recomputed by an independent loop;
  (iv)  SSIcov(calc_unc=True).result.Fn_poles_cov equals the function route on the bound data.
Guards come from my own SVD / shift-invariance eigenvalues of H, never from the library's output.
The lattice contains a region of systems with COINCIDENT NATURAL FREQUENCIES: two distinct, simple, separated eigenvalues (two modes of
different damping, or a mode and a real pole) whose identified natural frequencies agree exactly or to a few 1e-6 relative - the
quantifier asks for simple eigenvalues, not for distinct frequencies; every frequency must still get ITS OWN variance.
The function route is also walked over the KIND / DTYPE OF THE FACTOR ARRAY handed in: factors of whole numbers (one-hot columns = "perturb
one Hankel entry", columns of small integers) given as float64, float32, int64 and int32 arrays holding exactly the same values.
"""
import collections
import hashlib
import itertools

import numpy as np

from mc import looks, payload
from mc.core import Tally

ID = "C17"
TECHNIQUE = ("exhaustive walk of a configuration lattice around a payload alphabet of Hankel matrices and covariance "
             "factors; on every lattice point the reported variances are compared with central finite differences of "
             "the real identification (two step sizes, Richardson-combined, must agree), with the additivity over factor "
             "columns, with an independently recomputed block-bootstrap factor, and with the algorithm-class route; the "
             "alphabet contains systems designed (root bracketing on ground truth) so that two distinct eigenvalues share "
             "their natural frequency, and matrices re-assembled from their own singular vectors so that two consecutive retained "
             "singular values lie 1.5e-3 .. 9e-3 apart (the lower end of the admitted gaps)")
LEVEL_TEXT = ("every configuration of the stated lattice is executed on the real ssi.build_hank / SSI_fast / SSI_poles "
              "(and SSIcov through SingleSetup); every variance cell of every guarded model order is judged; the lattice includes "
              "systems designed so that two distinct eigenvalues share their natural frequency (exactly / to 1e-6 relative), and a region "
              "in which the same whole-number factor (one-hot columns, small integers) is handed to the function route as a float64, "
              "float32, int64 and int32 array, and a region in which two consecutive retained singular values of the Hankel matrix are a designed "
              "1.5e-3 / 4e-3 / 9e-3 apart (every pair index in the thorough tier)")
RULE = ("a case is one lattice point (family, channels, reference subset, block rows, order n = ordmax, factor columns, "
        "system variant, in the coincident-frequency region the coincidence variant and the relative frequency offset, in the "
        "factor-dtype region the kind of whole-number factor and the dtype of the array); "
        "non-trivial = it passed the truth-based guards, at least one model order in 2..n had its finite differences "
        "agree at both step sizes and a strictly positive expected variance (so a number was actually compared); "
        "distinct by lattice coordinates")
ASSUMPTIONS = [
    "numpy.linalg.svd / eig on the Hankel matrix give the conditioning numbers used as guards (trusted)",
    "the finite-difference reference differentiates the library's own identification (SSI_fast + SSI_poles with "
    "calc_unc=False), as the property prescribes; poles of the perturbed identifications are matched to the "
    "unperturbed ones by continuity (nearest continuous-time eigenvalue)",
    "relative tolerance 1e-3 on the variance (property text); a pole whose two step sizes disagree by more than 2e-4 "
    "in the summed squares is not judged",
    "the layout of the Hankel matrix itself (which lag sits where) is C12's subject: the block estimates are recomputed "
    "with the same lag layout lag(i,j) = i+j+1 and uniform weight 1/Nb; slack 2 max|H|/N covers 1/N versus 1/(N-1)",
    "coincident-frequency region: the input (Hankel matrix or record) is DESIGNED by tuning one design frequency with scipy.optimize.brentq "
    "on my own identification (numpy svd / pinv / eigvals of the Hankel matrix; for records my own moment matrix, which is proportional to "
    "build_hank's) until the two identified natural frequencies have the stated relative offset to 1e-10; the library's own identification "
    "agrees with mine far below numpy.isclose-like tolerances (monitored: eq_identified_frequency_rel_difference); nothing else differs "
    "from the other cases (same guards from truth, same finite-difference reference matched by eigenvalue, same tolerances)",
    "factor-dtype region: the factor is a set of perturbation directions of vec(H) and the statement does not depend on how the array "
    "holding them is typed; the designed factors consist of whole numbers (0/1 one-hot columns, integers -3..3) so that the casts to "
    "float32 / int64 / int32 are exact (checked on the values before the library is called); the reference is the same finite-difference "
    "sum computed from the float64 values, same tolerances (no band of its own for float32: the unchanged tree promotes to float64)",
    "designed-singular-value-gap region: the exact-family matrix is re-assembled from its own singular vectors with one singular value moved "
    "(sigma_{i+1} = sigma_i (1 - gap)); the result is a well-conditioned rank-n-plus-small-full-rank matrix of the Hankel shape but no longer "
    "block-Hankel structured - the identification and the propagation take a plain matrix and never use the structure (as in the whole exact "
    "family, whose small full-rank part is unstructured too); guards (gaps >= 1e-3, eigenvalue separation) are recomputed on the matrix handed in",
    "record lengths are chosen with N mod nb = 1 so that the block length N//nb is unambiguous; the data factor is additionally judged on a record with N mod nb = nb-1, where either contiguous partition (nb blocks of N//nb, or block lengths differing by one) is accepted provided every block estimate is normalised by its own length",
]

DT = 0.01
RTOL = 1e-3           # property text
FD_AGREE = 2e-4       # on the sum of squared derivatives (= 1e-4 on a derivative)
SV_GAP = 1e-3
EIG_SEP = 0.05
H_REL = (1e-6, 2.5e-7)  # finite-difference steps: |h D| / |H|
SENS_FLOOR = 1e-8     # a pole is judged only if (df/f)^2 >= SENS_FLOOR * sum_k (|T_k|/|H|)^2
CLASS_RTOL = 1e-6     # same code on the same numbers: only summation order (array layout) may differ
SG_GAPS = (1.5e-3, 4e-3, 9e-3)   # designed relative gap between two consecutive RETAINED singular values (all legal: >= SV_GAP)
N_BASE = 2941         # N = Ndat - 2 br - 1; 2941 = 49*60 + 1  ->  N mod nb = 1 for nb in 2, 3, 4, 5, 6, 10, 12, 15, 20


# ---- ground truth ---------------------------------------------------------------------------------

VARIANTS = {          # frequency band (f/fs), single-mode frequency, damping range, relative size of the full-rank part
    0: (0.06, 0.40, 0.17, 0.01, 0.04, 1e-3),
    1: (0.03, 0.25, 0.08, 0.005, 0.02, 3e-3),
    2: (0.10, 0.45, 0.31, 0.02, 0.08, 3e-4),
}


def system(seed, l, n, var=0):
    """Real block-modal system with n/2 lightly damped modes (n even) or (n-1)/2 modes plus one real pole (n odd)."""
    flo, fhi, f1, xlo, xhi, _ = VARIANTS[var]
    m = n // 2
    f = (np.linspace(flo, fhi, m + 2)[1:-1] if m > 1 else np.array([f1])) / DT
    xi = xlo + (xhi - xlo) * payload.uniform(seed, f"c17/xi/{l}/{n}/{var}", max(m, 1))[:m]
    lam = -xi * 2 * np.pi * f + 1j * 2 * np.pi * f * np.sqrt(1 - xi**2)
    A = np.zeros((n, n))
    for k in range(m):
        z = np.exp(lam[k] * DT)
        A[2 * k:2 * k + 2, 2 * k:2 * k + 2] = [[z.real, z.imag], [-z.imag, z.real]]
    if n % 2:
        A[n - 1, n - 1] = 0.8
    C = payload.entries(seed, f"c17/C/{l}/{n}/{var}", (l, n), lo=0.2, hi=1.0)
    G = payload.entries(seed, f"c17/G/{l}/{n}/{var}", (n, l), lo=0.2, hi=1.0)
    return A, C, G


def hankel_exact(seed, l, refs, br, n, var=0):
    A, C, G = system(seed, l, n, var)
    Gr = G[:, list(refs)]
    O = np.vstack([C @ np.linalg.matrix_power(A, i) for i in range(br + 1)])
    Con = np.hstack([np.linalg.matrix_power(A, i) @ Gr for i in range(br + 1)])
    H = O @ Con
    E = payload.normal(seed, f"c17/E/{l}/{refs}/{br}/{n}/{var}", H.shape)
    return H + VARIANTS[var][5] * np.linalg.norm(H) / np.linalg.norm(E) * E


_REC = {}


def record(seed, l, n, var=0):
    """Response of the system to payload white noise plus 5 % measurement noise, (Ndat_max x l)."""
    key = (seed, l, n, var)
    if key not in _REC:
        A, C, G = system(seed, l, n, var)
        nd = N_BASE + 2 * 8 + 1 + 200
        w = payload.normal(seed, f"c17/w/{l}/{n}/{var}", (nd, l))
        v = payload.normal(seed, f"c17/v/{l}/{n}/{var}", (nd, l))
        x = np.zeros(n)
        y = np.empty((nd, l))
        for k in range(nd):
            y[k] = C @ x
            x = A @ x + G @ w[k]
        y = y[200:]
        y = y + 0.05 * y.std(0) * v[200:]
        _REC.clear()
        _REC[key] = y
    return _REC[key]


def ndat_for(br):
    return N_BASE + 2 * br + 1


# ---- coincident natural frequencies: distinct, simple eigenvalues with the same |lambda_c| -----------------------
# Two different modes may have the same natural frequency and different damping ratios (a real pole has damping ratio 1): the
# eigenvalues are simple and well separated (the quantifier's only conditions), only their moduli agree. The design frequency of
# mode b is tuned (deterministic root bracketing on MY OWN shift-invariance identification of the Hankel matrix) until the natural
# frequency identified for b at order n equals the one identified for a times (1 + offset).

EQ_VARIANTS = {       # shared natural frequency f/fs, damping ratio of mode a, of mode b (even n), relative full-rank part
    0: (0.17, 0.01, 0.08, 1e-3),
    1: (0.31, 0.005, 0.04, 3e-3),
    2: (0.12, 0.02, 0.12, 3e-4),
}
EQ_OFFSETS = {0: 0.0, 1: 1e-6, 2: -1e-6, 3: 4e-6}     # (f_b - f_a)/f_a of the IDENTIFIED frequencies at order n
EQ_EXTRA = (0.55, 1.4, 0.8)                            # further modes (orders >= 5): frequency relative to the shared one
EQ_BRACKET = 0.08
EQ_ACHIEVED = 1e-10


def eq_design(n, eqv, fb):
    """Continuous-time design eigenvalues (upper half plane / real axis): mode a, mode b (a real pole when n is odd), further modes."""
    fa, xa, xb, _ = EQ_VARIANTS[eqv]
    wa, wb = 2 * np.pi * fa / DT, 2 * np.pi * fb / DT
    lam_a = wa * (-xa + 1j * np.sqrt(1 - xa**2))
    lam_b = complex(-wb) if n % 2 else wb * (-xb + 1j * np.sqrt(1 - xb**2))
    xc = 0.5 * (xa + xb)
    extra = [2 * np.pi * EQ_EXTRA[k] * fa / DT * (-xc + 1j * np.sqrt(1 - xc**2)) for k in range((n - (3 if n % 2 else 4)) // 2)]
    return lam_a, lam_b, extra


def system_eq(seed, l, n, eqv, fb):
    lam_a, lam_b, extra = eq_design(n, eqv, fb)
    A = np.zeros((n, n))
    for k, lam in enumerate([lam_a] + extra + ([] if n % 2 else [lam_b])):
        z = np.exp(lam * DT)
        A[2 * k:2 * k + 2, 2 * k:2 * k + 2] = [[z.real, z.imag], [-z.imag, z.real]]
    if n % 2:
        A[n - 1, n - 1] = np.exp(lam_b.real * DT)
    C = payload.entries(seed, f"c17/eq/C/{l}/{n}/{eqv}", (l, n), lo=0.2, hi=1.0)
    G = payload.entries(seed, f"c17/eq/G/{l}/{n}/{eqv}", (n, l), lo=0.2, hi=1.0)
    return A, C, G


_EQE = {}


def hankel_eq_exact(seed, l, refs, br, n, eqv, fb):
    A, C, G = system_eq(seed, l, n, eqv, fb)
    Gr = G[:, list(refs)]
    O = np.vstack([C @ np.linalg.matrix_power(A, i) for i in range(br + 1)])
    Con = np.hstack([np.linalg.matrix_power(A, i) @ Gr for i in range(br + 1)])
    H = O @ Con
    key = (seed, l, refs, br, n, eqv)
    if key not in _EQE:
        _EQE.clear()
        _EQE[key] = payload.normal(seed, f"c17/eq/E/{l}/{refs}/{br}/{n}/{eqv}", H.shape)
    E = _EQE[key]
    return H + EQ_VARIANTS[eqv][3] * np.linalg.norm(H) / np.linalg.norm(E) * E


_EQW = {}


def record_eq(seed, l, n, eqv, fb):
    """Response of system_eq to payload white noise plus 5 % measurement noise (modal recursion, one complex state per 2x2 block)."""
    from scipy.signal import lfilter

    key = (seed, l, n, eqv)
    nd = N_BASE + 2 * 8 + 1 + 200
    if key not in _EQW:
        _EQW.clear()
        _EQW[key] = (payload.normal(seed, f"c17/eq/w/{l}/{n}/{eqv}", (nd, l)), payload.normal(seed, f"c17/eq/v/{l}/{n}/{eqv}", (nd, l)))
    w, v = _EQW[key]
    A, C, G = system_eq(seed, l, n, eqv, fb)
    u = w @ G.T                                           # (nd, n): input of every state
    x = np.zeros((nd, n))
    for k in range(n // 2):                               # block [[a, b], [-b, a]] acts on c = x1 - i x2 as multiplication by a + i b
        z = A[2 * k, 2 * k] + 1j * A[2 * k, 2 * k + 1]
        cin = u[:, 2 * k] - 1j * u[:, 2 * k + 1]
        c = lfilter([0.0, 1.0], [1.0, -z], cin)           # c[t+1] = z c[t] + cin[t], c[0] = 0
        x[:, 2 * k], x[:, 2 * k + 1] = c.real, -c.imag
    if n % 2:
        x[:, n - 1] = lfilter([0.0, 1.0], [1.0, -A[n - 1, n - 1]], u[:, n - 1])
    y = (x @ C.T)[200:]
    return y + 0.05 * y.std(0) * v[200:]


def own_hankel(Y, Yref, br):
    """Moment matrix with the Hankel layout lag(i,j) = i+j+1 (same layout as block_moments), explicit loops."""
    l, nd = Y.shape
    r = Yref.shape[0]
    p, q = br, br + 1
    nc = nd - p - q - 1
    M = np.zeros(((p + 1) * l, q * r))
    for i in range(p + 1):
        yi = Y[:, q + 1 + i:q + 1 + i + nc]
        for j in range(q):
            M[i * l:(i + 1) * l, j * r:(j + 1) * r] = yi @ Yref[:, q - j:q - j + nc].T / nc
    return M


def own_poles(H, l, n):
    """Continuous-time eigenvalues at order n by my own shift-invariance identification (SVD, pseudo-inverse, eigvals)."""
    U, s, _ = np.linalg.svd(H)
    Obs = U[:, :n] * np.sqrt(s[:n])
    z = np.linalg.eigvals(np.linalg.pinv(Obs[:-l]) @ Obs[l:])
    return np.log(z.astype(complex)) / DT


def eq_gap(H, l, n, lam_a, lam_b):
    """|lambda_b| / |lambda_a| - 1 of the identified poles nearest to the design poles a and b (upper half plane / real axis)."""
    lam = own_poles(H, l, n)
    if not np.all(np.isfinite(lam)):
        return np.nan
    lam = np.where(lam.imag < 0, lam.conj(), lam)
    ia = int(np.argmin(np.abs(lam - lam_a)))
    d = np.abs(lam - lam_b)
    d[np.abs(lam - lam[ia]) < 1e-9 * abs(lam_a)] = np.inf      # a itself and its conjugate
    ib = int(np.argmin(d))
    return abs(lam[ib]) / abs(lam[ia]) - 1.0


def tune_eq(hfun, l, n, eqv, off):
    """Design frequency of mode b (f/fs) such that hfun(fb) has identified f_b = f_a (1 + off) at order n; None when no bracket."""
    from scipy.optimize import brentq

    fa = EQ_VARIANTS[eqv][0]

    def g(fb):
        lam_a, lam_b, _ = eq_design(n, eqv, fb)
        return eq_gap(hfun(fb), l, n, lam_a, lam_b) - off

    lo, hi = fa * (1 - EQ_BRACKET), fa * (1 + EQ_BRACKET)
    glo, ghi = g(lo), g(hi)
    if not (np.isfinite(glo) and np.isfinite(ghi) and glo * ghi < 0):
        return None, np.nan
    try:
        fb = brentq(g, lo, hi, xtol=1e-16, rtol=8.9e-16, maxiter=200)
    except Exception:
        return None, np.nan
    return fb, abs(g(fb))


def my_guards(H, l, n):
    """Singular-value gaps among the first n+1 and eigenvalue separation per order, from my own SVD / shift invariance."""
    U, s, _ = np.linalg.svd(H)
    if len(s) < n + 1 or s[n] <= 0:
        return None, {}
    gaps = (s[:n] - s[1:n + 1]) / s[:n]
    if gaps.min() < SV_GAP:
        return None, {}
    Obs = U[:, :n] * np.sqrt(s[:n])
    seps = {}
    for k in range(2, n + 1):
        Ak = np.linalg.pinv(Obs[:-l, :k]) @ Obs[l:, :k]
        z = np.linalg.eigvals(Ak)
        d = np.abs(z[:, None] - z[None, :]) + 1e9 * np.eye(k)
        seps[k] = float(d.min())
    return float(gaps.min()), seps


# ---- whole-number factors handed in under several dtypes -------------------------------------------------------
# A covariance factor is a set of perturbation directions of vec(H). The direction "one entry of H" is a one-hot column, naturally written
# as an integer (or single-precision) array; columns of small whole numbers likewise. The values are whole numbers so that every cast below
# is exact: the SAME factor is handed in as float64, float32, int64 and int32 and the variance must be the same first-order propagation.

TK_KINDS = ("one-hot", "small-integers")
TK_DTYPES = ("float64", "float32", "int64", "int32")


def whole_number_factor(seed, kind, nH, ncol, tag):
    """(nH x ncol) float64 array of whole numbers: one-hot columns at distinct payload positions, or integers -3..3."""
    if kind == "one-hot":
        base = int(payload.uniform(seed, f"c17/tk/pos/{tag}", 1)[0] * nH) % nH
        T = np.zeros((nH, ncol))
        for j in range(ncol):
            T[(base + j * (nH // ncol)) % nH, j] = 1.0       # nH >= 6 > ncol: distinct rows
        return T
    u = payload.uniform(seed, f"c17/tk/int/{tag}", nH * 5).reshape(nH, 5)[:, :ncol]
    return np.floor(7 * u) - 3.0


_FD = {}


# ---- library routes -------------------------------------------------------------------------------

def ident(ssi, H, br, n):
    Obs, A, C, *_ = ssi.SSI_fast(H, br, n)
    Fn, Xi, Phi, Lam, *_ = ssi.SSI_poles(Obs, A, C, n, DT)
    return Fn, Lam


def ident_unc(ssi, H, br, n, T):
    Obs, A, C, Q1, Q2, Q3, Q4 = ssi.SSI_fast(H, br, n, calc_unc=True, T=T, nb=T.shape[1])
    Fn, Xi, Phi, Lam, Fc, Xc, Pc = ssi.SSI_poles(Obs, A, C, n, DT, calc_unc=True, Q1=Q1, Q2=Q2, Q3=Q3, Q4=Q4)
    return Fn, Lam, Fc


def fd_expected(ssi, H, br, n, T, Fn0, Lam0, orders, t):
    """sum_k (df/dH[T_k])^2 for every pole of every order in `orders`: (expected, agree) arrays n x (n+1)."""
    acc = [np.zeros((n, n + 1)), np.zeros((n, n + 1)), np.zeros((n, n + 1))]   # coarse, fine, Richardson
    nH = np.linalg.norm(H)
    for j in range(T.shape[1]):
        D = T[:, j].reshape(H.shape, order="F")          # column-stacked direction
        nD = np.linalg.norm(D)
        if not nD > 0:
            continue
        ders = []
        for rel in H_REL:
            h = rel * nH / nD
            Fp, Lp = ident(ssi, H + h * D, br, n)
            Fm, Lm = ident(ssi, H - h * D, br, n)
            t.evaluations += 2
            d = np.full((n, n + 1), np.nan)
            for k in orders:
                for i in range(k):
                    ip = int(np.argmin(np.abs(Lp[:k, k] - Lam0[i, k])))
                    im = int(np.argmin(np.abs(Lm[:k, k] - Lam0[i, k])))
                    d[i, k] = (Fp[ip, k] - Fm[im, k]) / (2 * h)
            ders.append(d)
        rich = (16 * ders[1] - ders[0]) / 15
        acc[0] += np.nan_to_num(ders[0]) ** 2
        acc[1] += np.nan_to_num(ders[1]) ** 2
        acc[2] += np.nan_to_num(rich) ** 2
    return acc


# ---- independent block-bootstrap factor -----------------------------------------------------------

def block_moments(Y, Yref, br, nb, partition="floor"):
    """Full and block-wise moment matrices with the Hankel layout lag(i,j) = i+j+1, by explicit loops over block rows/columns.
    Every block estimate is a properly normalised average over its own contiguous samples. Two ways of cutting the N-1 products
    into nb contiguous blocks are admissible when N is not a multiple of nb: 'floor' (nb blocks of N//nb, remainder unused) and
    'even-split' (block lengths differing by at most one, nothing unused)."""
    l, nd = Y.shape
    r = Yref.shape[0]
    p, q = br, br + 1
    N = nd - p - q
    ncols = N - 1                 # the time index t runs over 0 .. N-2
    Nb = N // nb

    def moment(t0, t1, weight):
        M = np.zeros(((p + 1) * l, q * r))
        for i in range(p + 1):
            yi = Y[:, q + 1 + i + t0:q + 1 + i + t1]
            for j in range(q):
                yj = Yref[:, q - j + t0:q - j + t1]
                M[i * l:(i + 1) * l, j * r:(j + 1) * r] = yi @ yj.T * weight
        return M

    full = moment(0, ncols, 1.0 / ncols)
    if partition == "floor":
        ranges = [(k * Nb, min((k + 1) * Nb, ncols)) for k in range(nb)]
    else:
        sizes = [ncols // nb + (1 if k < ncols % nb else 0) for k in range(nb)]
        starts = np.concatenate([[0], np.cumsum(sizes)])
        ranges = [(int(starts[k]), int(starts[k + 1])) for k in range(nb)]
    blocks = [moment(a, b, 1.0 / (b - a)) for a, b in ranges]
    return full, blocks, N, Nb


def judge_factor(t, case, T, Y, Yref, br, nb):
    full, blocks, N, Nb = block_moments(Y, Yref, br, nb)
    tol = 2 * np.abs(full).max() / N + 1e-9
    if T is None or np.shape(T) != (full.size, nb):
        t.violation("factor:shape", f"build_hank returned a factor of shape {np.shape(T)}, expected ({full.size},{nb})", case)
        return False
    if not np.all(np.isfinite(T)):
        t.violation("factor:not-finite", "the covariance factor contains NaN/inf", case)
        return False
    S = T * np.sqrt(nb * (nb - 1))
    cand = {}
    for order, scale in itertools.product("FC", (1.0, 1.0 / N)):
        ref = np.column_stack([(b * scale - full).reshape(-1, order=order) for b in blocks])
        cand[(order, scale == 1.0)] = float(np.abs(S - ref).max())
    err = cand[("F", True)]
    if err > tol and (N - 1) % nb:
        # the other admissible way of cutting the record into nb contiguous, properly normalised blocks
        _, blocks2, _, _ = block_moments(Y, Yref, br, nb, "even-split")
        ref2 = np.column_stack([(b - full).reshape(-1, order="F") for b in blocks2])
        err = min(err, float(np.abs(S - ref2).max()))
    t.err("factor_abs_over_maxH", err / np.abs(full).max())
    spread = max(float(np.abs(b - full).max()) for b in blocks)
    t.validated += 1
    if err <= tol:
        t.outcomes["factor:holds"] += 1
        sym = cand[("C", True)] <= tol
        t.outcomes["factor:vec-order-decidable" if not sym else "factor:vec-order-undecidable(symmetric H)"] += 1
        return True
    what = "other"
    for (order, unit), e in cand.items():
        if e <= tol:
            what = "+".join(([] if order == "F" else ["row-major"]) + ([] if unit else ["block-estimates-N-times-too-small"]))
    t.violation(f"factor:{what}",
                f"T*sqrt(nb(nb-1)) differs from the column-stacked (block estimate - full estimate) by {err:.3e} "
                f"(allowed {tol:.1e}; block deviations are of size {spread:.2e}); residuals of the alternatives "
                f"[row-major {cand[('C', True)]:.2e}, blocks/N {cand[('F', False)]:.2e}, row-major and blocks/N {cand[('C', False)]:.2e}]",
                case)
    return False


# ---- class route ----------------------------------------------------------------------------------

def judge_class(t, case, ssi, data, refs, l, br, n, nb, Fc_fun, cells):
    from pyoma2.algorithms import SSIcov
    from pyoma2.setup import SingleSetup

    hc = dict(conj=False, xi_max=1e300, mpc_lim=-1e300, mpd_lim=1e300, cov_max=1e300)
    t.evaluations += 1
    try:
        ss = SingleSetup(data.copy(), 1 / DT)
        alg = SSIcov(name="s", br=br, ordmax=n, ref_ind=None if len(refs) == l else list(refs), calc_unc=True, nb=nb, hc=hc)
        ss.add_algorithms(alg)
        ss.run_by_name("s")
        # run, LOOK, then read: on a fixed third of the class-route cases the charts of the algorithm (read-only operations,
        # mc/looks.py) are drawn before the variance table is read; the chart with error bars is handed that very table
        pick = int(hashlib.sha1(repr(sorted((k, repr(v)) for k, v in case.items())).encode()).hexdigest(), 16)
        if pick % 3 == 0:
            f_hi = 0.25 / DT
            for name, err in looks.look_at_alg(alg, pick // 3, (0.0, f_hi)):
                t.outcomes[f"class:looked-at-algorithm-before-reading:{name}" + (":raised" if err else "")] += 1
        got = alg.result.Fn_poles_cov
    except Exception as e:
        t.violation(f"class:raises:{type(e).__name__}", f"SSIcov(calc_unc=True).run raised {e!r}", case)
        return
    t.transitions += 1
    if got is None or np.shape(got) != np.shape(Fc_fun):
        t.violation("class:no-variance-table", f"result.Fn_poles_cov is {None if got is None else np.shape(got)}, "
                    f"function route gives {np.shape(Fc_fun)}", case)
        return
    fin = np.isfinite(got) & cells          # cells the class kept (hard criteria switched off as far as possible) and (i) judged
    if not fin.any():
        t.outcomes["class:all-cells-masked:not-judged"] += 1
        return
    rel = np.max(np.abs(got[fin] - Fc_fun[fin]) / np.abs(Fc_fun[fin]))
    t.err("class_vs_function_rel", rel)
    if not rel <= CLASS_RTOL:
        t.violation("class:differs-from-function-route",
                    f"SSIcov.result.Fn_poles_cov differs from build_hank+SSI_fast+SSI_poles on the same data by {rel:.3e} relative", case)
        return
    t.outcomes["class:holds"] += 1


# ---- one case -------------------------------------------------------------------------------------

def feasible(l, r, br, n):
    return (br + 1) * r >= n + 1 and (br + 1) * l >= n + 1 and br * l >= n


def run_case(seed, c):
    t = _run_case(seed, c)
    if c.get("eq") is not None:
        # the outcome counters of the coincident-frequency region are kept apart: the vacuity monitors of the rest of the lattice
        # must not be satisfied by it
        t.outcomes = collections.Counter({(k if k.startswith("eq:") else "eq/" + k): v for k, v in t.outcomes.items()})
    elif c.get("tk") is not None:
        # likewise for the factor-dtype region
        t.outcomes = collections.Counter({(k if k.startswith("tk:") else "tk/" + k): v for k, v in t.outcomes.items()})
    elif c.get("sg") is not None:
        # likewise for the designed-singular-value-gap region
        t.outcomes = collections.Counter({(k if k.startswith("sg:") else "sg/" + k): v for k, v in t.outcomes.items()})
    return t


def _run_case(seed, c):
    from pyoma2.functions import ssi

    t = Tally()
    t.states = 1
    fam, l, refs, br, n, ncol = c["fam"], c["l"], tuple(c["refs"]), c["br"], c["n"], c["ncol"]
    var = c.get("var", 0)
    eq = tuple(c["eq"]) if c.get("eq") is not None else None       # (coincidence variant, offset index) or None
    tk = tuple(c["tk"]) if c.get("tk") is not None else None       # (kind of whole-number factor, dtype of the array) or None
    sg = tuple(c["sg"]) if c.get("sg") is not None else None       # (index i of the upper singular value, gap index) or None
    r = len(refs)
    case = dict(c, seed=seed)
    cid = (fam[0], l, refs, br, n, ncol, var) + (("eq",) + eq if eq else ()) + (("tk",) + tk if tk else ()) + (("sg",) + sg if sg else ())

    # the overall level of the Hankel matrix / of the records is free (variances relative to f^2 are scale invariant): unit level,
    # and a very small one (nanometre displacements in metres) on every second lattice point
    level = 1.0 if (l + br + n + ncol + (0 if fam == "exact" else 1)) % 2 else 1e-9
    t.outcomes[f"level:{level:g}"] += 1
    T = None
    fb = None
    if eq:
        # two distinct eigenvalues with (nearly) the same natural frequency: tune the design frequency of mode b on ground truth
        eqv, off = eq[0], EQ_OFFSETS[eq[1]]
        t.outcomes["eq:cases"] += 1
        if fam == "exact":
            def hfun(f):
                return hankel_eq_exact(seed, l, refs, br, n, eqv, f)
        else:
            def hfun(f):
                Yf = record_eq(seed, l, n, eqv, f)[:ndat_for(br)].T
                return own_hankel(Yf, Yf[list(refs), :], br)
        fb, achieved = tune_eq(hfun, l, n, eqv, off)
        if fb is None or not achieved <= EQ_ACHIEVED:
            t.not_judged += 1
            t.outcomes[f"eq:{fam}:no-coincidence-within-the-bracket:not-judged"] += 1
            return t
        t.err("eq_coincidence_abs_error_of_relative_offset", achieved)
    if fam == "exact":
        if eq:
            H = (level ** 2) * hankel_eq_exact(seed, l, refs, br, n, eqv, fb)
            T = payload.normal(seed, f"c17/eq/T/{l}/{refs}/{br}/{n}/{eqv}", (H.size, 20))[:, :ncol] * 1e-3 * np.linalg.norm(H) / np.sqrt(H.size)
        else:
            H = (level ** 2) * hankel_exact(seed, l, refs, br, n, var)
            if sg:
                # two consecutive retained singular values a stated small (legal) relative gap apart: the matrix is re-assembled from its own
                # singular vectors with sigma_{i+1} := sigma_i (1 - gap); everything else (guards, reference, tolerances) as elsewhere
                i_sg, g_sg = sg[0], SG_GAPS[sg[1]]
                U_, s_, Vt_ = np.linalg.svd(H, full_matrices=False)
                s2_ = s_.copy()
                s2_[i_sg + 1] = s_[i_sg] * (1 - g_sg)
                t.outcomes["sg:cases"] += 1
                if not (i_sg + 1 <= n - 1 and s2_[i_sg + 1] > s2_[i_sg + 2] * (1 + 10 * SV_GAP)):
                    t.not_judged += 1
                    t.outcomes["sg:gap-not-designable:not-judged"] += 1
                    return t
                H = (U_ * s2_) @ Vt_
            T = payload.normal(seed, f"c17/T/{l}/{refs}/{br}/{n}/{var}", (H.size, 20))[:, :ncol] * 1e-3 * np.linalg.norm(H) / np.sqrt(H.size)
            if tk:
                # the same whole numbers, handed in as an array of the stated dtype (the cast is exact by design: verified on the values)
                T64 = whole_number_factor(seed, tk[0], H.size, ncol, f"{l}/{refs}/{br}/{n}/{var}")
                T = T64.astype(tk[1])
                t.outcomes["tk:cases"] += 1
                if not (T.dtype == np.dtype(tk[1]) and np.array_equal(T.astype(np.float64), T64) and np.all(T64 == np.round(T64))):
                    raise AssertionError("harness: the whole-number factor did not survive the cast")
    else:
        nb = 3 if ncol == 1 else ncol
        data = level * (record_eq(seed, l, n, eqv, fb) if eq else record(seed, l, n, var))[:ndat_for(br)]
        Y = data.T                                        # same memory layout as the algorithm class uses (a transposed view)
        Yref = Y[list(refs), :] if r < l else Y
        t.evaluations += 1
        try:
            H, Tfull = ssi.build_hank(Y, Yref, br, "cov_mm", calc_unc=True, nb=nb)
        except Exception as e:
            t.violation(f"factor:raises:{type(e).__name__}", f"build_hank(calc_unc=True) raised {e!r}", case)
            return t
        t.transitions += 1
        factor_ok = True
        if ncol > 1:      # (iii) once per (layout, nb)
            factor_ok = judge_factor(t, case, Tfull, Y, Yref, br, nb)
            if nb >= 3:
                # the same on a record whose length leaves a remainder: N mod nb = nb - 1 (block partition not unique;
                # whatever partition is used, every block estimate must be normalised by its own length)
                N0 = Y.shape[1] - 2 * br - 1
                d = (N0 - (nb - 1)) % nb
                Yt = data[:data.shape[0] - d].T
                Yt_ref = Yt[list(refs), :] if r < l else Yt
                t.evaluations += 1
                try:
                    _, Tt = ssi.build_hank(Yt, Yt_ref, br, "cov_mm", calc_unc=True, nb=nb)
                    factor_ok = judge_factor(t, dict(case, truncated_by=d), Tt, Yt, Yt_ref, br, nb) and factor_ok
                    t.outcomes["factor:remainder-record-judged"] += 1
                except Exception as e:
                    t.violation(f"factor:raises:{type(e).__name__}", f"build_hank(calc_unc=True) raised {e!r} on a record with N mod nb = {nb - 1}", case)
        if Tfull is None or np.shape(Tfull) != (np.size(H), nb) or not np.all(np.isfinite(Tfull)):
            if ncol == 1:
                t.not_judged += 1
            return t
        T = Tfull[:, :ncol]

    gap, seps = my_guards(H, l, n)
    if gap is None:
        t.skipped_by_guard += 1
        t.outcomes["guard:singular-value-gap"] += 1
        return t
    orders = [k for k in range(2, n + 1) if seps[k] >= EIG_SEP]
    t.outcomes["order-skipped:eigenvalue-separation"] += (n - 1) - len(orders)
    if not orders:
        t.skipped_by_guard += 1
        t.outcomes["guard:eigenvalue-separation(all orders)"] += 1
        return t

    # library: variances for the whole factor
    t.evaluations += 1
    try:
        Fn0, Lam0, Fc = ident_unc(ssi, H, br, n, T)
    except Exception as e:
        t.violation(f"propagation:raises:{type(e).__name__}",
                    f"SSI_fast/SSI_poles(calc_unc=True) raised {e!r} (H {H.shape}, T {T.shape})", case)
        return t
    if Fc is None or np.shape(Fc) != (n, n + 1):
        t.violation("propagation:no-variance-table", f"Fn_cov is {None if Fc is None else np.shape(Fc)}, expected ({n},{n+1})", case)
        return t

    # (i) finite differences of the identification itself
    try:
        if tk:
            # the reference does not depend on how the array is typed: finite differences along the float64 values, computed once per
            # designed factor and shared by the dtypes of the same lattice point (they run consecutively in one slice)
            key = (seed, l, refs, br, n, ncol, var, tk[0])
            if key not in _FD:
                _FD.clear()
                _FD[key] = fd_expected(ssi, H, br, n, T64, Fn0, Lam0, orders, t)
            coarse, fine, rich = _FD[key]
        else:
            coarse, fine, rich = fd_expected(ssi, H, br, n, T, Fn0, Lam0, orders, t)
    except Exception as e:
        t.violation(f"identification:raises:{type(e).__name__}", f"SSI_fast/SSI_poles without uncertainty raised {e!r}", case)
        return t
    judged_any = False
    scale2 = np.linalg.norm(T64 if tk else T) ** 2 / np.linalg.norm(H) ** 2      # sum_k (|T_k| / |H|)^2
    cells = np.zeros((n, n + 1), bool)                            # the cells that are judged
    eq_rows = ([], [])
    if eq:
        # rows of the order-n column that hold the coincident poles a and b (labels and vacuity monitors only)
        lam_a, lam_b, _ = eq_design(n, eqv, fb)
        lf = np.where(Lam0[:n, n].imag < 0, Lam0[:n, n].conj(), Lam0[:n, n])
        if np.all(np.isfinite(lf)):
            ra = np.abs(lf - lf[int(np.argmin(np.abs(lf - lam_a)))]) < 1e-6 * abs(lam_a)
            db = np.where(ra, np.inf, np.abs(lf - lam_b))
            rb = (np.abs(lf - lf[int(np.argmin(db))]) < 1e-6 * abs(lam_a)) & ~ra
            eq_rows = (list(np.flatnonzero(ra)), list(np.flatnonzero(rb)))
    for k in orders:
        judged = 0
        for i in range(k):
            exp, a, b = rich[i, k], coarse[i, k], fine[i, k]
            if not (np.isfinite(exp) and exp > 0 and abs(a - b) <= FD_AGREE * b):
                t.outcomes["pole:finite-differences-disagree:not-judged"] += 1
                continue
            sens = exp / (Fn0[i, k] ** 2 * scale2)                # squared relative sensitivity along the factor
            if not sens >= SENS_FLOOR:
                # the factor is (numerically) a direction along which this frequency does not move, e.g. H itself:
                # the variance is a cancellation residue and a relative comparison is meaningless
                t.outcomes["pole:insensitive-direction:not-judged"] += 1
                continue
            t.err("minus_log10_min_relative_sensitivity", -np.log10(sens))
            cells[i, k] = True
            got = Fc[i, k]
            rel = abs(got - exp) / exp
            judged += 1
            if not rel <= RTOL:
                coincident = eq and k == n and i in eq_rows[0] + eq_rows[1]
                t.violation("propagation:fn-variance-vs-finite-difference" + (":pole-sharing-its-natural-frequency-with-another" if coincident else "")
                            + (f":whole-number-factor-handed-in-as-{tk[1]}" if tk else ""),
                            f"order {k}, pole {i} (f={Fn0[i, k]:.6g}): Fn_cov={got:.6e}, squared directional derivative(s) "
                            f"sum to {exp:.6e} (steps agree to {abs(a-b)/b:.1e}); ratio {got/exp:.4g}; "
                            f"H {H.shape}, {T.shape[1]} factor column(s)" + (f" of {tk[0]} kind, dtype {T.dtype}" if tk else ""), case)
            else:
                t.err("fn_variance_rel", rel)
        if judged:
            t.transitions += 1
            t.validated += 1
            judged_any = True
            t.outcomes[f"order-judged:{k}"] += 1
            if k < n:
                t.outcomes["order-below-ordmax-judged"] += 1
    if eq:
        rows = eq_rows[0] + eq_rows[1]
        if eq_rows[0] and eq_rows[1] and all(cells[i, n] for i in rows):
            t.outcomes["eq:coincident-poles-judged"] += 1
            t.outcomes[f"eq:{fam}:coincident-poles-judged"] += 1
            t.outcomes[f"eq:offset:{off:g}:judged"] += 1
            t.outcomes[f"eq:{'mode-and-real-pole' if n % 2 else 'two-modes'}:judged"] += 1
            t.outcomes[f"eq:order-{n}:judged"] += 1
            if min(abs(i - j) for i in eq_rows[0] for j in eq_rows[1]) == 1:
                t.outcomes["eq:coincident-poles-adjacent-in-the-pole-list:judged"] += 1
            t.err("eq_identified_frequency_rel_difference", max(abs(Fn0[i, n] / Fn0[j, n] - 1) for i in eq_rows[0] for j in eq_rows[1]))
        else:
            t.outcomes["eq:coincident-poles-not-all-judged"] += 1
    if not judged_any:
        t.not_judged += 1
        t.outcomes["case:no-pole-judged"] += 1
    else:
        t.nontrivial.add(cid)
        t.outcomes[f"{fam}:judged"] += 1
        t.outcomes[f"columns:{ncol}"] += 1
        if sg:
            # the order columns that retain BOTH close singular values are k >= i+2; were any of them judged?
            if any(cells[:, k].any() for k in range(sg[0] + 2, n + 1)):
                t.outcomes[f"sg:gap:{SG_GAPS[sg[1]]:g}:judged"] += 1
                t.outcomes[f"sg:pair-index:{'first' if sg[0] == 0 else 'last' if sg[0] == n - 2 else 'inner'}:judged"] += 1
                t.err("sg_designed_gap_achieved_rel_error", abs((1 - g_sg) - np.linalg.svd(H, compute_uv=False)[sg[0] + 1] / np.linalg.svd(H, compute_uv=False)[sg[0]]) / g_sg)
        if tk:
            t.outcomes[f"tk:{tk[0]}:{tk[1]}:judged"] += 1
            t.outcomes[f"tk:{tk[0]}:{'single-direction' if ncol == 1 else 'several-columns'}:judged"] += 1
            t.outcomes[f"tk:level:{level:g}:{'integer' if T.dtype.kind == 'i' else 'floating'}-typed:judged"] += 1

    # (ii) additivity over the factor columns
    if ncol > 1:
        tot = np.zeros((n, n + 1))
        try:
            for j in range(ncol):
                _, _, Fj = ident_unc(ssi, H, br, n, T[:, j:j + 1])
                t.evaluations += 1
                tot += Fj
        except Exception as e:
            t.violation(f"propagation:raises:{type(e).__name__}:single-column", f"single-column factor raised {e!r}", case)
            return t
        sel = cells
        if not sel.any():
            return t
        rel = np.max(np.abs(Fc[sel] - tot[sel]) / np.abs(tot[sel]))
        t.transitions += 1
        t.err("additivity_rel", rel)
        if not rel <= 1e-9:
            t.violation("propagation:not-additive-over-columns",
                        f"Fn_cov(T) differs from the sum of Fn_cov(T[:,k]) over the {ncol} columns by {rel:.3e} relative", case)
        else:
            t.outcomes["additivity:holds"] += 1

    # (iv) the algorithm class on the same data
    if fam == "data" and ncol > 1:
        judge_class(t, case, ssi, data, refs, l, br, n, ncol, Fc, cells)

    if judged_any and (l, r, n) in ((2, 1, 4), (3, 2, 6), (3, 3, 8), (1, 1, 2)):
        t.sample({"case": case, "H_shape": list(H.shape), "orders_judged": orders, "min_sv_gap": gap,
                  "eig_sep": {str(k): round(v, 4) for k, v in seps.items()},
                  "Fn_cov_order_n": Fc[:n, n], "expected_order_n": rich[:n, n]})
    return t


# ---- exploration ----------------------------------------------------------------------------------

_SEED = 0


def layouts(ls):
    out = []
    for l in ls:
        for r in range(1, l + 1):
            for refs in itertools.combinations(range(l), r):
                out.append((l, refs))
    return out


def _slice(item):
    fam, l, refs, br, n, ncols, var, eq = item[:8]
    tks = (item[8] if len(item) > 8 else None) or [None]  # (kind, dtype) pairs of one designed factor, run consecutively
    sg = item[9] if len(item) > 9 else None
    t = Tally()
    for ncol in ncols:
        for tk in tks:
            t.merge(run_case(_SEED, dict(fam=fam, l=l, refs=list(refs), br=br, n=n, ncol=ncol, var=var, eq=list(eq) if eq else None,
                                         tk=list(tk) if tk else None, sg=list(sg) if sg else None)))
    return t


def explore(ctx):
    global _SEED
    _SEED = ctx.seed
    if ctx.thorough:
        ns, ncols, variants = [2, 3, 4, 5, 6, 7, 8], [1, 2, 3, 5, 10, 20], [0, 1, 2]
    else:
        ns, ncols, variants = [2, 4, 6, 8], [1, 3, 20], [0]
    brs = [2, 3, 4, 5]
    lay = layouts([1, 2, 3])
    ctx.bounds = {
        "family": ["exact (rank-n product + 1e-3 full-rank part, designed factor)", "data (build_hank on payload records, its own factor)"],
        "channels": [1, 2, 3], "reference_subsets": "all non-empty subsets of the channels (11 layouts)",
        "br": brs, "order n = ordmax": ns, "orders judged per case": "2..n (each under its own eigenvalue-separation guard)",
        "factor_columns": ncols, "dt": DT,
        "system_variant (frequency band f/fs, single-mode f/fs, damping range, relative full-rank part)": {str(v): VARIANTS[v] for v in variants}, "record_length": "2941 + 2 br + 1 samples (N mod nb = 1)",
        "finite_difference_steps |hD|/|H|": list(H_REL), "tolerance": {"variance_rel": RTOL, "fd_agreement": FD_AGREE,
                                                                    "additivity_rel": 1e-9, "class_vs_function_rel": CLASS_RTOL},
        "guards": {"relative singular-value gaps among the first n+1 >=": SV_GAP, "eigenvalue separation >=": EIG_SEP},
    }
    items = []
    infeasible = 0
    for fam, (l, refs), br, n, var in itertools.product(("exact", "data"), lay, brs, ns, variants):
        if not feasible(l, len(refs), br, n):
            infeasible += len(ncols)
            continue
        for ncol in ncols:
            items.append((fam, l, refs, br, n, [ncol], var, None))
    ctx.bounds["infeasible_lattice_points (H too small for order n)"] = infeasible

    # coincident natural frequencies: two distinct, separated eigenvalues with the same |lambda_c| (within the stated relative offset)
    if ctx.thorough:
        eq_ns, eq_ncols, eq_offs, eq_vars = [3, 4, 5, 6, 7, 8], [1, 3], [0, 1, 2, 3], None
    else:
        eq_ns, eq_ncols, eq_offs, eq_vars = [3, 4, 6], [3], [0, 1], "rotating"
    ctx.bounds["coincident_natural_frequencies"] = {
        "what": "systems in which two DISTINCT simple eigenvalues have the same natural frequency |lambda_c|/2pi and different damping ratios: "
                "even n = two modes (plus further modes at other frequencies for n >= 6), odd n = a mode and a real pole (damping ratio 1) of the "
                "same modulus; the design frequency of the second one is tuned by root bracketing on my own shift-invariance identification of "
                "the Hankel matrix (exact family) / of my own moment matrix of the record (data family) until the frequencies IDENTIFIED at "
                "order n satisfy f_b = f_a (1 + offset) to 1e-10; same oracles, guards and tolerances as the rest of the lattice",
        "variant (shared f/fs, damping a, damping b, relative full-rank part)": {str(k): v for k, v in EQ_VARIANTS.items()},
        "variant per lattice point": "all three" if eq_vars is None else "(l + r + br + n) mod 3 (every variant occurs with every layout and every n)",
        "relative offset (f_b - f_a)/f_a of the identified frequencies": [EQ_OFFSETS[o] for o in eq_offs],
        "order n = ordmax": eq_ns, "further modes at (relative to the shared frequency)": list(EQ_EXTRA[:2]),
        "layouts": "all 11", "br": brs, "factor_columns": eq_ncols,
        "family": "exact: every n; data: even n only (a real pole of the shared modulus is not recovered from a finite record, no coincidence can be tuned)",
        "tuning bracket": f"design frequency within +-{EQ_BRACKET:g} of the shared one; no sign change -> case not judged (counted)",
    }
    eq_items = []
    for fam, (l, refs), br, n in itertools.product(("exact", "data"), lay, brs, eq_ns):
        if not feasible(l, len(refs), br, n) or (fam == "data" and n % 2):
            continue
        for eqv in ([0, 1, 2] if eq_vars is None else [(l + len(refs) + br + n) % 3]):
            for off, ncol in itertools.product(eq_offs, eq_ncols):
                eq_items.append((fam, l, refs, br, n, [ncol], 0, (eqv, off)))
    items += eq_items

    # kind / dtype of the factor array on the function route: the same whole-number factor as float64, float32, int64, int32
    if ctx.thorough:
        tk_ncols, tk_vars = [1, 3, 5], [0]

        def tk_pairs(l, r, br, n):
            return [(kind, ncol) for kind in TK_KINDS for ncol in tk_ncols]
    else:
        tk_ncols, tk_vars = [1, 3], [0]

        def tk_pairs(l, r, br, n):
            # one (kind, columns) combination per lattice point, rotating: the four block-row values of a (layout, n) see all four
            a = (l + r + br + n // 2) % 4
            return [(TK_KINDS[a % 2], tk_ncols[a // 2])]
    ctx.bounds["factor_kind_and_dtype (function route)"] = {
        "what": "the covariance factor handed to ssi.SSI_fast(..., calc_unc=True, T=...) is a designed array of whole numbers, the SAME values "
                "given as arrays of several dtypes (casts exact, verified); exact Hankel family, all layouts / br / n of the main lattice; "
                "same finite-difference reference (computed from the float64 values), same guards and tolerances; the class route always "
                "builds its own float64 factor and has no such axis",
        "kinds": {"one-hot": "every column perturbs ONE entry of H (0/1 entries; distinct payload positions)",
                  "small-integers": "payload integers -3..3"},
        "dtypes": list(TK_DTYPES), "factor_columns": tk_ncols, "order n = ordmax": ns, "br": brs, "layouts": "all 11",
        "system_variant": tk_vars,
        "kind x columns per lattice point": "all combinations" if ctx.thorough else
        "one combination, number (l + r + br + n/2) mod 4 of (one-hot, 1), (small-integers, 1), (one-hot, 3), (small-integers, 3); all four dtypes on it",
    }
    tk_items = []
    for (l, refs), br, n, var in itertools.product(lay, brs, ns, tk_vars):
        if not feasible(l, len(refs), br, n):
            continue
        for kind, ncol in tk_pairs(l, len(refs), br, n):
            tk_items.append(("exact", l, refs, br, n, [ncol], var, None, [(kind, dt) for dt in TK_DTYPES]))
    items += tk_items

    # designed singular-value gaps: two consecutive retained singular values 1.5e-3 .. 9e-3 apart (the quantifier's lower end is 1e-3)
    sg_ncols = [1, 3]
    ctx.bounds["designed_singular_value_gap (function route)"] = {
        "what": "the exact-family Hankel matrix is re-assembled from its own singular vectors with sigma_{i+1} = sigma_i (1 - gap) for one pair of "
                "consecutive singular values that are both retained at order n (i+1 <= n-1): legal by the quantifier (relative gaps >= 1e-3), "
                "but close to its lower end, where the singular-vector sensitivities are largest; same reference, guards and tolerances",
        "relative gap": list(SG_GAPS), "order n = ordmax": ns, "br": brs, "layouts": "all 11", "factor_columns": sg_ncols,
        "pair index i": "every i in 0..n-2" if ctx.thorough else "i = (l + r + br + gap index) mod (n-1), columns rotate likewise",
    }
    sg_items = []
    for (l, refs), br, n in itertools.product(lay, brs, ns):
        if not feasible(l, len(refs), br, n):
            continue
        for gi in range(len(SG_GAPS)):
            if ctx.thorough:
                pairs = [(i, nc) for i in range(n - 1) for nc in sg_ncols]
            else:
                a = l + len(refs) + br + gi
                pairs = [(a % (n - 1), sg_ncols[(a // 2) % 2])]
            for i, nc in pairs:
                sg_items.append(("exact", l, refs, br, n, [nc], 0, None, None, (i, gi)))
    items += sg_items
    items.sort(key=lambda it: -(it[5][0] * it[4] ** 2 * (it[3] + 1) ** 2 * it[1] * len(it[2])))
    ctx.pmap(_slice, items, chunksize=1)
    ctx.require("level:1", "level:1e-09", "exact:judged", "data:judged", "factor:holds", "factor:remainder-record-judged", "factor:vec-order-decidable", "additivity:holds", "class:holds", "class:looked-at-algorithm-before-reading:plot_stab",
                "order-below-ordmax-judged", "columns:1", "columns:20")
    ctx.require("eq:exact:coincident-poles-judged", "eq:data:coincident-poles-judged", "eq:two-modes:judged", "eq:mode-and-real-pole:judged",
                "eq:coincident-poles-adjacent-in-the-pole-list:judged", "eq/additivity:holds", "eq/class:holds", "eq/factor:holds",
                *[f"eq:offset:{EQ_OFFSETS[o]:g}:judged" for o in eq_offs], *[f"eq:order-{n}:judged" for n in eq_ns])
    ctx.require(*[f"tk:{kind}:{dt}:judged" for kind in TK_KINDS for dt in TK_DTYPES],
                *[f"tk:{kind}:{w}:judged" for kind in TK_KINDS for w in ("single-direction", "several-columns")],
                *[f"tk:level:{lv}:{ty}-typed:judged" for lv in ("1", "1e-09") for ty in ("integer", "floating")],
                "tk/additivity:holds", *[f"tk/order-judged:{n}" for n in ns])
    ctx.require(*[f"sg:gap:{g:g}:judged" for g in SG_GAPS], "sg:pair-index:first:judged", "sg:pair-index:last:judged", "sg:pair-index:inner:judged",
                "sg/additivity:holds")


def replay(case):
    c = {k: case[k] for k in ("fam", "l", "refs", "br", "n", "ncol")}
    c["var"] = case.get("var", 0)
    c["eq"] = case.get("eq")
    c["tk"] = case.get("tk")
    c["sg"] = case.get("sg")
    return run_case(case["seed"], c)
