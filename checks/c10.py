"""C10 - stability labels follow the soft criteria between consecutive orders.

Bounded-exhaustive enumeration of pole tables over a symbolic catalogue (poles placed at chosen distances
from a base pole in frequency, damping and 1-MAC, a far pole with a near twin, NaN), every ordmin (and
ordmax), three tolerance triples, through gen.SC_apply and through the real SSIcov.run / pLSCF.run (the
identified pole table is replaced by the enumerated one).  Every label of every table is compared with a
brute-force reference labeller written from the property statement.

SSIcov.run is also driven in its uncertainty call form (method cov_mm, calc_unc=True, nb > 1; route name
"SSIcov.run+unc"): the enumerated pole table then comes with a designed table of frequency uncertainties (three
bands) and hc['cov_max'] takes four levels (off, the default 0.2, two tighter ones), so that the covariance hard
criterion removes none, some or all of the poles; the labels are judged against the tables that run() returns.

Other live objects (class routes): between the creation of the judged algorithm and its run(), none / one of the same parameter
class / one of the other parameter class / one of each are created with an explicit sc holding a DIFFERENT tolerance triple
(create all algorithms, then run them). The labels are judged against the triple handed to the judged algorithm, and the sc
stored on every live object must still be the one handed to it.
"""
import numpy as np

from checks import _a_labels as H
from mc import looks, payload
from mc.core import Tally

ID = "C10"
TECHNIQUE = ("bounded-exhaustive enumeration of pole tables over a symbolic pole catalogue x ordmin/ordmax x tolerance "
             "triples, every label compared with a brute-force reference labeller written from the statement; routes "
             "gen.SC_apply and result.Lab of the real SSIcov.run / pLSCF.run under designed pole populations, SSIcov.run also "
             "with calc_unc=True under designed uncertainty tables x levels of hc['cov_max'] (none / some / all poles removed); on the "
             "class routes other algorithm / run-parameter objects with different explicit tolerance triples are created between "
             "the creation and the run of the judged algorithm (none / same class / other class / both, rotating over the cases)")
LEVEL_TEXT = ("small-scope exhaustive: every table of the stated shapes over the stated catalogue is executed and every "
              "cell's label is judged; nothing is sampled")
RULE = ("a case is one pole table, executed over its whole (ordmin, ordmax, tolerance triple) grid; non-trivial = under at "
        "least one element of the grid it has a judged eligible cell (retained pole, order inside [ordmin, ordmax] and not "
        "the first, previous order not empty) for which either the previous order holds two or more retained poles whose "
        "verdicts differ (the choice of the nearest decides the label) or the nearest previous pole fails exactly one of the "
        "three tests; distinct by (space, table index), independent of the route and of the grid element")
ASSUMPTIONS = [
    "own MAC |x^H y|^2/(x^H x y^H y) and own nearest-neighbour search are the reference (about 40 lines)",
    "the relative differences may be taken with respect to the labelled pole or to the previous-order pole: the statement "
    "does not say which, cells where the two readings disagree are not judged (none in the catalogue)",
    "equidistant previous poles: either neighbour's verdict is accepted; values within 1e-9 (relative) of a tolerance are not judged",
    "pLSCF: 'order' is the column index of the tables (what mpe(order=c) reads) and ordmin is applied to it; the column "
    "ordmin-1 (order number ordmin when orders are counted from 1) is not judged on the pLSCF.run route",
    "run() routes: hard criteria are switched to their most permissive values; cells designed as rejected carry a pole with "
    "negative damping, which every setting of the damping criterion removes; labels are judged against the tables run() returns",
    "model-order step is 1",
    "SSIcov.run+unc (calc_unc=True, method cov_mm, nb in {2, 3, 4}): the Hankel matrix, its uncertainty and the state matrices "
    "are really computed on the tiny record, the pole table and its uncertainty tables handed to the hard criteria are the "
    "designed ones; the frequency uncertainty of cell (r, c) under design d lies in band (r + c + d) mod 3 of "
    "(1e-4, 1e-2, 1) x [0.5, 2), cov_max takes the levels 1e12 (removes nothing), 0.2 (the default: removes band 2), 1e-3 "
    "(removes bands 1 and 2) and 1e-6 (removes everything); which poles a level removes is known from the designed table "
    "(ground truth), never read from the library's output; (ordmin, tolerance triple) rotate with (design, level) so that "
    "every ordmin class and every triple occurs",
    "other live objects (class routes): the mode none / same-class / other-class / same-and-other-class is fixed by (table index + "
    "ordmin + 2 * tolerance index [+ design + level]) mod 4; the other objects are created AFTER the judged algorithm and BEFORE its "
    "run() and stay alive until its labels were judged; each is one of SSIcov, SSIdat, SSIcov_MS, SSIdat_MS (SSIRunParams) or pLSCF, "
    "pLSCF_MS (pLSCFRunParams), created as algorithm(**kwargs), bare run-parameter object, algorithm(run_params=object) or "
    "algorithm().set_run_params(object) in rotation, with a complete explicit sc in another key order whose triple differs from the "
    "judged one (another of the three triples, or the judged triple with one component taken from another triple); the other objects "
    "are not run; partial sc dictionaries are outside the space (the library's run() needs all three keys); the expected labels use "
    "the triple this check handed over, never the value read back from run_params.sc, and the stored sc of every live object and "
    "every handed-over dictionary is compared with the handed-over values after run()",
]

SYMS = ["b", "f05", "f3", "x2", "x50", "m01", "m5", "far", "fartwin", "nan"]
NAN = SYMS.index("nan")
TOLS = [(0.01, 0.05, 0.03), (1e-3, 1e-2, 1e-3), (0.1, 1.0, 0.9)]
TOL_NAMES = ["default", "tight", "loose"]
SUB5 = [SYMS.index(s) for s in ("b", "f3", "x50", "far", "nan")]
SUB4 = [SYMS.index(s) for s in ("b", "f3", "far", "nan")]
SUB3 = [SYMS.index(s) for s in ("b", "f05", "nan")]
SUB3B = [SYMS.index(s) for s in ("b", "far", "nan")]
SUB2 = [SYMS.index(s) for s in ("b", "nan")]
DECOY = [SYMS.index(s) for s in ("b", "far", "nan", "f3")]
NCOMP = 3
ROUTES = ("SC_apply", "SSIcov.run", "pLSCF.run")
UNC = "SSIcov.run+unc"          # SSIcov.run with calc_unc=True: the covariance hard criterion is live
ALL_ROUTES = ROUTES + (UNC,)
COV_BANDS = (1e-4, 1e-2, 1.0)   # designed frequency uncertainty of cell (r, c) under design d: band (r + c + d) % 3, x [0.5, 2)
COV_MAX = (1e12, 0.2, 1e-3, 1e-6)
COV_MAX_NAMES = ("off", "default", "tight", "rejects-all")
# (design, cov_max level): off and rejects-all once, the two binding levels under every design
UNC_GRID = [(0, 0)] + [(d, L) for L in (1, 2) for d in (0, 1, 2)] + [(0, 3)]

_SEED = 0
_CAT = {}


def catalogue(seed):
    """symbol -> (fn, xi, shape); shapes complex; 1-MAC to the base shape exact by construction."""
    if seed in _CAT:
        return _CAT[seed]
    a = H.unit(payload.cplx(seed, "c10/a", (NCOMP,)))
    w0 = payload.cplx(seed, "c10/w", (NCOMP,))
    w = H.unit(w0 - a * np.vdot(a, w0))
    b2 = H.unit(payload.cplx(seed, "c10/b2", (NCOMP,)))

    def rot(s2):
        return np.sqrt(1 - s2) * a + np.sqrt(s2) * w

    cat = {
        "b": (10.0, 0.02, a), "f05": (10.05, 0.02, a), "f3": (10.3, 0.02, a), "x2": (10.0, 0.0205, a),
        "x50": (10.0, 0.03, a), "m01": (10.0, 0.02, rot(0.01)), "m5": (10.0, 0.02, rot(0.5)),
        "far": (20.0, 0.012, b2), "fartwin": (20.03, 0.012, b2), "nan": None,
    }
    scales = payload.cplx(seed, "c10/scale", (4, 41), lo=0.5, hi=2.0)
    _CAT[seed] = ([cat[s] for s in SYMS], scales)
    return _CAT[seed]


def cov_tables(seed, raw_fn, d):
    """Designed (Fn_cov, Xi_cov, Phi_cov) for a raw pole table under design d: NaN where the raw table has no pole."""
    key = ("cov", seed)
    if key not in _CAT:
        _CAT[key] = (payload.uniform(seed, "c10/covf", 4 * 41, 0.5, 2.0).reshape(4, 41),
                     payload.uniform(seed, "c10/covx", 4 * 41, 0.5, 2.0).reshape(4, 41),
                     payload.uniform(seed, "c10/covp", 4 * 41 * NCOMP, 0.5, 2.0).reshape(4, 41, NCOMP))
    ff, fx, fp = _CAT[key]
    R, C = raw_fn.shape
    band = np.array([[COV_BANDS[(r + c + d) % 3] for c in range(C)] for r in range(R)])
    there = ~np.isnan(raw_fn)
    Fc = np.where(there, band * ff[:R, :C], np.nan)
    Xc = np.where(there, band * fx[:R, :C], np.nan)
    Pc = np.where(there[:, :, None], band[:, :, None] * fp[:R, :C, :], np.nan)
    return Fc, Xc, Pc


# ---- spaces -------------------------------------------------------------------------------------
def digits(idx, base, n):
    out = []
    for _ in range(n):
        out.append(idx % base)
        idx //= base
    return out[::-1]


def space_size(sp):
    kind = sp[0]
    if kind == "A":            # ("A", R, rows_axis): [decoy | previous column: every R-tuple | one current cell]
        _, R, rows_axis = sp
        return len(SYMS) ** R * len(SYMS) * (R if rows_axis else 1)
    if kind == "B":            # ("B", sub): every 2-row x 3-column table over the sub-catalogue
        return len(sp[1]) ** 6
    if kind == "D":            # ("D", C, sub): banded tables, 3 rows, C columns, column c = pattern rotated by k*c
        return len(sp[2]) ** 3 * 3
    raise ValueError(sp)


def symbol_table(sp, idx):
    """Table of symbol indices (rows x columns) for element idx of the space."""
    kind = sp[0]
    if kind == "A":
        _, R, rows_axis = sp
        rr = 0
        if rows_axis:
            rr = idx % R
            idx //= R
        cur = idx % len(SYMS)
        prev = digits(idx // len(SYMS), len(SYMS), R)
        tab = np.full((R, 3), NAN, int)
        tab[:, 0] = DECOY[:R]
        tab[:, 1] = prev
        tab[rr, 2] = cur
        return tab
    if kind == "B":
        sub = sp[1]
        d = digits(idx, len(sub), 6)
        return np.array([sub[x] for x in d], int).reshape(2, 3)
    if kind == "D":
        _, C, sub = sp
        k = idx % 3
        pat = [sub[x] for x in digits(idx // 3, len(sub), 3)]
        tab = np.empty((3, C), int)
        for c in range(C):
            s = (k * c) % 3
            tab[:, c] = pat[s:] + pat[:s]
        return tab
    raise ValueError(sp)


def numeric_table(seed, tab, neg_for_nan=False):
    """(Fn, Xi, Phi) for a symbol table; with neg_for_nan the designed-NaN cells at even (r+c) carry a pole with
    negative damping instead (raw table for the run() routes; the damping criterion must remove it)."""
    cat, scales = catalogue(seed)
    R, C = tab.shape
    Fn = np.full((R, C), np.nan)
    Xi = np.full((R, C), np.nan)
    Phi = np.full((R, C, NCOMP), np.nan, complex)
    for r in range(R):
        for c in range(C):
            e = cat[tab[r, c]]
            if e is not None:
                Fn[r, c], Xi[r, c] = e[0], e[1]
                Phi[r, c] = e[2] * scales[r, c]
            elif neg_for_nan and (r + c) % 2 == 0:
                Fn[r, c], Xi[r, c] = 10.0, -0.02
                Phi[r, c] = cat[0][2] * scales[r, c]
    return Fn, Xi, Phi


def params_for(sp, route, tier):
    """List of (ordmin, ordmax, tol index) judged for a space on a route. ordmax is the last judged column."""
    kind = sp[0]
    C = 3 if kind in ("A", "B") else sp[1]
    last = C - 1
    if route == UNC:           # (ordmin, ordmax, tol index, design, cov_max level)
        oms = (0, 1, 2) if kind in ("A", "B") else (0, C // 2, last)
        return [(oms[(d + L) % 3], last, (d + 2 * L) % 3, d, L) for d, L in UNC_GRID]
    if kind == "D":
        if route == "SC_apply":
            return [(om, last, 0) for om in sorted({0, 1, C // 2, last})] + [(0, last, 1), (0, last, 2)]
        out = [(om, last, 0) for om in sorted({0, C // 2, last})]
        if route == "pLSCF.run":
            out.append((C, last, 0))
        return out
    tols = range(len(TOLS))
    if kind == "B" and len(sp[1]) == len(SYMS):
        tols = (0, 2)          # the 10^6-table space: default and loose triples
    if route == "SC_apply":
        ordmaxs = [last, last - 1] if kind == "B" and len(sp[1]) < len(SYMS) else [last]
        return [(om, ox, t) for ox in ordmaxs for om in range(ox + 1) for t in tols]
    oms = list(range(C)) + ([C] if route == "pLSCF.run" else [])
    return [(om, last, t) for om in oms for t in tols]


# ---- reference labeller (from the statement) -----------------------------------------------------
def pair_verdict(fc, xc, pc, fp, xp, pp, tol):
    """(verdict, failing tests) of 'differs by less than the tolerances'; verdict None = not decidable."""
    df, dx, dm = abs(fc - fp), abs(xc - xp), 1.0 - H.mac(pc, pp)
    seen = set()
    for den_f, den_x in ((fc, xc), (fp, xp)):
        conds = (df / abs(den_f), dx / abs(den_x), dm)
        if any(abs(cv - tv) <= 1e-9 * tv for cv, tv in zip(conds, tol)):
            return None, ()
        seen.add(tuple(cv < tv for cv, tv in zip(conds, tol)))
    if len({all(s) for s in seen}) > 1:
        return None, ()
    s = sorted(seen)[0]
    return all(s), tuple(n for n, ok in zip(("fn", "xi", "mac"), s) if not ok)


def reference(Fn, Xi, Phi, ordmin, ordmax, tol):
    """Per cell: expected label (0, 1 or None = either admissible), reason; plus the non-trivial flag."""
    R, C = Fn.shape
    exp = np.zeros((R, C), int)
    why = np.empty((R, C), object)
    nontrivial = False
    for c in range(C):
        prev = [] if c == 0 else [p for p in range(R) if not np.isnan(Fn[p, c - 1])]
        for r in range(R):
            if c == 0:
                why[r, c] = "first-order"
            elif c < ordmin or c > ordmax:
                why[r, c] = "outside-order-range"
            elif np.isnan(Fn[r, c]):
                why[r, c] = "nan-cell"
            elif not prev:
                why[r, c] = "previous-order-empty"
            else:
                d = [abs(Fn[p, c - 1] - Fn[r, c]) for p in prev]
                dmin = min(d)
                cands = [p for p, dd in zip(prev, d) if dd <= dmin + 1e-12 * abs(Fn[r, c])]
                vs = [pair_verdict(Fn[r, c], Xi[r, c], Phi[r, c], Fn[p, c - 1], Xi[p, c - 1], Phi[p, c - 1], tol) for p in cands]
                verdicts = {v for v, _ in vs}
                if None in verdicts:
                    exp[r, c] = -1
                    why[r, c] = "undecidable(threshold or denominator)"
                elif len(verdicts) > 1:
                    exp[r, c] = -1
                    why[r, c] = "tie-either"
                else:
                    v, fails = vs[0]
                    exp[r, c] = int(v)
                    why[r, c] = "stable" if v else ("unstable:" + ("+".join(fails) if len(fails) == 1 else "several"))
                    if len(fails) == 1:
                        nontrivial = True
                    if len(prev) >= 2 and not nontrivial:
                        allv = {pair_verdict(Fn[r, c], Xi[r, c], Phi[r, c], Fn[p, c - 1], Xi[p, c - 1], Phi[p, c - 1], tol)[0] for p in prev}
                        if len(allv - {None}) > 1:
                            nontrivial = True
    return exp, why, nontrivial


def judge(t, route, Lab, Fn, Xi, Phi, ordmin, ordmax, tol, case, lenient_col=None, count=True):
    """Compare the implementation's labels with the reference on every cell. Returns the non-trivial flag."""
    exp, why, nontrivial = reference(Fn, Xi, Phi, ordmin, ordmax, tol)
    Lab = np.asarray(Lab)
    if Lab.shape != Fn.shape:
        t.violation(f"{route}:label-table-shape", f"{route}: labels have shape {Lab.shape}, pole table {Fn.shape}", case)
        return nontrivial
    R, C = Fn.shape
    for c in range(C):
        for r in range(R):
            got = Lab[r, c]
            w = why[r, c]
            if lenient_col is not None and c == lenient_col and c >= 1:
                if count:
                    t.outcomes[f"{route}:column-ordmin-1(not judged)"] += 1
                    t.not_judged += 1
                continue
            if got not in (0, 1):
                t.violation(f"{route}:label-not-0-or-1", f"{route}: label {got!r} at row {r}, order column {c}", case)
                continue
            if exp[r, c] == -1:
                if count:
                    t.outcomes[f"{route}:{w}"] += 1
                    if w != "tie-either":
                        t.not_judged += 1
                continue
            if count:
                t.outcomes[f"{route}:{w}"] += 1
            if got != exp[r, c]:
                if exp[r, c] == 1:
                    key = f"{route}:stable-pole-not-labelled"
                    what = "fulfils all three tests against the nearest previous pole but is labelled 0"
                elif w.startswith("unstable"):
                    key = f"{route}:labelled-stable-although-{w.split(':')[1]}-test-fails"
                    what = f"is labelled 1 although the nearest previous pole fails ({w})"
                else:
                    key = f"{route}:labelled-stable:{w}"
                    what = f"is labelled 1 although: {w}"
                t.violation(key, f"{route}: cell row {r}, order column {c} (fn={Fn[r, c]}, xi={Xi[r, c]}) {what}; ordmin={ordmin} "
                                 f"ordmax={ordmax} tol={tuple(tol)}; previous column fn={Fn[:, c - 1].tolist() if c else None}", case)
    return nontrivial


# ---- implementation side ---------------------------------------------------------------------------
def call_sc_apply(Fn, Xi, Phi, ordmin, ordmax, tol):
    from pyoma2.functions import gen

    return gen.SC_apply(Fn, Xi, Phi, ordmin, ordmax, 1, tol[0], tol[1], tol[2])


_SC_ORDERS = [("err_fn", "err_xi", "err_phi"), ("err_xi", "err_phi", "err_fn"), ("err_phi", "err_fn", "err_xi"),
              ("err_fn", "err_phi", "err_xi"), ("err_phi", "err_xi", "err_fn"), ("err_xi", "err_fn", "err_phi")]


def sc_dict(tol, k):
    """The soft-criteria dictionary with its keys inserted in the k-th of the six possible orders (a dict is a mapping:
    the order in which the user writes the keys must not matter)."""
    val = {"err_fn": tol[0], "err_xi": tol[1], "err_phi": tol[2]}
    return {key: val[key] for key in _SC_ORDERS[k % 6]}


# ---- other live objects ------------------------------------------------------------------------------
# The usual way a setup is filled: create ALL the algorithms (each with its own soft criteria), add them, run them. The labels of one
# algorithm follow from ITS tables and from the tolerances handed to IT, whatever other algorithm or run-parameter objects exist.
OTHER_MODES = ("none", "same-class", "other-class", "same-and-other-class")
OTHER_FORMS = ("algorithm(**kwargs)", "run-parameter-object", "algorithm(run_params=object)", "algorithm().set_run_params(object)")
_SSI_FAMILY = ("SSIcov", "SSIdat", "SSIcov_MS", "SSIdat_MS")
_PLSCF_FAMILY = ("pLSCF", "pLSCF_MS")


def other_mode(idx, prm):
    """Which other objects are alive while the judged algorithm runs: fixed by the table index and the grid element."""
    return (int(idx) + int(prm[0]) + 2 * int(prm[2]) + sum(int(x) for x in prm[3:])) % len(OTHER_MODES)


def other_triple(ti, which, variant):
    """Tolerance triple of another object: the triple TOLS[(ti + which) % 3] (variant 0) or the judged triple with only its
    component variant-1 taken from that other triple (variants 1, 2, 3). Always different from TOLS[ti]."""
    o = TOLS[(ti + which) % len(TOLS)]
    if variant == 0:
        return tuple(o)
    t = list(TOLS[ti])
    t[variant - 1] = o[variant - 1]
    return tuple(t)


def make_others(route, mode, idx, ti):
    """Construct the other live objects of a case: [(object, description, own copy of the handed-over values, the dict handed over)].
    'same class' = an object holding run parameters of the judged algorithm's parameter class, 'other class' = of the other one;
    each gets an explicit sc with a different triple, written in another key order, through a rotating call form."""
    import pyoma2.algorithms.plscf as m_pl
    import pyoma2.algorithms.ssi as m_ssi

    if mode == 0:
        return []
    judged_ssi = route != "pLSCF.run"
    kinds = {1: ("same",), 2: ("other",), 3: ("same", "other") if (idx // 4) % 2 == 0 else ("other", "same")}[mode]
    out = []
    for n, kind in enumerate(kinds):
        ssi = judged_ssi if kind == "same" else not judged_ssi
        rot = idx // 4 + n + ti
        fam = _SSI_FAMILY if ssi else _PLSCF_FAMILY
        cls = getattr(m_ssi if ssi else m_pl, fam[rot % len(fam)])
        tol = other_triple(ti, 1 if kind == "same" else 2, (idx // 8 + n) % 4)
        sc = sc_dict(tol, rot + 1)
        given = {"err_fn": tol[0], "err_xi": tol[1], "err_phi": tol[2]}
        kw = dict(br=4 + rot % 3, ordmax=6 + rot % 5) if ssi else dict(ordmax=6 + rot % 5, nxseg=64)
        form = (idx // 2 + n) % len(OTHER_FORMS)
        if form == 0:
            obj = cls(name=f"other{n}", sc=sc, **kw)
        elif form == 1:
            obj = cls.RunParamCls(sc=sc, **kw)
        elif form == 2:
            obj = cls(run_params=cls.RunParamCls(sc=sc, **kw), name=f"other{n}")
        else:
            obj = cls(name=f"other{n}").set_run_params(cls.RunParamCls(sc=sc, **kw))
        out.append((obj, f"{kind}-class {cls.__name__} by {OTHER_FORMS[form]} with sc={sc}", given, sc))
    return out


def stored_sc(obj):
    rp = getattr(obj, "run_params", obj)
    return rp.sc


def ssi_setup(C):
    """(record length, block rows) allowing ordmax = C-1 with two channels."""
    br = max(2, (C - 1 + 1) // 2 + 1)
    return max(24, 6 * br), br


def run_ssicov(seed, raw, ordmin, tol, alg=None, env=None):
    from pyoma2.algorithms.ssi import SSIcov

    C = raw[0].shape[1]
    n, br = ssi_setup(C)
    H.set_raw("ssi", *raw)
    sc = sc_dict(tol, ordmin + C + int(round(1e3 * tol[0])))
    if alg is None:
        alg = SSIcov(name="c10", br=br, ordmax=C - 1, ordmin=ordmin, step=1, sc=sc, hc=dict(H.HC_OFF_SSI))
        alg._set_data(H.tiny_data(seed, n), 100.0)
    else:
        alg.run_params.br, alg.run_params.ordmax, alg.run_params.ordmin, alg.run_params.sc = br, C - 1, ordmin, sc
    others_then_run(env, "SSIcov.run", sc)
    res = alg.run()
    return alg, res


def others_then_run(env, route, sc):
    """Between the creation (or re-parameterisation) of the judged algorithm and its run(): the other objects of the case are
    created and kept alive in env until the labels were judged."""
    if env is not None:
        env["sc"] = sc
        env["others"] = make_others(route, env["mode"], env["idx"], env["ti"])


_COV = {}


def _fake_ssi_poles_unc(*a, **k):
    """Stand-in for ssi.SSI_poles that also hands out the designed uncertainty tables when run() asks for them."""
    r = H._RAW["ssi"]
    if k.get("calc_unc"):
        c = _COV["ssi"]
        return r[0].copy(), r[1].copy(), r[2].copy(), r[3].copy(), c[0].copy(), c[1].copy(), c[2].copy()
    return r[0].copy(), r[1].copy(), r[2].copy(), r[3].copy(), None, None, None


class designed_ssi_unc:
    """Inside: every SSI run() receives the tables stored by H.set_raw('ssi', ...) and _COV['ssi']."""

    def __enter__(self):
        import pyoma2.algorithms.ssi as alg_ssi

        self.mod = alg_ssi.ssi
        self.orig = self.mod.SSI_poles
        self.mod.SSI_poles = _fake_ssi_poles_unc
        return self

    def __exit__(self, *exc):
        self.mod.SSI_poles = self.orig
        return False


def run_ssicov_unc(seed, raw, cov, ordmin, tol, d, L, alg=None, env=None):
    from pyoma2.algorithms.ssi import SSIcov

    C = raw[0].shape[1]
    n, br = ssi_setup(C)
    H.set_raw("ssi", *raw)
    _COV["ssi"] = cov
    sc = sc_dict(tol, ordmin + C + d + L + int(round(1e3 * tol[0])))
    hc = dict(H.HC_OFF_SSI)
    hc["cov_max"] = COV_MAX[L]
    nb = 2 + d
    if alg is None:
        alg = SSIcov(name="c10", br=br, ordmax=C - 1, ordmin=ordmin, step=1, sc=sc, hc=hc, method="cov_mm", calc_unc=True, nb=nb)
        alg._set_data(H.tiny_data(seed, n), 100.0)
    else:
        rp = alg.run_params
        rp.br, rp.ordmax, rp.ordmin, rp.sc, rp.hc, rp.method, rp.calc_unc, rp.nb = br, C - 1, ordmin, sc, hc, "cov_mm", True, nb
    others_then_run(env, UNC, sc)
    res = alg.run()
    return alg, res


def plscf_setup(C):
    nx = 8 if C <= 4 else 4 * C
    return max(24, 3 * nx), nx


def run_plscf(seed, raw, ordmin, tol, alg=None, env=None):
    from pyoma2.algorithms.plscf import pLSCF

    C = raw[0].shape[1]
    n, nx = plscf_setup(C)
    H.set_raw("plscf", *raw)
    sc = sc_dict(tol, ordmin + C + 1 + int(round(1e3 * tol[0])))
    if alg is None:
        alg = pLSCF(name="c10", ordmax=C, ordmin=ordmin, nxseg=nx, sc=sc, hc=dict(H.HC_OFF_PLSCF))
        alg._set_data(H.tiny_data(seed, n), 100.0)
    else:
        alg.run_params.ordmax, alg.run_params.ordmin, alg.run_params.nxseg, alg.run_params.sc = C, ordmin, nx, sc
    others_then_run(env, "pLSCF.run", sc)
    res = alg.run()
    return alg, res


def same_tables(a, b):
    return all(x.shape == y.shape and np.array_equal(x, y, equal_nan=True) for x, y in zip(a, b))


def one_case(t, seed, sp, idx, route, prm, state=None, count=True):
    """Execute and judge one (table, route, ordmin, ordmax, tolerance). Returns (labels bytes or None, nontrivial)."""
    ordmin, ordmax, ti = prm[:3]
    tol = TOLS[ti]
    tab = symbol_table(sp, idx)
    case = {"space": list(sp), "index": int(idx), "route": route, "ordmin": ordmin, "ordmax": ordmax, "tol": ti, "seed": seed,
            "symbols": [[SYMS[x] for x in row] for row in tab.tolist()] if tab.shape[1] <= 8 else "banded"}
    if route == UNC:
        case["cov_design"], case["cov_level"], case["cov_max"] = prm[3], prm[4], COV_MAX[prm[4]]
    t.evaluations += 1
    if route == "SC_apply":
        Fn, Xi, Phi = numeric_table(seed, tab)
        keep = (Fn.copy(), Xi.copy(), Phi.copy())
        try:
            Lab = call_sc_apply(Fn, Xi, Phi, ordmin, ordmax, tol)
        except Exception as e:
            t.violation(f"{route}:raises:{type(e).__name__}", f"{route} raised {type(e).__name__}: {e}", case)
            return None, False
        nt = judge(t, route, Lab, keep[0], keep[1], keep[2], ordmin, ordmax, tol, case, count=count)
        return np.asarray(Lab).tobytes(), nt
    designed = numeric_table(seed, tab)
    raw = numeric_table(seed, tab, neg_for_nan=True)
    alg = state.get(route) if state is not None else None
    if route == UNC:
        # ground truth of the covariance criterion: a pole stays when its designed frequency uncertainty is below cov_max
        d, L = prm[3], prm[4]
        cov = cov_tables(seed, raw[0], d)
        rejected = ~np.isnan(designed[0]) & ~(cov[0] < COV_MAX[L])
        unfiltered = designed
        designed = (np.where(rejected, np.nan, designed[0]), np.where(rejected, np.nan, designed[1]),
                    np.where(rejected[:, :, None], np.nan, designed[2]))
        if count:
            n_ret, n_rej = int((~np.isnan(unfiltered[0])).sum()), int(rejected.sum())
            t.outcomes[f"{route}:cov_max-" + ("table-has-no-pole" if n_ret == 0 else "removes-no-pole" if n_rej == 0 else
                                              "removes-every-pole" if n_rej == n_ret else "removes-some-poles-keeps-others")] += 1
            t.outcomes[f"{route}:cov_max-level-{COV_MAX_NAMES[L]}"] += 1
            if 0 < n_rej:
                e0 = reference(unfiltered[0], unfiltered[1], unfiltered[2], ordmin, ordmax, tol)[0]
                e1 = reference(designed[0], designed[1], designed[2], ordmin, ordmax, tol)[0]
                lost = rejected & (e0 == 1)
                moved = ~rejected & (e0 != e1) & (e0 != -1) & (e1 != -1)
                if lost.any():
                    t.outcomes[f"{route}:cov_max-removes-a-pole-that-the-soft-criteria-alone-would-label-stable"] += 1
                if moved.any():
                    t.outcomes[f"{route}:cov_max-changes-the-label-of-a-surviving-pole(its-previous-order-lost-poles)"] += 1
    # other live objects (fixed by table index and grid element): created after the judged algorithm, before its run()
    env = {"mode": other_mode(idx, prm), "idx": idx, "ti": ti, "others": []}
    case["other_live_objects"] = OTHER_MODES[env["mode"]]
    try:
        if route == UNC:
            alg, res = run_ssicov_unc(seed, raw, cov, ordmin, tol, d, L, alg, env)
        elif route == "SSIcov.run":
            alg, res = run_ssicov(seed, raw, ordmin, tol, alg, env)
        else:
            alg, res = run_plscf(seed, raw, ordmin, tol, alg, env)
    except Exception as e:
        t.violation(f"{route}:raises:{type(e).__name__}", f"{route} raised {type(e).__name__}: {e} on a designed population "
                                                          f"(other live objects: {[o[1] for o in env['others']]})", case)
        return None, False
    if state is not None:
        state[route] = alg
    judge_live_objects(t, route, alg, tol, env, designed, ordmin, ordmax, case, count)
    looked = []
    if (idx * 31 + ordmin * 7 + ti) % LOOK_EVERY == 0:
        # run, LOOK, then read (mc/looks.py): the result is stored on the algorithm as the setups do, its charts are drawn with a
        # frequency window that leaves about half of the poles outside, and only then are the labels compared with the tables
        alg.result = res
        fin = designed[0][np.isfinite(designed[0])]
        exp = reference(designed[0], designed[1], designed[2], ordmin, ordmax, tol)[0]
        stab = designed[0][(exp == 1) & np.isfinite(designed[0])]
        if stab.size:                      # ground truth: the highest pole the reference labels stable is left outside the window
            band = (0.0, float(stab.max()) * (1 - 1e-6))
            if count:
                t.outcomes[f"{route}:looked-with-a-stable-pole-outside-the-window"] += 1
        else:
            band = (0.0, float(np.median(fin))) if fin.size else (0.0, 1.0)
        for name, err in looks.look_at_alg(alg, idx + ordmin + ti, band):
            looked.append(name)
            if count:
                t.outcomes[f"{route}:looked-at-algorithm-before-reading:{name}" + (":raised" if err else "")] += 1
    got = (np.asarray(res.Fn_poles), np.asarray(res.Xi_poles), np.asarray(res.Phi_poles))
    pat = [np.isnan(got[0]), np.isnan(got[1]), np.isnan(got[2]).all(axis=2), np.isnan(got[2]).any(axis=2)]
    if looked:
        # the statement's last sentence on the STORED tables as they are now: a pole that is NaN in any stored table is not stable
        lab = np.asarray(res.Lab)
        bad = (lab == 1) & (pat[0] | pat[1] | pat[2]) if lab.shape == pat[0].shape else None
        if bad is not None and bad.any():
            r_, c_ = (int(x[0]) for x in np.nonzero(bad))
            t.violation(f"{route}:labelled-stable:nan-cell:after-looking-at-the-charts",
                        f"{route}: after run() and {', '.join(looked)} (frequency window {band}) {int(bad.sum())} poles that are NaN in the stored "
                        f"tables carry the label 'stable', e.g. row {r_}, order column {c_}: Fn={got[0][r_, c_]!r} Xi={got[1][r_, c_]!r}", case)
            return None, False
    if not all(np.array_equal(pat[0], p) for p in pat[1:]):
        if count:
            t.outcomes[f"{route}:returned-tables-have-different-NaN-patterns(not judged, C09)"] += 1
            t.not_judged += 1
        return None, False
    if count:
        t.outcomes[f"{route}:filtered-table-is-the-designed-one" if same_tables(got, designed) else f"{route}:filtered-table-differs-from-designed"] += 1
    lenient = ordmin - 1 if route == "pLSCF.run" else None
    nt = judge(t, route, res.Lab, got[0], got[1], got[2], ordmin, ordmax, tol, case, lenient_col=lenient, count=count)
    return np.asarray(res.Lab).tobytes(), nt


def judge_live_objects(t, route, alg, tol, env, designed, ordmin, ordmax, case, count):
    """After run(): the tolerances stored on the judged algorithm and on every other live object are still the ones handed over,
    and the handed-over dictionaries are untouched. The LABELS are judged afterwards against the triple this check handed over
    (never against what run_params.sc reads back)."""
    others = env["others"]
    mode_name = OTHER_MODES[env["mode"]]
    given = {"err_fn": tol[0], "err_xi": tol[1], "err_phi": tol[2]}
    desc = [o[1] for o in others]
    case["other_live_objects"] = {"mode": mode_name, "created_between_creation_and_run_of_the_judged_algorithm": desc}
    if count:
        t.outcomes[f"{route}:other-live-objects:{mode_name}"] += 1
        for obj, d, _, _ in others:
            t.outcomes[f"{route}:other-live-object-created-by:{d.split(' by ')[1].split(' with ')[0]}"] += 1
            t.outcomes[f"{route}:other-live-object-of-class:{type(getattr(obj, 'run_params', obj)).__name__}"] += 1
        if others:
            # ground truth (designed tables): would the labels differ under the triple of the object created last?
            last = others[-1][2]
            e_own = reference(designed[0], designed[1], designed[2], ordmin, ordmax, tol)[0]
            e_oth = reference(designed[0], designed[1], designed[2], ordmin, ordmax, (last["err_fn"], last["err_xi"], last["err_phi"]))[0]
            differ = ((e_own != e_oth) & (e_own != -1) & (e_oth != -1)).any()
            t.outcomes[f"{route}:other-live-objects:labels-under-the-last-created-object's-triple-" + ("differ" if differ else "are-the-same")] += 1
    try:
        got = dict(stored_sc(alg))
    except Exception as e:
        got = f"{type(e).__name__}: {e}"
    if got != given:
        t.violation(f"{route}:run_params.sc-differs-from-the-tolerances-handed-over",
                    f"{route}: after run() the algorithm's run_params.sc reads {got!r}, handed over was {given!r}; other live objects: {desc}", case)
    if dict(env["sc"]) != given:
        t.violation(f"{route}:sc-dictionary-handed-over-was-modified",
                    f"{route}: the sc dictionary handed over reads {env['sc']!r} after run(), was {given!r}; other live objects: {desc}", case)
    for obj, d, g, sc in others:
        try:
            got = dict(stored_sc(obj))
        except Exception as e:
            got = f"{type(e).__name__}: {e}"
        if got != g:
            t.violation(f"{route}:run_params.sc-of-another-live-object-differs-from-the-tolerances-handed-over-to-it",
                        f"{route}: the other live object ({d}) stores sc={got!r} after the judged algorithm (sc={given!r}) was run; "
                        f"all other live objects: {desc}", case)
        if dict(sc) != g:
            t.violation(f"{route}:sc-dictionary-handed-over-was-modified",
                        f"{route}: the sc dictionary handed to another live object ({d}) reads {sc!r}, was {g!r}", case)


LOOK_EVERY = 97
SPACE_CODES = {}


def space_code(sp):
    key = repr(sp)
    if key not in SPACE_CODES:
        SPACE_CODES[key] = len(SPACE_CODES)
    return SPACE_CODES[key]


def work(item):
    """One slice of one space on one route: all parameter combinations of every table in [lo, hi)."""
    sp, code, route, lo, hi, tier, seed = item
    t = Tally()
    prms = params_for(sp, route, tier)
    first = {}
    ctxs = []
    if route == "SSIcov.run":
        ctxs.append(H.designed_ssi())
    elif route == UNC:
        ctxs.append(designed_ssi_unc())
    elif route == "pLSCF.run":
        ctxs.append(H.designed_plscf())
    for cm in ctxs:
        cm.__enter__()
    try:
        for idx in range(lo, hi):
            for pi, prm in enumerate(prms):
                lab, nt = one_case(t, seed, sp, idx, route, prm)
                t.states += 1
                t.transitions += 1
                t.validated += 1
                if nt:
                    t.nontrivial.add(code * 10**7 + idx)
                first[(idx, pi)] = lab
        # purity: the same tables and tolerances in another call order (and, for run(), on one re-used object)
        idxs = [lo] if sp[0] == "D" else sorted({lo, hi - 1})
        again = [(idx, pi) for idx in reversed(idxs) for pi in range(len(prms) - 1, -1, -1)]
        state = {}
        for idx, pi in again:
            scratch = Tally()
            lab, _ = one_case(scratch, seed, sp, idx, route, prms[pi], state=state, count=False)
            t.evaluations += 1
            t.transitions += 1
            if lab is not None and first[(idx, pi)] is not None:
                if lab != first[(idx, pi)]:
                    prm = prms[pi]
                    t.violation(f"{route}:not-pure", f"{route}: labels of table {idx} of space {sp} (ordmin={prm[0]}, ordmax={prm[1]}, "
                                                     f"tol={TOL_NAMES[prm[2]]}) differ between two call orders",
                                {"space": list(sp), "index": idx, "route": route, "ordmin": prm[0], "ordmax": prm[1], "tol": prm[2],
                                 "seed": seed, "purity_slice": [lo, hi]})
                else:
                    t.outcomes[f"{route}:same-labels-in-another-call-order"] += 1
    finally:
        for cm in ctxs:
            cm.__exit__(None, None, None)
    if lo == 0:
        tab = symbol_table(sp, min(hi - 1, lo + 7))
        if tab.shape[1] <= 8:
            Fn, Xi, Phi = numeric_table(seed, tab)
            prm = prms[0]
            exp, why, _ = reference(Fn, Xi, Phi, prm[0], prm[1], TOLS[prm[2]])
            t.sample({"space": list(sp), "route": route, "table": [[SYMS[x] for x in row] for row in tab.tolist()],
                      "ordmin": prm[0], "ordmax": prm[1], "tol": TOLS[prm[2]], "reference_labels": exp.tolist(),
                      "reasons": why.tolist()})
    return t


def plan(tier):
    """[(space, routes, slice length)]"""
    if tier == "quick":
        return [
            (("A", 3, False), ("SC_apply",), 250),
            (("A", 2, True), ("SC_apply",), 100),
            (("A", 2, False), ("SSIcov.run", "pLSCF.run", UNC), 50),
            (("B", SUB5), ("SC_apply",), 400),
            (("B", SUB3B), ("SSIcov.run", "pLSCF.run", UNC), 81),
            (("D", 8, SUB3), (UNC,), 9),
            (("D", 8, SUB5), ("SC_apply",), 25),
            (("D", 41, SUB5), ("SC_apply",), 15),
            (("D", 41, SUB3), ("SSIcov.run",), 9),
            (("D", 41, SUB2), ("pLSCF.run",), 4),
        ]
    return [
        (("A", 4, False), ("SC_apply",), 1000),
        (("A", 3, True), ("SC_apply",), 250),
        (("A", 3, False), ("SSIcov.run", "pLSCF.run", UNC), 100),
        (("A", 2, True), ALL_ROUTES, 100),
        (("B", list(range(len(SYMS)))), ("SC_apply",), 2000),
        (("B", SUB5), ("SSIcov.run", "pLSCF.run", UNC), 125),
        (("D", 8, SUB3), (UNC,), 9),
        (("D", 8, SUB5), ALL_ROUTES, 25),
        (("D", 20, SUB5), ("SC_apply",), 15),
        (("D", 41, SUB5), ROUTES, 5),
    ]


def explore(ctx):
    items = []
    bounds = {"catalogue": SYMS, "tolerance_triples": dict(zip(TOL_NAMES, TOLS)), "shape_components": NCOMP,
              "calc_unc_axis": {"route": UNC, "call_form": "SSIcov(method='cov_mm', calc_unc=True, nb=2+design)",
                                "frequency_uncertainty_bands": list(COV_BANDS), "band_of_cell": "(row + column + design) mod 3",
                                "cov_max_levels": dict(zip(COV_MAX_NAMES, COV_MAX)),
                                "design_x_level_grid": [list(g) for g in UNC_GRID]},
              "spaces": []}
    for sp, routes, step in plan(ctx.tier):
        n = space_size(sp)
        code = space_code(sp)
        bounds["spaces"].append({
            "space": describe(sp), "tables": n, "routes": list(routes),
            "ordmin_ordmax_tol_per_route": {r: len(params_for(sp, r, ctx.tier)) for r in routes}})
        for route in routes:
            for lo in range(0, n, step):
                items.append((sp, code, route, lo, min(n, lo + step), ctx.tier, ctx.seed))
    bounds["read_only_operations_interleaved"] = (f"class routes, one case in {LOOK_EVERY} (fixed by table index, ordmin and tolerance index): the result is stored "
                                                  "on the algorithm and plot_stab / plot_cluster / plot_svalH are called with a frequency window leaving about half "
                                                  "of the poles outside, before the labels are compared with the stored tables")
    bounds["other_live_objects_axis"] = {
        "routes": [r for r in ALL_ROUTES if r != "SC_apply"], "modes": list(OTHER_MODES),
        "mode_of_case": "(table index + ordmin + 2 * tolerance index [+ design + level]) mod 4",
        "created": "after the judged algorithm, before its run(); kept alive until the labels were judged; not run",
        "classes": {"SSIRunParams": list(_SSI_FAMILY), "pLSCFRunParams": list(_PLSCF_FAMILY)}, "call_forms": list(OTHER_FORMS),
        "their_tolerances": "another of the three triples, or the judged triple with exactly one component from another triple; "
                            "complete dict, key order rotating over the six orders"}
    ctx.bounds = bounds
    warm(ctx.seed)
    # heaviest first for load balance; results are merged order-independently (counts only)
    items.sort(key=lambda it: (0 if it[2] == "pLSCF.run" else 1 if it[2] in ("SSIcov.run", UNC) else 2, -(it[0][1] if it[0][0] == "D" else 0)))
    ctx.pmap(work, items, chunksize=1)
    req = []
    for r in ROUTES:
        req += [f"{r}:stable", f"{r}:unstable:fn", f"{r}:unstable:xi", f"{r}:unstable:mac", f"{r}:unstable:several", f"{r}:nan-cell",
                f"{r}:previous-order-empty", f"{r}:first-order", f"{r}:outside-order-range", f"{r}:tie-either",
                f"{r}:same-labels-in-another-call-order"]
    req += ["SSIcov.run:filtered-table-is-the-designed-one", "pLSCF.run:filtered-table-is-the-designed-one"]
    # the uncertainty call form: the covariance criterion was off, binding and total, and binding in the two ways that matter
    req += [f"{UNC}:{o}" for o in (
        "stable", "unstable:fn", "unstable:xi", "unstable:mac", "unstable:several", "nan-cell", "previous-order-empty", "first-order",
        "outside-order-range", "tie-either", "same-labels-in-another-call-order", "filtered-table-is-the-designed-one",
        "cov_max-removes-no-pole", "cov_max-removes-some-poles-keeps-others", "cov_max-removes-every-pole",
        "cov_max-removes-a-pole-that-the-soft-criteria-alone-would-label-stable",
        "cov_max-changes-the-label-of-a-surviving-pole(its-previous-order-lost-poles)")]
    req += [f"{UNC}:cov_max-level-{nm}" for nm in COV_MAX_NAMES]
    # run, look, then read: the charts were drawn between run() and the comparison of labels and tables on every class route
    req += ["SSIcov.run:looked-at-algorithm-before-reading:plot_stab", "SSIcov.run:looked-at-algorithm-before-reading:plot_cluster",
            "pLSCF.run:looked-at-algorithm-before-reading:plot_stab", "pLSCF.run:looked-at-algorithm-before-reading:plot_cluster",
            f"{UNC}:looked-at-algorithm-before-reading:plot_stab", "SSIcov.run:looked-with-a-stable-pole-outside-the-window",
            "pLSCF.run:looked-with-a-stable-pole-outside-the-window", f"{UNC}:looked-with-a-stable-pole-outside-the-window"]
    # other live objects: every mode on every class route, both parameter classes, every call form, and cases in which the labels
    # would really be different under the triple of the object created last
    for r in ALL_ROUTES[1:]:
        req += [f"{r}:other-live-objects:{m}" for m in OTHER_MODES]
        req += [f"{r}:other-live-object-created-by:{f}" for f in OTHER_FORMS]
        req += [f"{r}:other-live-object-of-class:SSIRunParams", f"{r}:other-live-object-of-class:pLSCFRunParams",
                f"{r}:other-live-objects:labels-under-the-last-created-object's-triple-differ"]
    ctx.require(*req)


def warm(seed):
    """Import everything the routes need in the parent, so that the forked workers do not each pay the imports."""
    work((("A", 2, True), 0, "SC_apply", 0, 1, "quick", seed))
    work((("A", 2, True), 0, "SSIcov.run", 0, 1, "quick", seed))
    work((("A", 2, True), 0, "pLSCF.run", 0, 1, "quick", seed))
    work((("A", 2, True), 0, UNC, 0, 1, "quick", seed))


def describe(sp):
    if sp[0] == "A":
        return (f"A: {sp[1]} rows x 3 columns = [fixed decoy column | every previous column over the catalogue | one current cell over the "
                f"catalogue{' in every row' if sp[2] else ' in row 0'}]")
    if sp[0] == "B":
        return f"B: every 2-row x 3-column table over {[SYMS[x] for x in sp[1]]}"
    return f"D: banded, 3 rows x {sp[1]} columns, column c = 3-symbol pattern over {[SYMS[x] for x in sp[2]]} rotated by k*c, k in 0..2"


def replay(case):
    t = Tally()
    sp = tuple(case["space"])
    route = case["route"]
    if "purity_slice" in case:
        lo, hi = case["purity_slice"]
        return work((sp, space_code(sp), route, lo, hi, "quick", case["seed"]))
    prm = (case["ordmin"], case["ordmax"], case["tol"])
    if route == UNC:
        prm += (case["cov_design"], case["cov_level"])
    cms = ([H.designed_ssi()] if route == "SSIcov.run" else [designed_ssi_unc()] if route == UNC else
           [H.designed_plscf()] if route == "pLSCF.run" else [])
    for cm in cms:
        cm.__enter__()
    try:
        one_case(t, case["seed"], sp, case["index"], route, prm)
    finally:
        for cm in cms:
            cm.__exit__(None, None, None)
    return t
