"""C01 - SSI recovers the exact modal parameters of a noise-free free decay.

Exhaustive walk of a configuration lattice around a payload alphabet; the model is a ground-truth system with
known poles and shapes (checks/_truth.py). Four routes are judged on every lattice point:

  setup    SingleSetup -> add_algorithms(SSIcov | SSIdat) -> run_by_name -> pole tables, then setup.mpe(order=2m)
  func     ssi.build_hank -> ssi.SSI_fast -> ssi.SSI_poles
  legacy   ssi.build_hank -> ssi.SSI (legacy realisation) -> ssi.ac2mp at order 2m
  exact    realisation only, on H = O_{p+1}(C,A) @ Gamma_{p+1}(A,G) built in real block-modal form (exact rank 2m):
           SSI_fast + SSI_poles ("exact-fast") and SSI + ac2mp ("exact-legacy")
"""
import functools
import itertools
import math

import numpy as np

from checks import _truth as T
from mc import looks, payload
from mc.core import Tally

ID = "C01"
TECHNIQUE = ("exhaustive walk of a finite configuration lattice (modes x channels x reference subset x block rows x "
             "pole placement x damping profile x fs x record length x Hankel method x label-only run parameters and call form of "
             "the setup route x route) around a deterministic "
             "payload alphabet, every lattice point judged against a ground-truth state-space system")
LEVEL_TEXT = ("every configuration of the stated lattice is executed on the real code and its poles, damping ratios "
              "and shapes at order 2m are compared with the known system; nothing is sampled")
RULE = ("one case = one lattice point (all axis values); non-trivial = m >= 2, or the references are a proper subset "
        "of the channels, or the number of reference columns differs from the number of rows; distinct by lattice index")
ASSUMPTIONS = [
    "numpy linear algebra (SVD for the guards, exp for the closed-form response) is the trusted base of the model side",
    "guards (cond of the true observability blocks cO, cR, of the true state sequence cX, their product kappa = cO*cR*cX^2 <= 1e7, modal participation) are computed from the true system only",
    "hard criteria are neutralised through the hc run parameter (conj False, xi_max 10, mpc_lim 0, mpd_lim 1e9): criteria are C09's business",
    "tolerances 1e-7 (fn, lambda), 1e-6 (xi), 1e-9 (1-MAC): decades above the worst rounding error observed, decades below any structural fault",
    "quick tier: damping profile, fs, record length and block-row offset are assigned to the primary cells by a fixed rotation that covers every combination; thorough: full product",
    "ordmax is 2m or 2m+2 by a fixed rotation on the case index in both tiers (the judged column is always order 2m)",
    "setup route: the run parameters that only steer the stabilisation labels (ordmin in {0, 1, 2m-1, 2m, 2m+1 where <= ordmax}, soft criteria sc "
    "in {library default, nothing stable, everything stable}) and the way the parameters are handed over (keywords | an SSIRunParams object) "
    "are assigned by fixed rotations on the case index in both tiers; the tables at order 2m and the extraction are judged as everywhere else",
]

HC = dict(conj=False, xi_max=10.0, mpc_lim=0.0, mpd_lim=1e9, cov_max=1e9)
L_ALL = (2, 3, 4, 5, 8)
FS_ALL = (1.0, 102.4, 1000.0)          # a non-integer sampling rate (2.56 x 40 Hz analyser) instead of 100
N_ALL = (800, 1500)
BRO_ALL = (0, 1, 3)
METHODS = ("cov_mm", "dat")
GUARD = {"cO": 1e6, "cR": 1e6, "cX": 1e4, "part": 1e-3, "cG": 1e6, "cOcG": 1e7, "kappa": 1e7}
# problem class reported by compare_poles / compare_modes -> violation class (first match in this order names the key)
CLASSES = (("raises", "raises"), ("table-shape", "layout"), ("shape-dim", "layout"), ("mpe-type", "layout"),
           ("mpe-shape", "layout"), ("count", "poles"), ("pairing", "poles"), ("lam", "poles"), ("fn", "poles"),
           ("xi", "poles"), ("mpe-fn", "poles"), ("mpe-xi", "poles"), ("mac", "shape"), ("mpe-mac", "shape"),
           ("norm", "normalisation"), ("mpe-norm", "normalisation"))


# label-only run parameters of the setup route (they steer Lab, never the pole tables): minimum order relative to 2m and
# soft criteria; plus the call form (keywords | run-params object). Rotations on the case index, see _label_axes.
OMIN_ALL = ("0", "1", "2m-1", "2m", "2m+1")
SC_ALL = {"default": None, "none-stable": dict(err_fn=0.0, err_xi=0.0, err_phi=0.0),
          "all-stable": dict(err_fn=10.0, err_xi=1e3, err_phi=2.0)}
FORMS = ("keywords", "run-params-object")


def _label_axes(idx):
    """ordmax excess is 2*(idx % 2); j walks the 10 (ordmin, form) pairs once for each excess within 20 consecutive
    cases; the soft criteria move every 20 cases (period 60: every (excess, ordmin, form, sc) combination is met)."""
    j = (idx // 2) % 10
    return {"omin": OMIN_ALL[j % 5], "form": FORMS[j // 5], "sc": list(SC_ALL)[(idx // 20) % 3]}


def ordmin_of(case):
    """The admissible value: ordmin <= ordmax; '2m+1' with ordmax = 2m falls back to the boundary 2m."""
    m = case["m"]
    v = {"0": 0, "1": 1, "2m-1": 2 * m - 1, "2m": 2 * m, "2m+1": 2 * m + 1}[case.get("omin", "0")]
    return min(v, 2 * m + case["oex"])


# ---- lattice ----------------------------------------------------------------------------------------
def ref_subsets(l):  # noqa: E741
    """Reference subsets in listed order: every non-empty ascending subset for l <= 4 (plus reversed listings of
    the subsets of size >= 2 for l <= 3 and of the full set for l = 4); for l in {5, 8}: first only, last two,
    last two reversed, every second, all."""
    if l <= 4:
        out = [c for k in range(1, l + 1) for c in itertools.combinations(range(l), k)]
        if l <= 3:
            out += [c[::-1] for c in list(out) if len(c) >= 2]
        else:
            out.append(tuple(range(l))[::-1])
        return out
    return [(0,), (l - 2, l - 1), (l - 1, l - 2), tuple(range(0, l, 2)), tuple(range(l))]


def r_values(l):  # noqa: E741
    return list(range(1, l + 1)) if l <= 4 else [1, 2, l // 2 + (l % 2), l]


def br_min(m, l, r):  # noqa: E741
    return max(math.ceil(2 * m / l), math.ceil(2 * m / r)) + 1


def placements(m):
    return [p for p in T.PLACEMENTS if not (p in ("pair", "close") and m < 2)]


def lattice(thorough):
    ms = range(1, 7) if thorough else range(1, 5)
    sec = list(itertools.product(T.DAMPINGS, FS_ALL, N_ALL, BRO_ALL))          # 54 combinations
    decay, exact = [], []
    cell = 0
    for m in ms:
        for l in L_ALL:  # noqa: E741
            for cm in (False, True):
                for refs in ref_subsets(l):
                    for pl in placements(m):
                        for meth in METHODS:
                            if thorough:
                                pick = sec
                            else:
                                pick = [sec[((cell * 3 + j) * 23) % len(sec)] for j in range(3)]
                            for dp, fs, N, bro in pick:
                                idx = len(decay)
                                decay.append({"kind": "decay", "idx": idx, "m": m, "l": l, "cm": cm, "refs": list(refs),
                                              "pl": pl, "dp": dp, "fs": fs, "N": N, "bro": bro, "meth": meth,
                                              "oex": 2 * (idx % 2), **_label_axes(idx)})
                            cell += 1
    cell = 0
    for m in ms:
        for l in L_ALL:  # noqa: E741
            for r in r_values(l):
                for cm in (False, True):
                    for pl in placements(m):
                        for dp in T.DAMPINGS:
                            for bro in BRO_ALL:
                                for fs in (FS_ALL if thorough else (FS_ALL[cell % 3],)):
                                    exact.append({"kind": "exact", "idx": len(exact), "m": m, "l": l, "r": r, "cm": cm,
                                                  "pl": pl, "dp": dp, "fs": fs, "bro": bro})
                                cell += 1
    return decay, exact


# ---- model side ---------------------------------------------------------------------------------------
@functools.lru_cache(maxsize=256)
def _phi(seed, l, m, cm):  # noqa: E741
    return T.shapes(seed, f"c01/phi/{l}/{m}/{int(cm)}", l, m, cm)


@functools.lru_cache(maxsize=64)
def _amp(seed, m):
    return T.amps(seed, f"c01/amp/{m}", m)


@functools.lru_cache(maxsize=256)
def _G(seed, m, r):
    return payload.entries(seed, f"c01/G/{m}/{r}", (2 * m, r), lo=0.3, hi=1.5)


def system(case, seed):
    m, l = case["m"], case["l"]  # noqa: E741
    return T.System(T.freqs(m, case["pl"]), T.damps(m, case["dp"]), _phi(seed, l, m, bool(case["cm"])), case["fs"])


# ---- judging ----------------------------------------------------------------------------------------
def judge(t, case, seed, route, probs, errs):
    t.transitions += 1
    t.validated += 1
    tag = f"{case['kind']}:{route}" + (f":{case['meth']}" if "meth" in case else "")
    for k, v in errs.items():
        t.err(f"{route}.{k}", v)
    if probs:
        seen = {p[0] for p in probs}
        first = next((v for k, v in CLASSES if k in seen), "other")
        if first == "raises":
            first = "raises:" + probs[0][1].split(":")[0]
        t.violation(f"{tag}:{first}",
                    f"{tag} m={case['m']} l={case['l']} " + "; ".join(p[1] for p in probs[:4]) + f" | case {_short(case)}",
                    dict(case, seed=seed))
        t.outcomes[f"{route}:disagree"] += 1
    else:
        t.outcomes[f"{route}:agree"] += 1


def _short(case):
    return {k: v for k, v in case.items() if k not in ("kind", "idx")}


def _raised(t, case, seed, route, e):
    judge(t, case, seed, route, [("raises", f"{type(e).__name__}: {str(e)[:160]}")], {})


def _column(S, Lam, Fn, Xi, Phi, om, rows=None):
    """Pick order 2m out of the tables after checking their layout (row = pole, column = order)."""
    o = 2 * S.m
    Lam, Fn, Xi, Phi = (np.asarray(x) for x in (Lam, Fn, Xi, Phi))
    nrow = S.l if rows is None else len(rows)
    if (Fn.ndim != 2 or Fn.shape[1] <= o or Xi.shape != Fn.shape or Lam.shape != Fn.shape
            or Phi.shape != Fn.shape + (nrow,)):
        return [("table-shape", f"tables Fn{Fn.shape} Xi{Xi.shape} Lambds{Lam.shape} Phi{Phi.shape}: expected equal (poles, orders) "
                                f"layouts with a column for order {o} (ordmax {om}) and {nrow} shape components")], {}
    return T.compare_poles(S, Lam[:, o], Fn[:, o], Xi[:, o], Phi[:, o, :], rows=rows)


# "run, look, then read": on every LOOK_ALG-th (LOOK_SETUP-th) decay case the public plot methods of the algorithm (of the
# setup) are called between the steps; they are read-only operations and must not change what is identified (mc/looks.py)
LOOK_ALG, LOOK_SETUP = 29, 211


def _look_band(S):
    """A frequency window [Hz] that leaves at least one mode outside (the only one for m = 1)."""
    f = np.sort(np.asarray(S.fn, float))
    return (0.0, 0.5 * (f[0] + f[-1])) if len(f) > 1 else (0.0, 0.5 * f[0])


# ---- one case -----------------------------------------------------------------------------------------
def run_case(case, seed):
    t = Tally()
    if case["kind"] == "decay":
        run_decay(t, case, seed)
    else:
        run_exact(t, case, seed)
    return t


def run_decay(t, case, seed):
    from pyoma2.algorithms import SSIcov, SSIdat
    from pyoma2.functions import ssi
    from pyoma2.setup import SingleSetup

    m, l, refs, meth = case["m"], case["l"], list(case["refs"]), case["meth"]  # noqa: E741
    r = len(refs)
    S = system(case, seed)
    a = _amp(seed, m)
    N = case["N"]
    br = br_min(m, l, r) + case["bro"]
    om = 2 * m + case["oex"]
    o = 2 * m
    g = T.guards_decay(S, a, N, refs, br)
    for k in ("cO", "cR", "cX"):
        t.err(f"guard.{k}", g[k])
    t.err("guard.1/part", 1.0 / g["part"])
    t.err("guard.kappa", g["kappa"])
    if (g["cO"] > GUARD["cO"] or g["cR"] > GUARD["cR"] or g["cX"] > GUARD["cX"] or g["part"] < GUARD["part"]
            or g["kappa"] > GUARD["kappa"]):
        t.skipped_by_guard += 1
        t.outcomes["guard-reject"] += 1
        return
    t.states += 1
    if m >= 2 or r != l:
        t.nontrivial.add(("d", case["idx"]))
    t.outcomes["shapes:" + ("complex" if case["cm"] else "real")] += 1
    t.outcomes["refs:" + ("all" if sorted(refs) == list(range(l)) else "proper-subset")] += 1
    t.outcomes[f"method:{meth}"] += 1
    level = LEVELS[case["idx"] % len(LEVELS)]
    t.outcomes[f"response-level:{level:g}"] += 1
    omin = ordmin_of(case)
    rel = {o + 1: "2m+1", o: "2m", o - 1: "2m-1"}.get(omin, str(omin))      # m = 1: the value 1 counts as 2m-1
    t.outcomes[f"setup-ordmin:{rel}(ordmax 2m+{case['oex']})"] += 1
    t.outcomes[f"setup-sc:{case.get('sc', 'default')}"] += 1
    t.outcomes[f"setup-params-as:{case.get('form', FORMS[0])}"] += 1
    t.outcomes[f"setup-ordmin-form:{rel}:{case.get('form', FORMS[0])}:{meth}"] += 1
    Y = level * S.decay(a, N)              # N x l; the level of the initial condition is part of the quantifier
    dt = 1.0 / case["fs"]
    _collider(case, seed, Y.shape, br, om, refs, meth)

    # -- function route ---------------------------------------------------------------------------
    H = None
    try:
        H, _ = ssi.build_hank(Y.T.copy(), Y.T[refs].copy(), br, meth)
        Obs, A, C, *_ = ssi.SSI_fast(H, br, om)
        Fn, Xi, Ph, Lam, *_ = ssi.SSI_poles(Obs, A, C, om, dt)
        t.evaluations += 3
        res = _column(S, Lam, Fn, Xi, Ph, om)
    except Exception as e:
        res = None
        _raised(t, case, seed, "func", e)
    if res is not None:
        judge(t, case, seed, "func", *res)
        if len(t.samples) < 1 and not res[0]:
            t.sample({"case": _short(case), "route": "func", "br": br, "true_fn": S.fn, "true_xi": S.xi,
                      "identified_fn_at_order_2m": np.sort(Fn[:, o]), "max_rel_err": res[1], "guards": g})

    # -- legacy realisation on the same Hankel matrix ------------------------------------------------
    if H is not None:
        try:
            A2, C2 = ssi.SSI(H, br, om)
            fn2, xi2, ph2, lam2, *_ = ssi.ac2mp(A2[o], C2[o], dt)
            t.evaluations += 2
            res = T.compare_poles(S, lam2, fn2, xi2, ph2)
        except Exception as e:
            res = None
            _raised(t, case, seed, "legacy", e)
        if res is not None:
            judge(t, case, seed, "legacy", *res)

    # -- single setup route ------------------------------------------------------------------------
    try:
        ss = SingleSetup(Y.copy(), case["fs"])
        cls = SSIcov if meth == "cov_mm" else SSIdat
        ref_ind = None if refs == list(range(l)) else [int(i) for i in refs]
        alg = _make_alg(cls, case, meth, br, om, ref_ind)
        ss.add_algorithms(alg)
        band = _look_band(S)
        if case["idx"] % LOOK_SETUP == 0:       # run, LOOK, then read: the data plots of the setup before the identification
            for name, err in looks.look_at_setup(ss, case["idx"] // LOOK_SETUP, band):
                t.outcomes[f"looked-at-setup-before-run:{name}" + (":raised" if err else "")] += 1
        ss.run_by_name("a")
        if case["idx"] % LOOK_ALG == 0:         # the charts of the algorithm (window leaving modes outside) before tables are read
            for name, err in looks.look_at_alg(alg, case["idx"] // LOOK_ALG, band):
                t.outcomes[f"looked-at-algorithm-before-reading:{name}" + (":raised" if err else "")] += 1
        R = alg.result
        t.evaluations += 1
        res = _column(S, R.Lambds, R.Fn_poles, R.Xi_poles, R.Phi_poles, om)
    except Exception as e:
        res = None
        _raised(t, case, seed, "setup", e)
    if res is not None:
        judge(t, case, seed, "setup", *res)
    if res is not None and res[0]:
        t.not_judged += 1                      # extraction is only judged on tables that are right
        t.outcomes["mpe:not-judged(tables wrong)"] += 1
    elif res is not None:
        try:
            ss.mpe("a", sel_freq=[float(f) for f in S.fn], order=int(o))
            R = alg.result
            t.evaluations += 1
            res = T.compare_modes(S, R.Fn, R.Xi, R.Phi)
        except Exception as e:
            res = None
            _raised(t, case, seed, "mpe", e)
        if res is not None:
            judge(t, case, seed, "mpe", *res)


# "every initial condition exciting all modes": the overall level of the response is free; the identification is scale
# invariant, so three levels rotate over the lattice index (unit, very small, large)
LEVELS = (1.0, 3e-8, 2e5)

_NOISE = {}


def _collider(case, seed, shape, br, om, refs, meth):
    """Forced collision: immediately before the judged calls, the same algorithm class is run with IDENTICAL shapes and
    parameters on DIFFERENT data (payload noise) in another setup, and its result is thrown away. A library that keeps
    state between calls (a cache keyed by shape/parameters, a scratch buffer hoisted to module or class scope) then serves
    stale data to the judged run, which is no longer exact. On a stateless library this changes nothing."""
    from pyoma2.algorithms import SSIcov, SSIdat
    from pyoma2.setup import SingleSetup

    if shape not in _NOISE:
        _NOISE.clear()
        _NOISE[shape] = payload.normal(seed, f"c01/collider/{shape[0]}x{shape[1]}", shape)
    l = shape[1]  # noqa: E741
    try:
        ss = SingleSetup(_NOISE[shape].copy(), case["fs"])
        cls = SSIcov if meth == "cov_mm" else SSIdat
        ref_ind = None if refs == list(range(l)) else [int(i) for i in refs]
        ss.add_algorithms(_make_alg(cls, case, meth, br, om, ref_ind))
        ss.run_by_name("a")
    except Exception:
        pass


def _make_alg(cls, case, meth, br, om, ref_ind):
    """The algorithm object of the setup route. The label-only run parameters (ordmin, sc) are left out when they are at
    their default ('0', 'default') and given otherwise; all parameters go in as keywords or inside an SSIRunParams object."""
    kw = dict(method=meth, br=int(br), ordmax=int(om), ref_ind=ref_ind, hc=dict(HC))
    if case.get("omin", "0") != "0":
        kw["ordmin"] = int(ordmin_of(case))
    sc = SC_ALL[case.get("sc", "default")]
    if sc is not None:
        kw["sc"] = dict(sc)
    if case.get("form", FORMS[0]) == FORMS[0]:
        return cls(name="a", **kw)
    return cls(name="a", run_params=cls.RunParamCls(**kw))


def run_exact(t, case, seed):
    from pyoma2.functions import ssi

    m, l, r = case["m"], case["l"], case["r"]  # noqa: E741
    S = system(case, seed)
    G = _G(seed, m, r)
    br = br_min(m, l, r) + case["bro"]
    o = 2 * m
    dt = 1.0 / case["fs"]
    cO = T.cond(S.obs(None, br))
    cG = T.cond(S.ctrl(G, br + 1))
    t.err("guard.cO", cO)
    t.err("guard.cG", cG)
    if cO > GUARD["cO"] or cG > GUARD["cG"] or cO * cG > GUARD["cOcG"]:
        t.skipped_by_guard += 1
        t.outcomes["guard-reject"] += 1
        return
    t.states += 1
    if m >= 2 or r != l:
        t.nontrivial.add(("e", case["idx"]))
    level = LEVELS[case["idx"] % len(LEVELS)]
    H = level * S.hankel_exact(None, G, br)
    rank = int(np.linalg.matrix_rank(H, tol=1e-11 * np.linalg.norm(H, 2)))
    if rank != o:                      # the model itself must deliver what the clause quantifies over
        raise AssertionError(f"exact Hankel product has numerical rank {rank}, expected {o}: {case}")
    try:
        Obs, A, C, *_ = ssi.SSI_fast(H.copy(), br, o)
        Fn, Xi, Ph, Lam, *_ = ssi.SSI_poles(Obs, A, C, o, dt)
        t.evaluations += 2
        res = _column(S, Lam, Fn, Xi, Ph, o)
    except Exception as e:
        res = None
        _raised(t, case, seed, "exact-fast", e)
    if res is not None:
        judge(t, case, seed, "exact-fast", *res)
        if len(t.samples) < 1 and not res[0]:
            t.sample({"case": _short(case), "route": "exact-fast", "br": br, "H_shape": H.shape, "rank_H": rank,
                      "true_fn": S.fn, "identified_fn_at_order_2m": np.sort(Fn[:, o]), "max_rel_err": res[1]})
    try:
        A2, C2 = ssi.SSI(H.copy(), br, o)
        fn2, xi2, ph2, lam2, *_ = ssi.ac2mp(A2[o], C2[o], dt)
        t.evaluations += 2
        res = T.compare_poles(S, lam2, fn2, xi2, ph2)
    except Exception as e:
        res = None
        _raised(t, case, seed, "exact-legacy", e)
    if res is not None:
        judge(t, case, seed, "exact-legacy", *res)


# ---- explorer -----------------------------------------------------------------------------------------
_SEED = [0]


def _work(cases):
    t = Tally()
    for c in cases:
        t.merge(run_case(c, _SEED[0]))
    return t


def _items(cases, per_item):
    """Strided slices, so that every work item mixes cheap (small m, l) and expensive lattice points."""
    n = max(1, math.ceil(len(cases) / per_item))
    return [cases[i::n] for i in range(n)]


def explore(ctx):
    _SEED[0] = ctx.seed
    decay, exact = lattice(ctx.thorough)
    ctx.bounds = {
        "modes_m": [1, 6] if ctx.thorough else [1, 4],
        "channels_l": list(L_ALL),
        "shapes": ["real", "complex"],
        "response_level": list(LEVELS),
        "reference_subsets": {str(l): [list(c) for c in ref_subsets(l)] for l in L_ALL},
        "block_rows": "max(ceil(2m/l), ceil(2m/r)) + 1 + offset, offset in " + str(list(BRO_ALL)),
        "placement": list(T.PLACEMENTS), "damping": list(T.DAMPINGS), "fs": list(FS_ALL), "record_length": list(N_ALL),
        "method": list(METHODS), "ordmax": "2m + {0,2} by rotation on the case index",
        "setup_route_label_only_run_parameters": {
            "ordmin": list(OMIN_ALL) + ["'2m+1' with ordmax 2m is replaced by 2m (ordmin <= ordmax); '0' = keyword left out"],
            "sc": {k: (v if v is not None else "left out (library default)") for k, v in SC_ALL.items()},
            "parameters_given_as": list(FORMS),
            "assignment": "rotation on the case index: (ordmin, form) = pair (idx//2) % 10, sc = (idx//20) % 3; every combination "
                          "with the ordmax excess is met every 60 cases; the noise run of the forced collision uses the same parameters"},
        "routes": ["setup(SSIcov|SSIdat)+mpe", "func(build_hank,SSI_fast,SSI_poles)", "legacy(build_hank,SSI,ac2mp)",
                   "exact-H(SSI_fast+SSI_poles)", "exact-H(SSI+ac2mp)"],
        "exact_H_reference_columns_r": {str(l): r_values(l) for l in L_ALL},
        "secondary_axes": ("full product" if ctx.thorough else
                           "damping x fs x record length x block-row offset: 3 of the 54 combinations per primary cell "
                           "(m, l, shapes, refs, placement, method) by rotation, all 54 covered; exact-H: fs by rotation"),
        "free_decay_cases": len(decay), "exact_H_cases": len(exact),
        "tolerances": dict(T.TOL), "guards": dict(GUARD),
        "read_only_operations_interleaved": {"setup route, every %d-th free-decay case" % LOOK_ALG: "plot_stab, plot_cluster, plot_svalH of the algorithm between run and "
                                             "the reading of the tables / mpe (frequency window leaving modes outside, hide_poles rotating)",
                                             "setup route, every %d-th free-decay case" % LOOK_SETUP: "plot_data, plot_ch_info, plot_STFT of the setup before the run"},
    }
    ctx.pmap(_work, _items(decay, 40))
    ctx.pmap(_work, _items(exact, 150))
    ctx.tally.sample({"note": "lattice sizes", "free_decay_cases": len(decay), "exact_H_cases": len(exact)})
    ctx.require("response-level:1", "response-level:3e-08", "response-level:200000", "func:agree", "legacy:agree", "setup:agree", "mpe:agree", "exact-fast:agree", "exact-legacy:agree",
                "shapes:complex", "shapes:real", "refs:proper-subset", "refs:all", "method:cov_mm", "method:dat",
                "setup-ordmin:0(ordmax 2m+0)", "setup-ordmin:0(ordmax 2m+2)", "setup-ordmin:2m-1(ordmax 2m+0)",
                "setup-ordmin:2m-1(ordmax 2m+2)", "setup-ordmin:2m(ordmax 2m+0)", "setup-ordmin:2m(ordmax 2m+2)",
                "setup-ordmin:2m+1(ordmax 2m+2)", "setup-sc:default", "setup-sc:none-stable", "setup-sc:all-stable",
                "setup-params-as:keywords", "setup-params-as:run-params-object",
                *[f"setup-ordmin-form:{o_}:{f_}:{m_}" for o_ in ("0", "2m-1", "2m", "2m+1") for f_ in FORMS for m_ in METHODS],
                "looked-at-algorithm-before-reading:plot_stab", "looked-at-algorithm-before-reading:plot_cluster",
                "looked-at-algorithm-before-reading:plot_svalH", "looked-at-setup-before-run:plot_ch_info",
                "looked-at-setup-before-run:plot_data", "looked-at-setup-before-run:plot_STFT")


def replay(case):
    case = dict(case)
    seed = int(case.pop("seed", 0))
    return run_case(case, seed)
