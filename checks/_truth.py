"""Ground-truth linear systems for the identification checks (C01, C03; importable by C02 end-to-end and C17).

Nothing in this module imports pyoma2: everything here is the *model* side (known poles, known shapes, exact
responses, exact Hankel factors, conditioning numbers of the true system, and the comparison of an identified pole
set with the truth).

API (keep it small):

    freqs(m, placement)                 normalised frequencies f/fs, ascending           PLACEMENTS
    damps(m, profile)                   damping ratios                                     DAMPINGS
    shapes(seed, tag, l, m, complex_)   l x m payload mode shapes (mc.payload)
    amps(seed, tag, m)                  m complex modal amplitudes (|a| in [1,2], any phase)
    System(fnorm, xi, Phi, fs)          .m .l .fs .dt .fn .xi .lam (continuous, Im>0) .z (discrete) .Phi
        .decay(amp, N, rows=None)           N x len(rows) noise-free free response  y[n] = 2 Re sum_k phi_k a_k z_k^n
        .obs(rows, nblocks)                 real block-modal observability  [C; CA; ...; CA^(nblocks-1)]
        .ctrl(G, nblocks)                   real block-modal controllability [G, AG, ..., A^(nblocks-1) G]
        .states(amp, N)                     real block-modal state sequence (2m x N), y = C x
        .hankel_exact(rows, G, p)           O_{p+1}(C[rows], A) @ [G, AG, ..., A^p G]  (exact rank-2m product)
    guards_decay(sys, amp, N, refs, br, rows=None)   dict of truth-based conditioning numbers for a free-decay case
    cond(M), mac(a, b)
    compare_poles(sys, Lam, Fn, Xi, Phi, tol, ...)   judge one model-order column against the truth
    compare_modes(sys, Fn, Xi, Phi, tol, ...)        judge an extracted (Fn, Xi, Phi[l x m]) result against the truth

Real block-modal form used throughout: mode k with discrete pole z = zr + i zi and modal coordinate w = u + i v
(w[n+1] = z w[n], w[0] = a):  A_k = [[zr, -zi], [zi, zr]],  C_k = [2 Re phi, -2 Im phi],  x_k = [u, v].
"""
import numpy as np

from mc import payload

PLACEMENTS = ("spread", "pair", "low", "high", "close")
DAMPINGS = ("lo", "hi", "graded")
TOL = {"fn": 1e-7, "xi": 1e-6, "mac": 1e-9}


def freqs(m, placement):
    """Normalised natural frequencies f/fs in (0, 0.45], ascending, distinct. 'pair' and 'close' need m >= 2."""
    if placement == "spread":
        f = np.linspace(0.04, 0.44, m + 2)[1:-1] if m > 1 else np.array([0.2])
    elif placement == "pair":          # two modes 0.03 fs apart
        if m < 2:
            raise ValueError("pair needs m >= 2")
        f = np.concatenate([[0.20, 0.23], np.linspace(0.3, 0.42, m - 2)])
    elif placement == "low":           # lowest mode at 0.02 fs
        f = np.concatenate([[0.02], np.linspace(0.1, 0.4, max(m - 1, 0))])[:m]
    elif placement == "high":          # highest mode at 0.45 fs
        f = np.concatenate([np.linspace(0.05, 0.35, max(m - 1, 0)), [0.45]])[-m:]
    elif placement == "close":         # two modes 3 % apart: closer than the default extraction tolerance (rtol 5e-2)
        if m < 2:
            raise ValueError("close needs m >= 2")
        f = np.concatenate([[0.20, 0.206], np.linspace(0.3, 0.42, m - 2)])
    else:
        raise ValueError(placement)
    return np.sort(np.asarray(f, float))


def damps(m, profile):
    if profile == "lo":
        return np.full(m, 0.002)
    if profile == "hi":
        return np.full(m, 0.08)
    if profile == "graded":
        return np.linspace(0.002, 0.08, m) if m > 1 else np.array([0.02])
    raise ValueError(profile)


def shapes(seed, tag, l, m, complex_):  # noqa: E741
    """Payload mode shapes: real parts with moduli in [0.3, 1.5], all distinct, payload signs; complex shapes get
    independent imaginary parts in (-0.6, 0.6) (non-proportional phases)."""
    Phi = payload.entries(seed, f"{tag}/re", (l, m), lo=0.3, hi=1.5).astype(complex)
    if complex_:
        Phi = Phi + 1j * payload.uniform(seed, f"{tag}/im", l * m, -0.6, 0.6).reshape(l, m)
    return Phi


def amps(seed, tag, m):
    mod = payload.uniform(seed, f"{tag}/am", m, 1.0, 2.0)
    ph = payload.uniform(seed, f"{tag}/ap", m, 0.0, 2 * np.pi)
    return mod * np.exp(1j * ph)


def cond(M):
    s = np.linalg.svd(np.asarray(M), compute_uv=False)
    if s.size == 0 or s[-1] == 0 or min(M.shape) < 1:
        return np.inf
    return float(s[0] / s[-1])


def mac(a, b):
    a = np.asarray(a)
    b = np.asarray(b)
    den = np.vdot(a, a).real * np.vdot(b, b).real
    if not den > 0:
        return np.nan
    return float(abs(np.vdot(a, b)) ** 2 / den)


class System:
    """m underdamped modes seen at l sensors, sampled at fs."""

    def __init__(self, fnorm, xi, Phi, fs):
        self.fs = float(fs)
        self.dt = 1.0 / self.fs
        self.fn = np.asarray(fnorm, float) * self.fs
        self.xi = np.asarray(xi, float)
        self.Phi = np.asarray(Phi, complex)
        self.l, self.m = self.Phi.shape
        wn = 2 * np.pi * self.fn
        self.lam = -self.xi * wn + 1j * wn * np.sqrt(1 - self.xi**2)
        self.z = np.exp(self.lam * self.dt)

    # ---- responses ------------------------------------------------------------------------------
    def _rows(self, rows):
        return list(range(self.l)) if rows is None else list(rows)

    def decay(self, amp, N, rows=None):
        zn = np.exp(np.outer(self.lam * self.dt, np.arange(N)))          # m x N, closed form (no recursion)
        return 2 * np.real((self.Phi[self._rows(rows)] * np.asarray(amp)) @ zn).T

    # ---- real block-modal factors ---------------------------------------------------------------
    def obs(self, rows, nblocks):
        P = self.Phi[self._rows(rows)]
        out = []
        for i in range(nblocks):
            Q = P * self.z**i
            blk = np.empty((P.shape[0], 2 * self.m))
            blk[:, 0::2] = 2 * Q.real
            blk[:, 1::2] = -2 * Q.imag
            out.append(blk)
        return np.vstack(out)

    def ctrl(self, G, nblocks):
        G = np.asarray(G, float)
        g = G[0::2] + 1j * G[1::2]                                       # m x r complex modal input
        out = []
        for i in range(nblocks):
            w = g * (self.z**i)[:, None]
            blk = np.empty_like(G)
            blk[0::2] = w.real
            blk[1::2] = w.imag
            out.append(blk)
        return np.hstack(out)

    def states(self, amp, N):
        w = np.asarray(amp)[:, None] * np.exp(np.outer(self.lam * self.dt, np.arange(N)))
        X = np.empty((2 * self.m, N))
        X[0::2] = w.real
        X[1::2] = w.imag
        return X

    def hankel_exact(self, rows, G, p):
        """(p+1)*len(rows) x (p+1)*r exact product O_{p+1} Gamma_{p+1}: rank 2m by construction."""
        return self.obs(rows, p + 1) @ self.ctrl(G, p + 1)


def guards_decay(sys, amp, N, refs, br, rows=None):
    """Conditioning of a free-decay identification case, from the true system only.

    cO   cond of the true observability block with br block rows over all measured rows (shift-invariance solve)
    cR   cond of the true observability block of the reference rows with br+1 block rows (the 'past' factor)
    cX   cond of the true state sequence over the record (its square is the cond of the state Gram matrix)
    part smallest / largest modal participation  ||phi_ref,k|| * ||a_k z_k^n||_2  over the modes
    kappa = cO * cR * cX^2: conditioning of the covariance-type Hankel matrix O (X X^T) O_ref^T on its range; the
          observed errors follow eps * kappa (calibrated: kappa <= 1e7 keeps fn within 4e-10 and xi within 6e-9)
    """
    rows = sys._rows(rows)
    cO = cond(sys.obs(rows, br))
    cR = cond(sys.obs([rows[i] for i in refs], br + 1))
    X = sys.states(amp, N)
    cX = cond(X)
    en = np.sqrt((X[0::2] ** 2 + X[1::2] ** 2).sum(axis=1))                # l2 norm of each modal coordinate
    pr = np.linalg.norm(sys.Phi[[rows[i] for i in refs]], axis=0) * en
    return {"cO": cO, "cR": cR, "cX": cX, "part": float(pr.min() / pr.max()), "kappa": cO * cR * cX**2}


# ---- oracle: identified poles against the truth ----------------------------------------------------
def _unit_largest(v, tol=1e-9):
    """|largest component - 1| <= tol (unit-normalised shapes equal 1 only to rounding)."""
    v = np.asarray(v)
    k = int(np.argmax(np.abs(v)))
    return abs(v[k] - 1.0) <= tol


def compare_poles(sys, Lam, Fn, Xi, Phi, tol=TOL, rows=None, need_unit=True, matched=None):
    """Judge one model-order column. Lam/Fn/Xi: 1-D arrays (NaN padded), Phi: (n, l) array of shape rows.

    Required: exactly 2m finite poles; for every true mode one pole at lam_k and one at conj(lam_k) (all 2m poles
    used once); |dfn|/fn, |dxi|/xi, 1-MAC within tol (shape against phi_k for the Im>0 pole, conj(phi_k) for the
    other); |dlam|/|lam| within tol['fn']; every shape unit-normalised at its largest component.
    Returns (problems: list of (short-class, text), errs: dict name -> max error). If `matched` is a list it
    receives one (mode, sign, fn, xi, shape) tuple per matched pole (for comparing two identifications)."""
    probs, errs = [], {"fn": 0.0, "xi": 0.0, "mac": 0.0, "lam": 0.0}
    Lam = np.asarray(Lam)
    Fn = np.asarray(Fn, float)
    Xi = np.asarray(Xi, float)
    Phi = np.asarray(Phi)
    P = sys.Phi[sys._rows(rows)]
    m = sys.m
    fin = np.isfinite(Fn) & np.isfinite(Xi) & np.isfinite(Lam.real) & np.isfinite(Lam.imag)
    idx = np.flatnonzero(fin)
    if Phi.ndim != 2 or Phi.shape[1] != P.shape[0]:
        return [("shape-dim", f"shape rows have {Phi.shape[1:] if Phi.ndim > 1 else Phi.shape} components, expected {P.shape[0]}")], errs
    if len(idx) != 2 * m:
        probs.append(("count", f"{len(idx)} finite poles at order {2 * m}, expected {2 * m}"))
        if len(idx) == 0:
            return probs, errs
    used = set()
    for k in range(m):
        for sign in (+1, -1):
            target = sys.lam[k] if sign > 0 else np.conj(sys.lam[k])
            i = idx[int(np.argmin(np.abs(Lam[idx] - target)))]
            if i in used:
                probs.append(("pairing", f"no separate pole for {'+' if sign > 0 else '-'} member of mode {k} (f={sys.fn[k]:.6g})"))
                continue
            used.add(i)
            if matched is not None:
                matched.append((k, sign, float(Fn[i]), float(Xi[i]), np.array(Phi[i])))
            e_l = abs(Lam[i] - target) / abs(target)
            e_f = abs(Fn[i] - sys.fn[k]) / sys.fn[k]
            e_x = abs(Xi[i] - sys.xi[k]) / sys.xi[k]
            ref = P[:, k] if sign > 0 else np.conj(P[:, k])
            mc_ = mac(Phi[i], ref)
            e_m = 1.0 - mc_ if mc_ == mc_ else np.inf
            errs["lam"] = max(errs["lam"], e_l)
            errs["fn"] = max(errs["fn"], e_f)
            errs["xi"] = max(errs["xi"], e_x)
            errs["mac"] = max(errs["mac"], e_m)
            if not e_l <= tol["fn"]:
                probs.append(("lam", f"pole of mode {k}: |dlam|/|lam|={e_l:.3g} (got {Lam[i]:.9g}, true {target:.9g})"))
            if not e_f <= tol["fn"]:
                probs.append(("fn", f"mode {k}: fn={Fn[i]:.12g} true {sys.fn[k]:.12g} rel {e_f:.3g}"))
            if not e_x <= tol["xi"]:
                probs.append(("xi", f"mode {k}: xi={Xi[i]:.12g} true {sys.xi[k]:.12g} rel {e_x:.3g}"))
            if not e_m <= tol["mac"]:
                probs.append(("mac", f"mode {k} ({'+' if sign > 0 else '-'} pole): 1-MAC={e_m:.3g}"))
            if need_unit and not _unit_largest(Phi[i]):
                probs.append(("norm", f"mode {k}: largest shape component is {Phi[i][int(np.argmax(np.abs(Phi[i])))]:.9g}, not 1"))
    return probs, errs


def compare_modes(sys, Fn, Xi, Phi, tol=TOL, rows=None, need_unit=True):
    """Judge an extraction result: Fn (m,), Xi (m,), Phi (l x m), modes in ascending true frequency. The shape of
    a mode may be phi_k or conj(phi_k) (either pole of the pair is an admissible nearest pole)."""
    probs, errs = [], {"fn": 0.0, "xi": 0.0, "mac": 0.0}
    P = sys.Phi[sys._rows(rows)]
    m = sys.m
    try:
        Fn = np.asarray(Fn, float)
        Xi = np.asarray(Xi, float)
        Phi = np.asarray(Phi)
    except Exception as e:  # ragged / None
        return [("mpe-type", f"result arrays not numeric: {e}")], errs
    if Fn.shape != (m,) or Xi.shape != (m,) or Phi.shape != (P.shape[0], m):
        return [("mpe-shape", f"Fn{Fn.shape} Xi{Xi.shape} Phi{Phi.shape}, expected ({m},) ({m},) ({P.shape[0]}, {m})")], errs
    for k in range(m):
        e_f = abs(Fn[k] - sys.fn[k]) / sys.fn[k]
        e_x = abs(Xi[k] - sys.xi[k]) / sys.xi[k]
        mm = max(mac(Phi[:, k], P[:, k]), mac(Phi[:, k], np.conj(P[:, k])))
        e_m = 1.0 - mm if mm == mm else np.inf
        errs["fn"] = max(errs["fn"], e_f if e_f == e_f else np.inf)
        errs["xi"] = max(errs["xi"], e_x if e_x == e_x else np.inf)
        errs["mac"] = max(errs["mac"], e_m)
        if not e_f <= tol["fn"]:
            probs.append(("mpe-fn", f"mode {k}: Fn={Fn[k]:.12g} true {sys.fn[k]:.12g}"))
        if not e_x <= tol["xi"]:
            probs.append(("mpe-xi", f"mode {k}: Xi={Xi[k]:.12g} true {sys.xi[k]:.12g}"))
        if not e_m <= tol["mac"]:
            probs.append(("mpe-mac", f"mode {k}: 1-MAC={e_m:.3g}"))
        if need_unit and not _unit_largest(Phi[:, k]):
            probs.append(("mpe-norm", f"mode {k}: largest component of the extracted shape is not 1"))
    return probs, errs
