"""C13 - spectral matrix estimation (fdd.SD_est): grid, pairing, scaling and phase convention.

Four exhaustive lattices around a payload alphabet:
  lattice  (channels x reference subset x nxseg x overlap x length x fs x estimator): frequency grid, shape, pairing,
           bilinearity per argument; for 'per' equality with an independent Welch implementation written from the
           definition (lines >= 2), and with data == reference: Hermitian, positive semidefinite, windowed Parseval;
  delay    a broadband payload source and a scaled, delayed copy, every (gain, delay, placement): gain and linear phase
           in the source's row, both estimators, with the property's own tolerances;
  sine     stationary sinusoids at EVERY interior grid line, amplitudes over three decades, payload phases: complex
           amplitude ratios ('per', 1e-9);
  classes  FDD / EFDD / FSDD / pLSCF .result.{freq,Sy} after a real SingleSetup run.
Every part walks, next to the powers of two and the round lengths, segment lengths with a prime factor >= 13 (ROUGH: 17, 26, 34,
39, 52, 65, 130, 514, 998, 1018, 1023, 4082; even and odd, small and large): the grid is fs/nxseg for EVERY nxseg in 16..4096, not
only for the lengths an FFT library finds convenient.
Every part also walks the overall LEVEL of the records (the physical unit they are expressed in): LEVELS = 1e-9, 1e-6, 1e-3, 1e6 next
to the payload's own unit level. Every oracle of the four parts is scale-equivariant (relative errors, ratios), and bilinearity itself
demands Sy(G Y, G Yref) = G^2 Sy(Y, Yref) for EVERY common gain G, not only for gains near 1: the lattice compares records of levels
that are many decades apart (values and real/complex kind of the returned array), the class route does the same through run().
The lattice and the class part also walk DEGENERATE but legal records (the data axis of 'for every record'): one channel identically zero
(a dead sensor logged as zeros: as data channel only, as reference channel only, as both), a constant channel, a channel that is zero
except for one sample, two identical channels - every position of the channel, every reference list. Bilinearity says zero in, zero out;
Welch equality, Hermitian symmetry and positive semidefiniteness hold for them like for any other record.
"""
import itertools

import numpy as np

from mc import payload
from mc.core import Tally

ID = "C13"
TECHNIQUE = ("exhaustive walk of the configuration lattice (channels, reference subset, segment length, overlap, record "
             "length, sampling rate, estimator, record level, common gain, degenerate record kind and channel, gain, delay, placement, grid line, amplitudes) around a deterministic "
             "payload alphabet; oracle on every point: independent Welch reference, algebraic identities, gain/delay and "
             "amplitude-ratio relations")
LEVEL_TEXT = ("bounded-exhaustive over the stated lattices; the quantifier over all real-valued records is covered by one "
              "payload alphabet per seed (small-scope hypothesis), expressed in five units (levels 1e-9 ... 1e6), plus the degenerate records made from it (a dead, "
              "a constant, a one-sample, a duplicated channel at every position); the delay tolerances are the property's own calibrated "
              "numbers, so a loss of accuracy inside them is not seen")
RULE = ("one case = one lattice point (part, channels, reference list, nxseg, overlap, length, fs, estimator, record level[, degenerate kind and channel][, gain, delay, "
        "placement | grid line, amplitude tuple | class]); non-trivial iff the spectral matrix has at least two "
        "(channel, reference) pairs, so that pairing/conjugation can go wrong (delay, sine and class cases always have)")
ASSUMPTIONS = [
    "numpy rfft / eigvalsh are the reference operations (trusted); scipy.signal is not used by the reference",
    "Welch reference: periodic Hann window, per-segment mean removal, segments at multiples of nxseg - int(nxseg*pov), "
    "scaling 1/(fs*sum(w^2)), one-sided doubling except at 0 and Nyquist, P[i,j] = mean over segments of conj(X_i) X_j; "
    "equality is judged on lines >= 2 only (segment-mean removal is immaterial there, as in the quantifier)",
    "Parseval: the frequency integral must equal the window-weighted mean square of the segments either with or "
    "without their means removed (the statement does not fix the detrending)",
    "delay relation judged in the source's row, Sy[s,c]/Sy[s,s] = g*exp(-2*pi*i*f*d/fs): 5 % at every line >= 2 ('per'), "
    "30 % in the median over lines >= 2 ('cor'); records of 60 and 100 segments (the statement fixes no length for this test; "
    "at 20 segments without overlap the estimator's scatter on the unchanged tree reaches 4.6 %, too close to the 5 % limit "
    "to be judged without false alarms; at >= 60 segments it stays below 2.5 % over seeds 0..9)",
    "segment-length axis: powers of two, round lengths (20, 100; odd 25, 75) and lengths with a prime factor >= 13 (17, 26, 34, 39, 52, "
    "65, 130, 514, 998, 1018, 1023, 4082 - lengths for which an FFT library would rather transform a longer, padded segment), on all "
    "four parts; their overlaps are the fractions of ROUGH_POV, all with nxseg*pov an exact integer (asserted when the lattices are built)",
    "integer nxseg*pov only, as in the quantifier; odd segment lengths (25, 75; 17, 39, 65, 1023) are covered for the periodogram estimator only (grid = k fs/nxseg, "
    "k = 0..floor(nxseg/2); the correlogram route pads to nxseg points of an even-length transform and is not defined for odd nxseg)",
    "record level (the unit the records are expressed in): the payload records have unit level; every part repeats a stated sub-lattice "
    "with the whole record multiplied by 1e-9, 1e-6, 1e-3 and 1e6 (all oracles are relative, so the tolerances are unchanged), and the "
    "lattice evaluates 'scales with the square of a common gain' for common gains G of that size as well: Sy(G Y, G Yref) against "
    "G^2 Sy(Y, Yref), 1e-10 of the largest entry, with the same kind of array (complex) on both sides - quick: one lattice point in three, "
    "G rotating over the four levels; thorough: every point; on the points whose base record is at level L, G = 1/L (back to unit level). "
    "Levels are limited to 1e-9 ... 1e6 so that the squares (1e-18 ... 1e12 times the unit-level densities) stay far from under/overflow",
    "degenerate records (lattice and class parts; channels 1..3, thorough 1..4, every reference list of the level sub-lattice, segment lengths "
    "16, 64, 26, 39 (thorough also 256, 130), both estimators, overlap / length / fs / record level rotating): the payload record with channel k "
    "identically zero ('zero': data channel only when k is not a reference, data and reference when it is), with reference row j identically zero "
    "while the data keep it ('zero-ref'), with channel k constant (payload value, either sign), with channel k zero except for ONE sample inside "
    "the first segment, with channel l a copy of channel k ('twin'); every k, j and pair (k, l). All oracles of the lattice apply unchanged "
    "(grid, shape, finiteness, bilinearity against non-degenerate second records, far common gain, Welch, and with data == reference Hermitian / "
    "PSD / Parseval); added judgements: every entry that involves an identically zero channel is zero (zero in, zero out: <= 1e-10 of the "
    "density level 2 dt rms(data) rms(reference) of the record before the channel was zeroed - exactly zero where that level is zero), and the "
    "rows (columns) of two identical channels are equal. Ground-truth rules, from the constructed record and never from the output: Parseval's "
    "relative error is not formed for a channel whose window-weighted mean square is zero by construction (zero and constant channels - "
    "their spectra are covered by zero-in-zero-out and Welch equality); where the whole record is zero or constant (one channel) the relative "
    "errors are taken against the density level 2 dt rms(data) rms(reference) of the record as given, not against the largest returned entry "
    "(which is zero, or rounding residue of the mean removal)",
    "class route with degenerate records: FDD, EFDD, FSDD with every kind (zero, const, spike, twin), pLSCF with the one-sample channel only - "
    "with a zero, constant or duplicated channel the spectral matrix is singular at every line by construction, and pLSCF's identification "
    "(not the estimation this property is about) has no solution there (LinAlgError: Singular matrix on the unchanged tree)",
]

TOL_WELCH = 1e-10
TOL_BILIN = 1e-10
TOL_SINE = 1e-9
TOL_GRID = 1e-12
TOL_LEVEL = 1e-10

# overall level of the records (the unit they are expressed in) next to the payload's own unit level
LEVELS = (1e-9, 1e-6, 1e-3, 1e6)


def lev_key(x):
    return f"{x:.0e}"


def kind(a):
    return "complex" if np.iscomplexobj(a) else "real"

# segment lengths with a prime factor >= 13 ("rough" lengths: not of the form 2^a 3^b 5^c 7^d 11^e) -> overlaps with integer nxseg*pov
ROUGH_POV = {
    17: (0.0, 8 / 17), 26: (0.0, 0.5), 34: (0.0, 0.5), 39: (0.0, 1 / 3, 2 / 3), 52: (0.0, 0.25, 0.5, 0.75), 65: (0.0, 0.2, 0.6),
    130: (0.0, 0.5, 0.3), 514: (0.0, 0.5), 998: (0.0, 0.5), 1018: (0.0, 0.5), 1023: (0.0, 1 / 3), 4082: (0.0, 0.5),
}


def largest_prime_factor(n):
    n = int(n)
    p, best = 2, 1
    while p * p <= n:
        while n % p == 0:
            best, n = p, n // p
        p += 1
    return max(best, n) if n > 1 else best


def rough(nxseg):
    return largest_prime_factor(nxseg) >= 13


def rough_key(nxseg):
    return "odd" if nxseg % 2 else "even"


for _n, _ps in ROUGH_POV.items():
    assert rough(_n) and 16 <= _n <= 4096, _n
    for _p in _ps:
        assert 0.0 <= _p < 1.0 and float(_n * _p).is_integer(), (_n, _p)       # inside the quantifier: integer nxseg*pov


def sd_est(Yall, Yref, dt, nxseg, method, pov):
    from pyoma2.functions import fdd

    return fdd.SD_est(Yall, Yref, dt, nxseg, method=method, pov=pov)


# ------------------------------------------------------------------------------------------------
# reference: Welch's estimate from the definition

def segments(N, nxseg, pov):
    step = nxseg - int(nxseg * pov)
    return [k for k in range(0, N - nxseg + 1, step)]


def welch_ref(Yall, Yref, fs, nxseg, pov, demean=True):
    n = np.arange(nxseg)
    w = 0.5 - 0.5 * np.cos(2 * np.pi * n / nxseg)
    starts = segments(Yall.shape[1], nxseg, pov)
    nf = nxseg // 2 + 1
    P = np.zeros((Yall.shape[0], Yref.shape[0], nf), dtype=complex)
    for k in starts:
        a = Yall[:, k:k + nxseg]
        b = Yref[:, k:k + nxseg]
        if demean:
            a = a - a.mean(axis=1, keepdims=True)
            b = b - b.mean(axis=1, keepdims=True)
        A = np.fft.rfft(a * w, axis=1)
        B = np.fft.rfft(b * w, axis=1)
        for i in range(A.shape[0]):
            for j in range(B.shape[0]):
                P[i, j] += np.conj(A[i]) * B[j]
    P /= len(starts) * fs * np.sum(w * w)
    P[:, :, 1:(nxseg + 1) // 2] *= 2.0      # one-sided doubling: every line except 0 and (for even nxseg) Nyquist
    return P


def weighted_ms(X, nxseg, pov, demean):
    n = np.arange(nxseg)
    w = 0.5 - 0.5 * np.cos(2 * np.pi * n / nxseg)
    acc = np.zeros(X.shape[0])
    starts = segments(X.shape[1], nxseg, pov)
    for k in starts:
        a = X[:, k:k + nxseg]
        if demean:
            a = a - a.mean(axis=1, keepdims=True)
        acc += np.sum((a * w) ** 2, axis=1)
    return acc / (len(starts) * np.sum(w * w))


_PAY = {}


def pay(seed, tag, shape):
    """payload.normal with a per-process cache (explore() fills it before the workers are forked)."""
    k = (seed, tag, tuple(shape))
    if k not in _PAY:
        _PAY[k] = payload.normal(seed, tag, shape)
    return _PAY[k].copy()


def relmax(a, b, floor=0.0):
    s = max(float(np.max(np.abs(b))), floor)
    return float(np.max(np.abs(a - b))) / (s if s > 0 else 1.0)


# ------------------------------------------------------------------------------------------------
# degenerate but legal records: a dead (identically zero), a constant, a one-sample, a duplicated channel

DEG_KINDS = ("zero", "zero-ref", "const", "spike", "twin")
DEG_LEVELS = (1.0,) + LEVELS


def deg_key(deg, refs=None):
    """outcome / class key of a degenerate kind; 'zero' says whether the dead channel is a data channel only or a reference as well"""
    k = deg[0]
    if k == "zero" and refs is not None:
        return "zero:data+reference" if deg[1] in list(refs) else "zero:data-only"
    return {"zero-ref": "zero:reference-only"}.get(k, k)


def degenerate(X, deg, seed, lev, nxseg):
    """The record X (channels x samples) with the degenerate channel of `deg` (a modified copy) and the ground truth about it:
    (record, channels identically zero, channels constant, pairs of identical channels). 'zero-ref' leaves the data as they are."""
    X = X.copy()
    kind_ = deg[0]
    dead, flat, twins = set(), set(), []
    if kind_ == "zero":
        X[deg[1], :] = 0.0
        dead.add(deg[1])
    elif kind_ == "const":
        X[deg[1], :] = lev * payload.entries(seed, "c13/deg/const", (8,))[deg[1]]          # modulus 0.2 .. 1, either sign
        flat.add(deg[1])
    elif kind_ == "spike":
        X[deg[1], :] = 0.0
        X[deg[1], nxseg // 2 + 1 + deg[1]] = 3.0 * lev * payload.entries(seed, "c13/deg/spike", (8,))[deg[1]]     # inside the first segment
    elif kind_ == "twin":
        X[deg[2], :] = X[deg[1], :]
        twins.append((deg[1], deg[2]))
    elif kind_ != "zero-ref":
        raise ValueError(deg)
    return X, dead, flat, twins


def live_record(dead, flat, n):
    """False iff every channel of the record is identically zero or constant (ground truth from the construction)"""
    return any(i not in dead and i not in flat for i in range(n))


def rms(X):
    return np.sqrt(np.mean(np.asarray(X, dtype=float) ** 2, axis=1)) if X.shape[0] else np.zeros(0)


def density_level(A, B, dt):
    """ground-truth level of the spectral densities of (data A, references B): 2 dt rms rms (the mean of a one-sided density over 0..fs/2
    is mean square / (fs/2)); zero iff one of the two records is identically zero"""
    return 2.0 * dt * float(np.max(rms(A))) * float(np.max(rms(B)))


# ------------------------------------------------------------------------------------------------
# part A: the lattice

def lattice_case(item):
    seed, cfg = item
    idx, n_all, refs, nxseg, pov, nseg, fs, method = cfg[:8]
    lev = cfg[8] if len(cfg) > 8 else 1.0            # level of the base records
    far = cfg[9] if len(cfg) > 9 else None           # common gain many decades away from 1 (None: not evaluated on this point)
    deg = cfg[10] if len(cfg) > 10 else None         # degenerate record: (kind, channel[, second channel]); None: the payload record as it is
    t = Tally()
    t.states = 1
    case = {"part": "lattice", "cfg": list(cfg), "seed": seed}
    N = int(round(nseg * nxseg))
    dt = 1.0 / fs
    # payload scaled so that different channels have different levels
    X1 = pay(seed, f"c13/X1/{n_all}/{N}", (n_all, N)) * (1.0 + 0.5 * np.arange(n_all))[:, None] + 0.3
    X2 = pay(seed, f"c13/X2/{n_all}/{N}", (n_all, N))
    R2 = pay(seed, f"c13/R2/{len(refs)}/{N}", (len(refs), N))
    if lev != 1.0:
        X1, X2, R2 = lev * X1, lev * X2, lev * R2
    dead, flat, twins, dead_ref, floor, zlevel = set(), set(), [], set(), 0.0, 0.0
    if deg is not None:
        # ground truth about the degenerate record, from its construction: identically zero data channels / reference rows, constant
        # channels, identical channels; the density level of the record before (zlevel) and after (floor) the channel was overwritten
        base = X1
        X1, dead, flat, twins = degenerate(X1, deg, seed, lev, nxseg)
    R1 = X1[list(refs)].copy()
    if deg is not None:
        zlevel = density_level(base, base[list(refs)], dt)
        if deg[0] == "zero-ref":
            R1[deg[1], :] = 0.0
            dead_ref.add(deg[1])
        dead_ref |= {j for j, r in enumerate(refs) if r in dead}
        floor = density_level(X1, R1, dt)
    same = deg is None or deg[0] != "zero-ref"       # the reference rows ARE the data channels `refs`
    nr = len(refs)
    key_m = method

    def call(A, B):
        t.evaluations += 1
        return sd_est(A, B, dt, nxseg, method, pov)

    try:
        f, S = call(X1, R1)
        S = np.asarray(S)
        f = np.asarray(f, dtype=float)
    except Exception as e:
        t.violation(f"raises:{type(e).__name__}:SD_est:{method}", f"SD_est raised {type(e).__name__}: {e} for {cfg}", case)
        return t
    t.transitions += 1
    if n_all * nr >= 2:
        t.nontrivial.add(("L", idx))
    nf = nxseg // 2 + 1
    # grid
    want_f = np.arange(nf) * fs / nxseg
    t.validated += 1
    if f.shape != want_f.shape or not np.all(np.abs(f - want_f) <= TOL_GRID * fs):
        t.violation(f"grid:{key_m}",
                    f"{method} nxseg={nxseg} fs={fs}: frequency vector has {f.size} lines, first step {f[1] - f[0] if f.size > 1 else None!r}, "
                    f"last {f[-1] if f.size else None!r}; required {nf} lines every fs/nxseg={fs / nxseg!r} up to {fs / 2!r}", case)
        return t
    t.outcomes[f"grid-ok:{method}"] += 1
    if S.shape != (n_all, nr, nf):
        t.violation(f"shape:{key_m}", f"{method}: Sy has shape {S.shape}, required (n_all, n_ref, n_f) = {(n_all, nr, nf)} for {cfg}", case)
        return t
    if not np.all(np.isfinite(S)):
        t.violation(f"non-finite:{key_m}", f"{method}: Sy contains non-finite values for {cfg}", case)
        return t
    scale = max(float(np.max(np.abs(S))), floor) or 1.0         # floor: 0 except on degenerate records (ground-truth density level)
    # bilinearity per argument
    try:
        S21 = np.asarray(call(X2, R1)[1])
        S12 = np.asarray(call(X1, R2)[1])
        Ssum1 = np.asarray(call(X1 + X2, R1)[1])
        Ssum2 = np.asarray(call(X1, R1 + R2)[1])
        al, be = (-2.0, 3.0) if idx % 2 == 0 else (0.5, -2.0)
        Ssc = np.asarray(call(al * X1, be * R1)[1])
        Sg = np.asarray(call(3.0 * X1, 3.0 * R1)[1])
    except Exception as e:
        t.violation(f"raises:{type(e).__name__}:SD_est:{method}", f"SD_est raised {type(e).__name__}: {e} for {cfg} (bilinearity calls)", case)
        return t
    sc2 = max(scale, float(np.max(np.abs(S21))), float(np.max(np.abs(S12))))
    errs = {
        "additive-in-data": float(np.max(np.abs(Ssum1 - S - S21))) / sc2,
        "additive-in-reference": float(np.max(np.abs(Ssum2 - S - S12))) / sc2,
        "homogeneous": float(np.max(np.abs(Ssc - al * be * S))) / (abs(al * be) * scale),
        "common-gain-squared": float(np.max(np.abs(Sg - 9.0 * S))) / (9.0 * scale),
    }
    t.validated += 1
    for k, e in errs.items():
        t.err(f"bilinear:{k}:{method}", e)
        if not e <= TOL_BILIN:
            t.violation(f"bilinear:{k}:{key_m}", f"{method}: {k} violated by {e:.3g} (relative to the largest entry) for {cfg}", case)
        else:
            t.outcomes[f"bilinear-ok:{method}"] += 1
    if deg is not None:
        t.validated += 1
        dk = deg_key(deg, refs)
        okz = True
        if dead or dead_ref:
            # zero in, zero out: every entry that pairs an identically zero data channel or reference row
            z = max([float(np.max(np.abs(S[i, :, :]))) for i in sorted(dead)] + [float(np.max(np.abs(S[:, j, :]))) for j in sorted(dead_ref)])
            t.err(f"degenerate:zero-channel-entries/density-level:{method}", z / zlevel if zlevel > 0 else z)
            if not z <= TOL_BILIN * zlevel:
                okz = False
                t.violation(f"bilinear:zero-in-zero-out:{dk}:{key_m}",
                            f"{method}: data channel(s) {sorted(dead)} / reference row(s) {sorted(dead_ref)} of the record are identically zero, but the entries "
                            f"of Sy that pair them reach {z:.3g} (density level of the record before the channel was zeroed: {zlevel:.3g}); "
                            f"bilinearity requires Sy(0, y) = Sy(x, 0) = 0; degenerate record {list(deg)}; {cfg}", case)
        for (k, l) in twins:
            # identical channels: identical rows, and identical columns where both are references
            e = float(np.max(np.abs(S[k] - S[l]))) / scale
            for jk, jl in [(list(refs).index(k), list(refs).index(l))] if (same and k in refs and l in refs) else []:
                e = max(e, float(np.max(np.abs(S[:, jk] - S[:, jl]))) / scale)
            t.err(f"degenerate:identical-channels:{method}", e)
            if not e <= TOL_BILIN:
                okz = False
                t.violation(f"pairing:identical-channels:{key_m}",
                            f"{method}: channels {k} and {l} of the record are identical, their rows / columns of Sy differ by {e:.3g} of the largest "
                            f"entry; degenerate record {list(deg)}; {cfg}", case)
        if okz:
            t.outcomes[f"degenerate-entries-ok:{dk}:{method}"] += 1
    if far is not None:
        # the square law for a common gain many decades away from 1: values and kind (complex) of the returned array
        try:
            Sfar = np.asarray(call(far * X1, far * R1)[1])
        except Exception as e:
            t.violation(f"raises:{type(e).__name__}:SD_est:{method}", f"SD_est raised {type(e).__name__}: {e} for {cfg} (records x {far:g})", case)
            return t
        t.validated += 1
        where = f"records of level {lev:g} (fs={fs}, nxseg={nxseg}) against the same records x {far:g}"
        if Sfar.shape != S.shape:
            t.violation(f"shape:{key_m}", f"{method}: Sy has shape {Sfar.shape} for the records x {far:g}, {S.shape} for the records themselves; {cfg}", case)
            return t
        e = float(np.max(np.abs(Sfar - far * far * S))) / (far * far * scale)
        t.err(f"level:common-gain-squared:{method}", e)
        good = True
        if not e <= TOL_LEVEL:
            good = False
            t.violation(f"level:common-gain-squared:{key_m}",
                        f"{method}: Sy(G Y, G Yref) differs from G^2 Sy(Y, Yref) by {e:.3g} of the largest entry for the common gain G={far:g}: {where}; "
                        f"returned arrays: {S.dtype} (largest |Im| {float(np.max(np.abs(S.imag))):.3g}) and {Sfar.dtype} "
                        f"(largest |Im| {float(np.max(np.abs(Sfar.imag))):.3g}); {cfg}", case)
        if kind(Sfar) != kind(S):
            good = False
            t.violation(f"level:complexness:{key_m}",
                        f"{method}: the returned spectral matrix is {kind(S)} ({S.dtype}) for the records and {kind(Sfar)} ({Sfar.dtype}) for the same "
                        f"records x {far:g}: {where}; {cfg}", case)
        if good:
            t.outcomes[f"far-gain-ok:{method}:G={lev_key(far) if lev == 1.0 else '1/level'}"] += 1
    if method == "per":
        # independent Welch estimate; lines >= 2
        if nf > 2:
            W = welch_ref(X1, R1, fs, nxseg, pov)
            e = relmax(S[:, :, 2:], W[:, :, 2:], floor)
            t.validated += 1
            t.err("welch:lines>=2", e)
            t.err("welch:lines<2(not judged)", relmax(S[:, :, :2], W[:, :, :2]) if np.max(np.abs(W[:, :, :2])) > 0 else 0.0)
            if not e <= TOL_WELCH:
                # say whether it is the pairing/conjugation
                how = ""
                if n_all == nr and relmax(np.swapaxes(S, 0, 1)[:, :, 2:], W[:, :, 2:]) <= TOL_WELCH:
                    how = " (the transposed matrix matches: pairing (i,j) <-> (j,i))"
                elif relmax(np.conj(S[:, :, 2:]), W[:, :, 2:]) <= TOL_WELCH:
                    how = " (the complex conjugate matches: opposite conjugation convention)"
                t.violation("welch:per", f"per: differs from Welch's averaged Hann-windowed one-sided density estimate by {e:.3g} "
                                         f"of the largest entry on lines >= 2{how}; {cfg}", case)
            else:
                t.outcomes["welch-equal"] += 1
        if list(refs) == list(range(n_all)) and same:
            # data == reference: Hermitian, positive semidefinite, Parseval
            t.validated += 1
            eh = float(np.max(np.abs(S - np.conj(np.swapaxes(S, 0, 1))))) / scale
            t.err("hermitian", eh)
            if not eh <= 1e-12:
                t.violation("hermitian:per", f"per, data == reference: Sy is not Hermitian ({eh:.3g} of the largest entry); {cfg}", case)
            else:
                t.outcomes["hermitian-ok"] += 1
                worst = 0.0
                for k in range(nf):
                    M = S[:, :, k]
                    M = 0.5 * (M + M.conj().T)
                    tr = float(np.trace(M).real)
                    ev = float(np.linalg.eigvalsh(M).min())
                    if tr > 0:
                        worst = min(worst, ev / tr)
                    elif ev < -1e-300:
                        worst = min(worst, -1.0)
                t.err("psd:-min-eig/trace", -worst)
                if not worst >= -1e-12:
                    t.violation("psd:per", f"per, data == reference: smallest eigenvalue {worst:.3g} x trace at some line; {cfg}", case)
                else:
                    t.outcomes["psd-ok"] += 1
            integ = np.array([float(np.sum(S[i, i, :].real)) * fs / nxseg for i in range(n_all)])
            ms_d = weighted_ms(X1, nxseg, pov, True)
            ms_r = weighted_ms(X1, nxseg, pov, False)
            # channels whose window-weighted mean square (segment means removed) is zero BY CONSTRUCTION (identically zero, constant) have no
            # relative Parseval error; none outside the degenerate records
            live = [i for i in range(n_all) if i not in dead and i not in flat]
            if not live:
                t.outcomes["parseval-not-formed:no-channel-with-non-zero-mean-square"] += 1
                e_d = e_r = 0.0
            else:
                e_d = float(np.max(np.abs(integ[live] - ms_d[live]) / ms_d[live]))
                e_r = float(np.max(np.abs(integ[live] - ms_r[live]) / ms_r[live]))
            t.err("parseval", min(e_d, e_r))
            if not live:
                pass
            elif not min(e_d, e_r) <= 1e-10:
                t.violation("parseval:per", f"per: the frequency integral of the auto spectra differs from the window-weighted mean square by "
                                            f"{min(e_d, e_r):.3g} (relative); {cfg}", case)
            else:
                t.outcomes["parseval-ok:" + ("segment-means-removed" if e_d <= e_r else "raw")] += 1
    if rough(nxseg) and not t.violations:
        t.outcomes[f"rough-nxseg-ok:lattice:{method}:{rough_key(nxseg)}"] += 1
    if deg is not None and not t.violations:
        t.outcomes[f"degenerate-ok:lattice:{deg_key(deg, refs)}:{method}"] += 1
        if method == "per" and list(refs) == list(range(n_all)) and same:
            t.outcomes[f"degenerate-ok:lattice:hermitian-psd:{deg_key(deg, refs)}"] += 1
        if not live_record(dead, flat, n_all):
            t.outcomes[f"degenerate-ok:lattice:whole-record-{'zero' if dead else 'constant'}:{method}"] += 1
    if lev != 1.0 and deg is None and not t.violations:
        t.outcomes[f"level-ok:lattice:{method}:{lev_key(lev)}"] += 1
        if method == "per" and list(refs) == list(range(n_all)) and n_all >= 2:
            t.outcomes[f"level-ok:lattice:hermitian-psd-parseval:{lev_key(lev)}"] += 1
    if idx % 997 == 0 or (lev != 1.0 and idx % 97 == 0) or (deg is not None and idx % 89 == 0):
        t.sample({"part": "lattice", "n_all": n_all, "refs": list(refs), "nxseg": nxseg, "pov": pov, "segments": nseg, "fs": fs,
                  "method": method, "level": lev, "far_common_gain": far, "degenerate": list(deg) if deg is not None else None, "errors": errs})
    return t


# ------------------------------------------------------------------------------------------------
# part B: gain and delay

def delay_case(item):
    seed, cfg = item
    idx, n, s, c, nxseg, d, g, pov, nseg, fs, method = cfg[:11]
    lev = cfg[11] if len(cfg) > 11 else 1.0          # level of the whole record (source, copy and bystanders)
    t = Tally()
    t.states = 1
    case = {"part": "delay", "cfg": list(cfg), "seed": seed}
    N = nseg * nxseg
    X = pay(seed, f"c13/D/{n}/{N}", (n, N))
    src = X[s].copy()
    X[c, :] = 0.0
    X[c, d:] = g * src[:-d]
    if lev != 1.0:
        X = lev * X
    try:
        f, S = sd_est(X, X, 1.0 / fs, nxseg, method, pov)
        S = np.asarray(S)
    except Exception as e:
        t.evaluations += 1
        t.violation(f"raises:{type(e).__name__}:SD_est:{method}", f"SD_est raised {type(e).__name__}: {e} for {cfg}", case)
        return t
    t.evaluations += 1
    t.transitions += 1
    t.validated += 1
    t.nontrivial.add(("D", idx))
    nf = nxseg // 2 + 1
    if S.shape != (n, n, nf):
        t.violation(f"shape:{method}", f"{method}: Sy has shape {S.shape}, required {(n, n, nf)}; {cfg}", case)
        return t
    ftrue = np.arange(nf) * fs / nxseg           # the statement's grid, not the returned vector
    want = g * np.exp(-2j * np.pi * ftrue * d / fs)
    ratio = S[s, c, :] / S[s, s, :]
    err = np.abs(ratio - want) / abs(g)
    opp = np.abs(np.conj(ratio) - want) / abs(g)
    sl = slice(2, None)
    if method == "per":
        e = float(np.max(err[sl]))
        t.err("delay:per:max-over-lines", e)
        ok = e <= 0.05
        what = f"largest relative error over lines >= 2 is {e:.3g} (limit 0.05)"
    else:
        e = float(np.median(err[sl]))
        t.err("delay:cor:median-over-lines", e)
        ok = e <= 0.30
        what = f"median relative error over lines >= 2 is {e:.3g} (limit 0.30)"
    if not ok:
        eo = float(np.median(opp[sl]))
        t.violation(f"delay:{method}",
                    f"{method}: Sy[s,c]/Sy[s,s] does not reproduce gain {g} and delay {d} samples (phase -2 pi f d/fs): {what}; "
                    f"with the opposite conjugation the median error is {eo:.3g}; n={n} source={s} copy={c} nxseg={nxseg} pov={pov} "
                    f"segments={nseg} fs={fs}; record level {lev:g}, returned array {S.dtype} "
                    f"(largest |Im| {float(np.max(np.abs(S.imag))):.3g}, largest |Re| {float(np.max(np.abs(S.real))):.3g})", case)
    else:
        t.outcomes[f"delay-ok:{method}"] += 1
        if rough(nxseg):
            t.outcomes[f"rough-nxseg-ok:delay:{method}:{rough_key(nxseg)}"] += 1
        if lev != 1.0:
            t.outcomes[f"level-ok:delay:{method}:{lev_key(lev)}"] += 1
        if float(np.median(opp[sl])) > 1.0:
            t.outcomes[f"delay:opposite-conjugation-would-fail:{method}"] += 1
    if idx % 401 == 0 or (lev != 1.0 and idx % 53 == 0):
        t.sample({"part": "delay", "n": n, "source": s, "copy": c, "nxseg": nxseg, "delay": d, "gain": g, "pov": pov, "segments": nseg,
                  "fs": fs, "method": method, "level": lev, "error": e, "median_error_opposite_conjugation": float(np.median(opp[sl]))})
    return t


# ------------------------------------------------------------------------------------------------
# part C: sinusoids at a grid line

AMPS = (0.03, 1.0, 30.0)


def sine_case(item):
    """One item = one (nxseg, pov, length, fs, n, record level): every interior grid line x every amplitude tuple."""
    seed, cfg = item
    idx, n, nxseg, pov, nseg, fs = cfg[:6]
    lev = cfg[6] if len(cfg) > 6 else 1.0            # level of the whole record: amplitudes lev * AMPS
    t = Tally()
    N = int(round(nseg * nxseg))
    tt = np.arange(N)
    for k in range(1, nxseg // 2):
        for ai, amps in enumerate(itertools.product(AMPS, repeat=n)):
            t.states += 1
            case = {"part": "sine", "cfg": list(cfg), "line": k, "amps": list(amps), "seed": seed}
            ph = payload.uniform(seed, f"c13/S/{nxseg}/{k}/{ai}/{n}", n, -np.pi, np.pi)
            A = np.array(amps) * np.exp(1j * ph)
            X = np.array([a * np.cos(2 * np.pi * k * tt / nxseg + p) for a, p in zip(amps, ph)])
            if lev != 1.0:
                X = lev * X
            try:
                f, S = sd_est(X, X, 1.0 / fs, nxseg, "per", pov)
                S = np.asarray(S)
            except Exception as e:
                t.evaluations += 1
                t.violation(f"raises:{type(e).__name__}:SD_est:per", f"SD_est raised {type(e).__name__}: {e} on sinusoids {cfg} line {k}", case)
                return t
            t.evaluations += 1
            t.transitions += 1
            t.validated += 1
            t.nontrivial.add(("S", idx, k, ai))
            if S.shape != (n, n, nxseg // 2 + 1):
                t.violation("shape:per", f"per: Sy has shape {S.shape} on sinusoids; {cfg}", case)
                return t
            worst = 0.0
            for i in range(n):
                for j in range(n):
                    got = S[i, j, k] / S[i, i, k]
                    want = A[j] / A[i]
                    e = abs(got - want) / abs(want)
                    if not e <= worst:
                        worst = e
            t.err("sine:amplitude-ratio", worst)
            if not worst <= TOL_SINE:
                i, j = 0, n - 1
                t.violation("sine:per",
                            f"per: sinusoids at grid line {k} of nxseg={nxseg} (pov={pov}, {nseg} segments, fs={fs}) with amplitudes {amps} x record level {lev:g} "
                            f"(returned array {S.dtype}): "
                            f"Sy[i,j]/Sy[i,i] differs from the complex amplitude ratio a_j/a_i by {worst:.3g} (relative); "
                            f"e.g. [0,{j}]: got {S[i, j, k] / S[i, i, k]!r}, required {A[j] / A[i]!r}", case)
            else:
                t.outcomes["sine-ok"] += 1
                if rough(nxseg):
                    t.outcomes[f"rough-nxseg-ok:sine:{rough_key(nxseg)}"] += 1
                if lev != 1.0:
                    t.outcomes[f"level-ok:sine:{lev_key(lev)}"] += 1
    if idx % 23 == 0 or (lev != 1.0 and idx % 5 == 0):
        t.sample({"part": "sine", "n": n, "nxseg": nxseg, "pov": pov, "segments": nseg, "fs": fs, "level": lev, "lines": [1, nxseg // 2 - 1],
                  "amplitude_tuples": len(AMPS) ** n, "worst_error": t.max_err.get("sine:amplitude-ratio")})
    return t


# ------------------------------------------------------------------------------------------------
# part D: result.{freq,Sy} of the single-setup classes

def class_case(item):
    seed, cfg = item
    idx, cls, n, nxseg, pov, method, fs = cfg[:7]
    lev = cfg[7] if len(cfg) > 7 else 1.0            # level of the bound record
    deg = cfg[8] if len(cfg) > 8 else None           # degenerate record: (kind, channel[, second channel])
    import pyoma2.algorithms as alg
    from pyoma2.setup import SingleSetup

    t = Tally()
    t.states = 1
    case = {"part": "class", "cfg": list(cfg), "seed": seed}
    N = 6 * nxseg + nxseg // 2
    data = pay(seed, f"c13/C/{n}/{N}", (N, n)) * (1.0 + np.arange(n))
    dead, twins, zlevel = set(), [], 0.0
    if deg is not None:
        zlevel = lev * lev * density_level(data.T, data.T, 1.0 / fs)
        data = np.ascontiguousarray(degenerate(data.T, deg, seed, 1.0, nxseg)[0].T)
        dead, twins = ({deg[1]} if deg[0] == "zero" else set()), ([(deg[1], deg[2])] if deg[0] == "twin" else [])
    unit = data
    if lev != 1.0:
        data = lev * data
    kw = dict(name="a", nxseg=nxseg, method_SD=method, pov=pov)
    if cls == "pLSCF":
        kw["ordmax"] = 3
    try:
        ss = SingleSetup(data.copy(), fs=fs)
        a = getattr(alg, cls)(**kw)
        ss.add_algorithms(a)
        ss.run_by_name("a")
        f = np.asarray(a.result.freq, dtype=float)
        S = np.asarray(a.result.Sy)
    except Exception as e:
        t.evaluations += 1
        t.violation(f"raises:{type(e).__name__}:{cls}.run:{method}", f"{cls}(method_SD={method}) run raised {type(e).__name__}: {e}; {cfg}", case)
        return t
    t.evaluations += 1
    t.transitions += 1
    t.validated += 1
    t.nontrivial.add(("C", idx))
    nf = nxseg // 2 + 1
    want_f = np.arange(nf) * fs / nxseg
    if f.shape != want_f.shape or not np.all(np.abs(f - want_f) <= TOL_GRID * fs):
        t.violation(f"class:grid:{cls}:{method}", f"{cls}.result.freq is not k*fs/nxseg, k=0..nxseg/2; {cfg}", case)
        return t
    if S.shape != (n, n, nf):
        t.violation(f"class:shape:{cls}:{method}", f"{cls}.result.Sy has shape {S.shape}, required {(n, n, nf)}; {cfg}", case)
        return t
    if deg is not None:
        # degenerate record through run(): finite, zero in zero out, identical channels -> identical rows and columns (both estimators)
        dk = deg_key(deg, range(n))
        if not np.all(np.isfinite(S)):
            t.violation(f"class:non-finite:{cls}:{method}", f"{cls}.result.Sy contains {int(np.count_nonzero(~np.isfinite(S)))} non-finite entries of {S.size} "
                                                            f"for the record with the degenerate channel {list(deg)}; {cfg}", case)
            return t
        t.validated += 1
        for i in sorted(dead):
            z = max(float(np.max(np.abs(S[i, :, :]))), float(np.max(np.abs(S[:, i, :]))))
            t.err(f"class:degenerate:zero-channel-entries/density-level:{method}", z / zlevel)
            if not z <= TOL_BILIN * zlevel:
                t.violation(f"class:bilinear:zero-in-zero-out:{cls}:{method}",
                            f"{cls}.result.Sy: channel {i} of the bound record is identically zero, its row / column reaches {z:.3g} (density level of the "
                            f"record before the channel was zeroed: {zlevel:.3g}); {cfg}", case)
                return t
        for (k, l) in twins:
            e = max(float(np.max(np.abs(S[k] - S[l]))), float(np.max(np.abs(S[:, k] - S[:, l])))) / float(np.max(np.abs(S)))
            t.err(f"class:degenerate:identical-channels:{method}", e)
            if not e <= TOL_BILIN:
                t.violation(f"class:pairing:identical-channels:{cls}:{method}",
                            f"{cls}.result.Sy: channels {k} and {l} of the bound record are identical, their rows / columns differ by {e:.3g} of the "
                            f"largest entry; {cfg}", case)
                return t
    if method == "per":
        W = welch_ref(data.T, data.T, fs, nxseg, pov)
        e = relmax(S[:, :, 2:], W[:, :, 2:])
        t.err("class:welch", e)
        if not e <= TOL_WELCH:
            t.violation(f"class:welch:{cls}", f"{cls}.result.Sy differs from the Welch estimate of the bound data with the run parameters "
                                              f"(nxseg={nxseg}, pov={pov}) by {e:.3g}; {cfg}", case)
            return t
    if lev != 1.0:
        # the square law through run(): the same class on the same record at unit level (both estimators)
        try:
            ss1 = SingleSetup(unit.copy(), fs=fs)
            a1 = getattr(alg, cls)(**kw)
            ss1.add_algorithms(a1)
            ss1.run_by_name("a")
            S1 = np.asarray(a1.result.Sy)
        except Exception as e:
            t.evaluations += 1
            t.violation(f"raises:{type(e).__name__}:{cls}.run:{method}", f"{cls}(method_SD={method}) run raised {type(e).__name__}: {e}; {cfg} (unit level)", case)
            return t
        t.evaluations += 1
        t.validated += 1
        if S1.shape != S.shape:
            t.violation(f"class:shape:{cls}:{method}", f"{cls}.result.Sy has shape {S.shape} at record level {lev:g} and {S1.shape} at unit level; {cfg}", case)
            return t
        e = float(np.max(np.abs(S - lev * lev * S1))) / (lev * lev * float(np.max(np.abs(S1))))
        t.err(f"class:level:{method}", e)
        bad = False
        if not e <= TOL_LEVEL:
            bad = True
            t.violation(f"class:level:common-gain-squared:{cls}:{method}",
                        f"{cls}.result.Sy of the record x {lev:g} differs from {lev:g}^2 x result.Sy of the record by {e:.3g} of the largest entry "
                        f"(arrays {S.dtype}, largest |Im| {float(np.max(np.abs(S.imag))):.3g}, and {S1.dtype}); {cfg}", case)
        if kind(S) != kind(S1):
            bad = True
            t.violation(f"class:level:complexness:{cls}:{method}",
                        f"{cls}.result.Sy is {kind(S)} ({S.dtype}) for the record x {lev:g} and {kind(S1)} ({S1.dtype}) for the record itself; {cfg}", case)
        if bad:
            return t
        if deg is None:
            t.outcomes[f"level-ok:class:{cls}:{method}"] += 1
            t.outcomes[f"level-ok:class:{lev_key(lev)}"] += 1
    t.outcomes[f"class-ok:{cls}:{method}"] += 1
    if deg is not None:
        t.outcomes[f"degenerate-ok:class:{cls}:{deg[0]}:{method}"] += 1
    if rough(nxseg):
        t.outcomes[f"rough-nxseg-ok:class:{cls}:{method}"] += 1
    if idx % 13 == 0 or (deg is not None and idx % 5 == 0):
        t.sample({"part": "class", "class": cls, "n": n, "nxseg": nxseg, "pov": pov, "method": method, "fs": fs, "level": lev,
                  "degenerate": list(deg) if deg is not None else None})
    return t


# ------------------------------------------------------------------------------------------------
# lattices

POVS = (0.0, 0.25, 0.5, 0.75)
FSS = (0.01, 1.0, 102.4)
ROUGH_SMALL = (17, 26, 34, 39, 52, 65)           # lattice
ROUGH_LARGE = (514, 998, 1018, 1023, 4082)       # lattice
ROUGH_DELAY = (65, 130, 998, 1023)               # delays 1..nxseg//64 need nxseg >= 64
ROUGH_SINE = (17, 26, 39)
ROUGH_CLASS = (52, 65, 130, 1018)


def ref_lists(n_all, kmax):
    """reference lists of the level sub-lattice (n_all <= 4): every subset up to kmax, one descending list, data == reference"""
    subs = [list(c) for k in range(1, min(kmax, n_all) + 1) for c in itertools.combinations(range(n_all), k)]
    if n_all >= 2:
        subs.append(list(range(n_all))[::-1][:min(kmax, n_all)])
    if list(range(n_all)) not in subs:
        subs.append(list(range(n_all)))
    return subs


LEVEL_NXSEG = (16, 64, 26, 39)                   # lattice, record-level sub-lattice (quick); 39: odd, periodogram only
LEVEL_NXSEG_T = (16, 64, 256, 26, 39, 130)


def with_quick(build, thorough):
    """level sub-lattice of a part: the quick tier's points, in the thorough tier followed by the thorough ones not among them (the rotations
    of the two tiers differ, so that the thorough list alone would not contain the quick one)"""
    out = list(build(False))
    if thorough:
        seen = {repr(c) for c in out}
        out += [c for c in build(True) if repr(c) not in seen]
    return out


def level_points(thorough):
    """Base records at the levels of LEVELS: channels 1..3 (thorough ..4) x every reference list x segment lengths (two powers of two, two
    with a prime factor >= 13) x estimator x level. quick: overlap, length and fs rotate over (level, reference list, nxseg) so that every
    level meets every fs, both lengths and both overlaps on every estimator; thorough: every overlap, length and fs rotating."""
    out = []
    for n_all in (range(1, 5) if thorough else range(1, 4)):
        for ri, refs in enumerate(ref_lists(n_all, 4 if thorough else 3)):
            for xi, nxseg in enumerate(LEVEL_NXSEG_T if thorough else LEVEL_NXSEG):
                povs = ROUGH_POV[nxseg] if nxseg in ROUGH_POV else POVS
                nsegs = (2, 3, 5.5)
                for li, lev in enumerate(LEVELS):
                    r = li + ri + xi + n_all
                    if thorough:
                        combos = [(pov, nsegs[(r + pi) % 3], FSS[(r // 3 + pi) % 3]) for pi, pov in enumerate(povs)]
                    else:
                        combos = [(povs[r % 2], (2, 5.5)[(r // 2) % 2], FSS[r % 3])]
                    for pov, nseg, fs in combos:
                        for method in (("per", "cor") if nxseg % 2 == 0 else ("per",)):
                            out.append((None, n_all, refs, nxseg, pov, nseg, fs, method, lev))
    return out


DEG_NXSEG = (16, 64, 26, 39)                     # lattice, degenerate-record sub-lattice (quick); 39: odd, periodogram only
DEG_NXSEG_T = (16, 64, 256, 26, 39, 130)


def deg_kinds(n_all, refs):
    """every degenerate record of n_all channels with the reference list refs: kind x channel (x second channel)"""
    out = []
    for k in range(n_all):
        out += [("zero", k), ("const", k), ("spike", k)]
    out += [("zero-ref", j) for j in range(len(refs))]
    out += [("twin", k, l) for k in range(n_all) for l in range(k + 1, n_all)]
    return out


def degenerate_points(thorough):
    """Degenerate records: channels 1..3 (thorough ..4) x every reference list x every (kind, channel) x segment lengths (two powers of two,
    two with a prime factor >= 13) x estimator. quick: overlap, length, fs and record level rotate over (kind and channel, reference list,
    nxseg, channels); thorough: every overlap up to 2 channels, two overlaps beyond (rotating), the others rotating. The far common gain is evaluated on every point (1/level, or rotating
    over LEVELS at unit level)."""
    out = []
    for n_all in (range(1, 5) if thorough else range(1, 4)):
        for ri, refs in enumerate(ref_lists(n_all, 4 if thorough else 3)):
            for ki, deg in enumerate(deg_kinds(n_all, refs)):
                for xi, nxseg in enumerate(DEG_NXSEG_T if thorough else DEG_NXSEG):
                    povs = ROUGH_POV[nxseg] if nxseg in ROUGH_POV else POVS
                    r = ki + ri + xi + n_all
                    some = (povs[r % len(povs)],) if not thorough else povs if n_all <= 2 else (povs[r % len(povs)], povs[(r + 1) % len(povs)])
                    for pi, pov in enumerate(some):
                        nseg = (2, 3, 5.5)[(r // 2 + pi) % 3]
                        fs = FSS[(r + pi) % 3]
                        lev = DEG_LEVELS[(r // 3 + pi) % len(DEG_LEVELS)]
                        far = 1.0 / lev if lev != 1.0 else LEVELS[(r + pi) % len(LEVELS)]
                        for method in (("per", "cor") if nxseg % 2 == 0 else ("per",)):
                            out.append((None, n_all, refs, nxseg, pov, nseg, fs, method, lev, far, deg))
    return out


def lattice(thorough):
    """(idx, n_all, refs, nxseg, pov, nseg, fs, method, level of the base records, far common gain or None[, degenerate record])"""
    base = lattice_unit(thorough)
    full = base if thorough else lattice_unit(True)      # axis positions are taken in the thorough lattice: G is the same in both tiers
    xs = sorted({c[3] for c in full})
    ps = {x: sorted({c[4] for c in full if c[3] == x}) for x in xs}
    ss = sorted({c[5] for c in full})
    out = []
    for c in base:
        # unit-level points: the square law for a far common gain G on every point (thorough) / on one point in three (quick), chosen and
        # rotated by the axis positions (so that every G meets every estimator, fs, overlap, length, nxseg and number of channels)
        _, n_all, refs, nxseg, pov, nseg, fs, method = c
        mi, fi = ("per", "cor").index(method), FSS.index(fs)
        r = ps[nxseg].index(pov) + ss.index(nseg) + xs.index(nxseg) + n_all + len(refs) + refs[0]
        far = LEVELS[(r // 3 + mi + fi) % len(LEVELS)] if (thorough or (r + mi) % 3 == 0) else None
        out.append(tuple(c) + (1.0, far))
    for c in with_quick(level_points, thorough):
        out.append((len(out),) + tuple(c[1:]) + (1.0 / c[8],))       # records at level L: common gain 1/L, back to unit level
    for c in with_quick(degenerate_points, thorough):
        out.append((len(out),) + tuple(c[1:]))
    return out


def lattice_unit(thorough):
    out = []
    chans = range(1, 9) if thorough else range(1, 5)
    for n_all in chans:
        kmax = 4 if thorough else 3
        if n_all <= 4:
            subs = [list(c) for k in range(1, min(kmax, n_all) + 1) for c in itertools.combinations(range(n_all), k)]
            if n_all >= 2:
                subs.append(list(range(n_all))[::-1][:min(kmax, n_all)])      # one descending list: order as given
        else:
            # covering set beyond 4 channels: leading, trailing, spread, descending
            subs = [[0], [n_all - 1], [0, n_all - 1], [1, 3, n_all - 1], [n_all - 1, 2, 0], list(range(4)), [n_all - 1, n_all - 2, 1, 0]]
        if list(range(n_all)) not in subs:
            subs.append(list(range(n_all)))                                   # data == reference
        for refs in subs:
            for nxseg in ((16, 32, 64, 256, 1024, 4096) if thorough else (16, 32, 64, 256)):
                for pi, pov in enumerate(POVS):
                    for si, nseg in enumerate((2, 3, 5.5)):
                        for fi, fs in enumerate(FSS):
                            if thorough and nxseg >= 1024 and (n_all > 4 and fs != 1.0):
                                continue
                            if not thorough and nxseg > 16 and fi != (pi + si + len(refs)) % 3:
                                continue        # quick: every fs at nxseg 16; beyond, fs rotates over (overlap, length, references)
                            for method in ("per", "cor"):
                                out.append((len(out), n_all, refs, nxseg, pov, nseg, fs, method))
            # one LONG record per estimator (channels x references x samples above 2**22): record length is part of the quantifier
            if n_all == 4 and refs == [0, 1, 2, 3] and not any(c[1] == 4 and c[5] > 4000 for c in out):
                out.append((len(out), 4, refs, 64, 0.5, 4100, 1.0, "per"))
                out.append((len(out), 4, refs, 64, 0.5, 4100, 1.0, "cor"))
            # decimal overlap fractions on segment lengths that are not powers of two (nxseg*pov is an integer, but 1 - pov is not
            # exactly representable: a hop computed as int(nxseg*(1-pov)) would be one sample short)
            if n_all <= (4 if thorough else 3):
                for nxseg in (20, 100):
                    for pi, pov in enumerate((0.3, 0.7, 0.8, 0.9)):
                        for si, nseg in enumerate((3, 5.5)):
                            fs = FSS[(pi + si + len(refs)) % 3]
                            out.append((len(out), n_all, refs, nxseg, pov, nseg, fs, "per"))
            # odd segment lengths (periodogram only): the last line is not Nyquist and must be doubled like the others
            if n_all <= (4 if thorough else 3):
                for nxseg in (25, 75):
                    for pi, pov in enumerate((0.0, 0.2, 0.6)):
                        for si, nseg in enumerate((2, 3, 5.5)):
                            fs = FSS[(pi + si + len(refs)) % 3]
                            out.append((len(out), n_all, refs, nxseg, pov, nseg, fs, "per"))
            # segment lengths with a prime factor >= 13, small (every reference list) and large (reference lists: all channels in
            # both orders; thorough also the last channel alone); both estimators for the even ones, periodogram for the odd ones;
            # quick leaves out 34 and 514
            if n_all <= (4 if thorough else 3):
                for nxseg in ROUGH_SMALL + ROUGH_LARGE:
                    if nxseg in ROUGH_LARGE and not (len(refs) == n_all or (thorough and refs == [n_all - 1])):
                        continue
                    if not thorough and nxseg in (34, 514):
                        continue
                    for pi, pov in enumerate(ROUGH_POV[nxseg]):
                        for si, nseg in enumerate((2, 3, 5.5) if thorough else (2, 5.5)):
                            fs = FSS[(pi + si + len(refs)) % 3]
                            for method in (("per", "cor") if nxseg % 2 == 0 else ("per",)):
                                out.append((len(out), n_all, refs, nxseg, pov, nseg, fs, method))
    return out


def delay_lattice(thorough):
    out = []
    places = [(2, 0, 1), (2, 1, 0), (3, 0, 2), (3, 2, 1)]
    for nxseg in ((64, 256, 1024, 4096) if thorough else (64, 256)):
        dmax = nxseg // 64
        ds = range(1, dmax + 1) if dmax <= 16 else sorted(set(list(range(1, 9)) + [12, 16, 24, 32, 48, 63, 64]))
        for d in ds:
            for g in (0.1, -0.1, 1.0, -1.0, 10.0, -10.0):
                for pov in (POVS if thorough else (0.0, 0.5)):
                    for nseg in (60, 100):
                        if nxseg == 4096 and nseg == 100:
                            continue
                        for fs in (0.01, 102.4):
                            for method in ("per", "cor"):
                                for (n, s, c) in (places if nxseg <= 256 else places[1:3]):
                                    out.append((len(out), n, s, c, nxseg, d, g, pov, nseg, fs, method))
    # segment lengths with a prime factor >= 13 (odd ones: periodogram only). thorough: every delay 1..nxseg//64 (beyond nxseg 256: 1, 2, 4, 8, 12, nxseg//64), every overlap of
    # ROUGH_POV, 60 and 100 segments, both fs; quick: the two ends of the delay range, the first two overlaps, 60 segments (the shorter,
    # i.e. noisier, record), fs alternating over (gain, delay)
    for nxseg in ROUGH_DELAY:
        dmax = nxseg // 64
        ds = sorted({1, dmax}) if not thorough else range(1, dmax + 1) if nxseg <= 256 else sorted({1, 2, 4, 8, 12, dmax})
        for di, d in enumerate(ds):
            for gi, g in enumerate((0.1, -0.1, 1.0, -1.0, 10.0, -10.0)):
                for pov in (ROUGH_POV[nxseg] if thorough else ROUGH_POV[nxseg][:2]):
                    for nseg in ((60, 100) if thorough else (60,)):
                        for fi, fs in enumerate((0.01, 102.4)):
                            if not thorough and fi != (gi + di) % 2:
                                continue
                            for method in (("per", "cor") if nxseg % 2 == 0 else ("per",)):
                                for (n, s, c) in (places if nxseg <= 256 else places[1:3]):
                                    out.append((len(out), n, s, c, nxseg, d, g, pov, nseg, fs, method))
    # one long record per estimator (3 x 3 x 480 000 samples > 2**22)
    for method in ("per", "cor"):
        out.append((len(out), 3, 0, 2, 64, 1, -10.0, 0.0, 7500, 100.0, method))
    for c in with_quick(delay_level_points, thorough):
        out.append((len(out),) + c)
    return out


def delay_level_points(thorough):
    out = []
    places = [(2, 0, 1), (2, 1, 0), (3, 0, 2), (3, 2, 1)]
    # record level: the whole record (source, copy, bystander) x LEVELS; every gain x every level x both ends of the delay range (thorough:
    # every delay up to 16, then 1, 2, 4, 8, 12, nxseg//64) x estimator on two powers of two and two lengths with a prime factor >= 13 (65: odd,
    # periodogram only); 60 segments (the noisier record), half overlap (thorough: also none); fs and placement rotate over (gain, delay, level)
    for xi, nxseg in enumerate((64, 256, 1024, 65, 130, 998) if thorough else (64, 256, 65, 130)):
        dmax = nxseg // 64
        ds = sorted({1, dmax}) if not thorough else range(1, dmax + 1) if nxseg <= 256 else sorted({1, 2, 4, 8, 12, dmax})
        povs = ROUGH_POV[nxseg][:2] if nxseg in ROUGH_POV else (0.0, 0.5)
        for di, d in enumerate(ds):
            for gi, g in enumerate((0.1, -0.1, 1.0, -1.0, 10.0, -10.0)):
                for li, lev in enumerate(LEVELS):
                    for pov in (povs if thorough else povs[1:]):
                        fs = (0.01, 102.4)[(gi // 2 + di + li) % 2]
                        n, s, c = places[(gi + di + li + xi) % len(places)]
                        for method in (("per", "cor") if nxseg % 2 == 0 else ("per",)):
                            out.append((n, s, c, nxseg, d, g, pov, 60, fs, method, lev))
    return out


def sine_lattice(thorough):
    out = []
    for n in (2, 3):
        for nxseg in (16, 32, 64):
            for pi, pov in enumerate(POVS):
                for si, nseg in enumerate((2, 3, 5.5)):
                    for fi, fs in enumerate(FSS):
                        if not thorough and nxseg > 16 and fi != (pi + si + n) % 3:
                            continue            # quick: every fs at nxseg 16; beyond, fs rotates over (overlap, length, channels)
                        out.append((len(out), n, nxseg, pov, nseg, fs))
        # segment lengths with a prime factor >= 13, even and odd (odd nxseg: lines 1..(nxseg-3)/2; the last line (nxseg-1)/2 is the
        # neighbour of Nyquist, where the mirror image of a real sinusoid falls inside the Hann main lobe: not "away from Nyquist")
        for nxseg in ROUGH_SINE:
            for pi, pov in enumerate(ROUGH_POV[nxseg] if thorough else ROUGH_POV[nxseg][:2]):
                for si, nseg in enumerate((2, 3, 5.5) if thorough else (2, 5.5)):
                    for fi, fs in enumerate(FSS):
                        if not thorough and fi != (pi + si + n) % 3:
                            continue
                        out.append((len(out), n, nxseg, pov, nseg, fs))
    for c in with_quick(sine_level_points, thorough):
        out.append((len(out),) + c)
    return out


def sine_level_points(thorough):
    out = []
    # record level: amplitudes LEVELS x AMPS (every line, every amplitude tuple) on one power of two, one even and one odd length with a
    # prime factor >= 13 (thorough: also 32); overlap, length and fs rotate over (level, channels, nxseg) (thorough: every overlap)
    for n in (2, 3):
        for xi, nxseg in enumerate((16, 26, 17, 32) if thorough else (16, 26, 17)):
            povs = ROUGH_POV[nxseg] if nxseg in ROUGH_POV else POVS
            for li, lev in enumerate(LEVELS):
                r = li + xi + n
                for pi, pov in enumerate(povs if thorough else (povs[r % len(povs)],)):
                    out.append((n, nxseg, pov, (2, 3, 5.5)[(li + 2 * xi + n + pi) % 3], FSS[(r + pi) % 3], lev))
    return out


def class_lattice(thorough):
    out = []
    for cls in ("FDD", "EFDD", "FSDD", "pLSCF"):
        for n in ((2, 3, 5) if thorough else (2, 3)):
            for nxseg in ((64, 256, 1024) if thorough else (64, 256)):
                for pov in (POVS if thorough else (0.25, 0.5)):
                    for method in ("per", "cor"):
                        out.append((len(out), cls, n, nxseg, pov, method, 50.0))
    # segment lengths with a prime factor >= 13 (odd: periodogram only); thorough: every overlap of ROUGH_POV, quick: one overlap per
    # (class, channels, nxseg), rotating
    for ci, cls in enumerate(("FDD", "EFDD", "FSDD", "pLSCF")):
        for ni, n in enumerate((2, 3, 5) if thorough else (2, 3)):
            for xi, nxseg in enumerate(ROUGH_CLASS):
                povs = ROUGH_POV[nxseg]
                for pov in (povs if thorough else (povs[(ci + ni + xi) % len(povs)],)):
                    for method in (("per", "cor") if nxseg % 2 == 0 else ("per",)):
                        out.append((len(out), cls, n, nxseg, pov, method, 50.0))
    for c in with_quick(class_level_points, thorough):
        out.append((len(out),) + c)
    for c in with_quick(class_degenerate_points, thorough):
        out.append((len(out),) + c)
    return out


CLASS_DEG_KINDS = {"FDD": ("zero", "const", "spike", "twin"), "EFDD": ("zero", "const", "spike", "twin"), "FSDD": ("zero", "const", "spike", "twin"),
                   "pLSCF": ("spike",)}      # pLSCF: the identification needs a non-singular spectral matrix (see ASSUMPTIONS)


def class_degenerate_points(thorough):
    out = []
    # degenerate bound record: class x kind x estimator on a power of two and a length with a prime factor >= 13 (thorough: also 256 and the odd
    # 65, periodogram only); quick: channels, position of the degenerate channel, overlap and record level rotate; thorough: every channel
    # count and every position (twin: every pair; 5 channels: two positions / pairs, rotating), overlap and level rotating. One point in three is at a record level other than 1 (the square
    # law through run() against the same degenerate record at unit level)
    for ci, cls in enumerate(("FDD", "EFDD", "FSDD", "pLSCF")):
        for di, kind_ in enumerate(CLASS_DEG_KINDS[cls]):
            for xi, nxseg in enumerate((64, 52, 256, 65) if thorough else (64, 52)):
                povs = ROUGH_POV[nxseg] if nxseg in ROUGH_POV else POVS
                for ni, n in enumerate((2, 3, 5) if thorough else ((2, 3)[(ci + di + xi) % 2],)):
                    if kind_ == "twin":
                        degs = [("twin", k, l) for k in range(n) for l in range(k + 1, n)]
                    else:
                        degs = [(kind_, k) for k in range(n)]
                    if not thorough:
                        degs = [degs[(ci + 2 * di + xi) % len(degs)]]
                    elif n > 3:
                        degs = [degs[(ci + 2 * di + xi) % len(degs)], degs[(ci + 2 * di + xi + len(degs) // 2) % len(degs)]]
                    for gi, deg in enumerate(degs):
                        r = ci + di + xi + ni + gi
                        pov = povs[r % len(povs)]
                        lev = LEVELS[(r // 3) % len(LEVELS)] if r % 3 == 0 else 1.0
                        for method in (("per", "cor") if nxseg % 2 == 0 else ("per",)):
                            out.append((cls, n, nxseg, pov, method, 50.0, lev, deg))
    return out


def class_level_points(thorough):
    out = []
    # record level: the bound record x LEVELS, every class x estimator x level on a power of two and a length with a prime factor >= 13
    # (thorough: also 256 and the odd 65, periodogram only); channels and overlap rotate (thorough: every channel count)
    for ci, cls in enumerate(("FDD", "EFDD", "FSDD", "pLSCF")):
        for xi, nxseg in enumerate((64, 52, 256, 65) if thorough else (64, 52)):
            povs = ROUGH_POV[nxseg] if nxseg in ROUGH_POV else POVS
            for li, lev in enumerate(LEVELS):
                for ni, n in enumerate((2, 3, 5) if thorough else ((2, 3)[(ci + xi + li) % 2],)):
                    pov = povs[(ci + xi + li + ni) % len(povs)]
                    for method in (("per", "cor") if nxseg % 2 == 0 else ("per",)):
                        out.append((cls, n, nxseg, pov, method, 50.0, lev))
    return out


def explore(ctx):
    L = lattice(ctx.thorough)
    D = delay_lattice(ctx.thorough)
    S = sine_lattice(ctx.thorough)
    C = class_lattice(ctx.thorough)
    LD = [c for c in L if len(c) > 10]               # degenerate records
    CD = [c for c in C if len(c) > 8]
    L_all, L = L, [c for c in L if len(c) <= 10]     # the bounds below describe the payload records; the degenerate ones have their own entry
    ctx.bounds = {
        "lattice": {"points": len(L_all), "channels": sorted({c[1] for c in L}), "reference_lists": sorted({tuple(c[2]) for c in L})[:80],
                    "nxseg": sorted({c[3] for c in L}), "pov": list(POVS), "length_in_segments": [2, 3, 5.5], "fs": list(FSS),
                    "nxseg_with_prime_factor>=13": {str(k): {"pov": sorted({c[4] for c in L if c[3] == k}),
                                                             "methods": sorted({c[7] for c in L if c[3] == k}),
                                                             "points": sum(1 for c in L if c[3] == k)}
                                                    for k in sorted({c[3] for c in L if rough(c[3])})},
                    "fs_note": "thorough: full product (nxseg >= 1024 with > 4 channels: fs = 1 only); quick: full product at nxseg 16, beyond "
                               "that one fs per point, rotating over (overlap, length, number of references) so that every fs meets every value of each",
                    "methods": ["per", "cor"], "library_calls_per_point": "7, and 8 where the far common gain is evaluated",
                    "points_with_payload_records": len(L), "points_with_degenerate_records": len(LD),
                    "degenerate_records": {"points": len(LD), "kinds": list(DEG_KINDS),
                                           "kind_x_channel": sorted({tuple(c[10]) for c in LD}),
                                           "points_per_kind": {k: sum(1 for c in LD if deg_key(c[10], c[2]) == k)
                                                               for k in sorted({deg_key(c[10], c[2]) for c in LD})},
                                           "channels": sorted({c[1] for c in LD}), "reference_lists": sorted({tuple(c[2]) for c in LD}),
                                           "nxseg": sorted({c[3] for c in LD}), "pov": sorted({c[4] for c in LD}),
                                           "length_in_segments": sorted({c[5] for c in LD}), "fs": sorted({c[6] for c in LD}),
                                           "methods": sorted({c[7] for c in LD}), "record_levels": sorted({c[8] for c in LD}),
                                           "whole_record_zero_or_constant": sum(1 for c in LD if c[1] == 1 and c[10][0] in ("zero", "const")),
                                           "far_common_gain": "every point (1/level, or rotating over the levels at unit level)",
                                           "constant_and_one-sample_values": "payload, modulus 0.2..1 (x3 for the single sample), either sign, x record level; "
                                                                             "the single sample sits at nxseg//2 + 1 + channel (inside the first segment)"},
                    "record_level": {"levels": [1.0] + list(LEVELS),
                                     "points_with_base_records_at_a_level_other_than_1": sum(1 for c in L if c[8] != 1.0),
                                     "channels": sorted({c[1] for c in L if c[8] != 1.0}),
                                     "reference_lists": sorted({tuple(c[2]) for c in L if c[8] != 1.0}),
                                     "nxseg": sorted({c[3] for c in L if c[8] != 1.0}), "pov": sorted({c[4] for c in L if c[8] != 1.0}),
                                     "length_in_segments": sorted({c[5] for c in L if c[8] != 1.0}), "fs": sorted({c[6] for c in L if c[8] != 1.0}),
                                     "far_common_gain": {"unit-level points": "G in levels, rotating; thorough every point, quick every third",
                                                         "points at level L": "G = 1/L",
                                                         "points_evaluated": sum(1 for c in L if c[9] is not None)}}},
        "delay": {"points": len(D), "nxseg": sorted({c[4] for c in D}), "delays": "1..nxseg/64 (all up to 16, then 1..8,12,16,24,32,48,63,64)",
                  "gains": [0.1, -0.1, 1.0, -1.0, 10.0, -10.0], "pov": sorted({c[7] for c in D}), "segments": [60, 100], "fs": [0.01, 102.4],
                  "nxseg_with_prime_factor>=13": {str(k): {"delays": sorted({c[5] for c in D if c[4] == k}), "pov": sorted({c[7] for c in D if c[4] == k}),
                                                           "methods": sorted({c[10] for c in D if c[4] == k}),
                                                           "points": sum(1 for c in D if c[4] == k)}
                                                  for k in sorted({c[4] for c in D if rough(c[4])})},
                  "placements(n,source,copy)": [(2, 0, 1), (2, 1, 0), (3, 0, 2), (3, 2, 1)], "methods": ["per", "cor"],
                  "record_level": {"levels": [1.0] + list(LEVELS), "points_at_a_level_other_than_1": sum(1 for c in D if len(c) > 11),
                                   "nxseg": sorted({c[4] for c in D if len(c) > 11}), "delays": sorted({c[5] for c in D if len(c) > 11}),
                                   "gains": sorted({c[6] for c in D if len(c) > 11}), "pov": sorted({c[7] for c in D if len(c) > 11}),
                                   "segments": sorted({c[8] for c in D if len(c) > 11}), "fs": sorted({c[9] for c in D if len(c) > 11})}},
        "sine": {"items": len(S), "nxseg": sorted({c[2] for c in S}), "lines": "every k in 1..floor(nxseg/2)-1", "amplitudes": list(AMPS), "channels": [2, 3],
                 "amplitude_tuples": "all of amplitudes^channels", "pov": list(POVS), "length_in_segments": [2, 3, 5.5], "fs": list(FSS),
                 "nxseg_with_prime_factor>=13": {str(k): {"pov": sorted({c[3] for c in S if c[2] == k}), "items": sum(1 for c in S if c[2] == k)}
                                                 for k in sorted({c[2] for c in S if rough(c[2])})},
                 "record_level": {"levels": [1.0] + list(LEVELS), "items_at_a_level_other_than_1": sum(1 for c in S if len(c) > 6),
                                  "nxseg": sorted({c[2] for c in S if len(c) > 6}), "channels": sorted({c[1] for c in S if len(c) > 6}),
                                  "amplitudes": "level x amplitudes, every tuple, every interior line"}},
        "classes": {"points": len(C), "classes": ["FDD", "EFDD", "FSDD", "pLSCF"], "channels": sorted({c[2] for c in C}),
                    "nxseg": sorted({c[3] for c in C}), "pov": sorted({c[4] for c in C}), "methods": ["per", "cor"],
                    "nxseg_with_prime_factor>=13": {str(k): sum(1 for c in C if c[3] == k) for k in sorted({c[3] for c in C if rough(c[3])})},
                    "record_level": {"levels": [1.0] + list(LEVELS), "points_at_a_level_other_than_1": sum(1 for c in C if len(c) > 7),
                                     "nxseg": sorted({c[3] for c in C if len(c) > 7}), "channels": sorted({c[2] for c in C if len(c) > 7}),
                                     "oracle": "Welch ('per') and result.Sy(level x record) = level^2 result.Sy(record), same class, both estimators"},
                    "degenerate_records": {"points": len(CD), "class_x_kind": sorted({(c[1], c[8][0]) for c in CD}),
                                           "kind_x_channel": sorted({tuple(c[8]) for c in CD}), "channels": sorted({c[2] for c in CD}),
                                           "nxseg": sorted({c[3] for c in CD}), "pov": sorted({c[4] for c in CD}),
                                           "record_levels": sorted({c[7] for c in CD}), "methods": sorted({c[5] for c in CD}),
                                           "oracle": "finite, zero in zero out, identical channels -> identical rows and columns (both estimators), Welch ('per'), "
                                                     "square law at a level other than 1"}},
    }
    L = L_all
    # payload records are generated once, before the workers are forked
    for c in L:
        N = int(round(c[5] * c[3]))
        pay(ctx.seed, f"c13/X1/{c[1]}/{N}", (c[1], N))
        pay(ctx.seed, f"c13/X2/{c[1]}/{N}", (c[1], N))
        pay(ctx.seed, f"c13/R2/{len(c[2])}/{N}", (len(c[2]), N))
    for c in D:
        pay(ctx.seed, f"c13/D/{c[1]}/{c[8] * c[4]}", (c[1], c[8] * c[4]))
    ctx.pmap(delay_case, [(ctx.seed, c) for c in sorted(D, key=lambda c: -c[4] * c[8])], chunksize=4)
    ctx.pmap(lattice_case, [(ctx.seed, c) for c in sorted(L, key=lambda c: -c[3] * c[5] * c[1])], chunksize=8)
    ctx.pmap(sine_case, [(ctx.seed, c) for c in sorted(S, key=lambda c: -c[1] ** 3 * c[2])], chunksize=1)
    ctx.pmap(class_case, [(ctx.seed, c) for c in C], chunksize=2)
    ctx.require("grid-ok:per", "grid-ok:cor", "bilinear-ok:per", "bilinear-ok:cor", "welch-equal", "hermitian-ok", "psd-ok",
                "delay-ok:per", "delay-ok:cor", "delay:opposite-conjugation-would-fail:per", "delay:opposite-conjugation-would-fail:cor",
                "sine-ok", "class-ok:FDD:per", "class-ok:EFDD:per", "class-ok:FSDD:per", "class-ok:pLSCF:per", "class-ok:FDD:cor",
                "class-ok:pLSCF:cor")
    # vacuity monitors of the segment lengths with a prime factor >= 13: every part, both parities, both estimators where defined
    ctx.require("rough-nxseg-ok:lattice:per:even", "rough-nxseg-ok:lattice:per:odd", "rough-nxseg-ok:lattice:cor:even",
                "rough-nxseg-ok:delay:per:even", "rough-nxseg-ok:delay:per:odd", "rough-nxseg-ok:delay:cor:even",
                "rough-nxseg-ok:sine:even", "rough-nxseg-ok:sine:odd",
                *[f"rough-nxseg-ok:class:{c}:per" for c in ("FDD", "EFDD", "FSDD", "pLSCF")],
                "rough-nxseg-ok:class:FDD:cor", "rough-nxseg-ok:class:pLSCF:cor")
    # vacuity monitors of the record level: every level on every part and estimator, every far common gain, every class
    ctx.require(*[f"level-ok:lattice:{m}:{lev_key(v)}" for m in ("per", "cor") for v in LEVELS],
                *[f"level-ok:lattice:hermitian-psd-parseval:{lev_key(v)}" for v in LEVELS],
                *[f"far-gain-ok:{m}:G={lev_key(v)}" for m in ("per", "cor") for v in LEVELS],
                "far-gain-ok:per:G=1/level", "far-gain-ok:cor:G=1/level",
                *[f"level-ok:delay:{m}:{lev_key(v)}" for m in ("per", "cor") for v in LEVELS],
                *[f"level-ok:sine:{lev_key(v)}" for v in LEVELS],
                *[f"level-ok:class:{c}:{m}" for c in ("FDD", "EFDD", "FSDD", "pLSCF") for m in ("per", "cor")],
                *[f"level-ok:class:{lev_key(v)}" for v in LEVELS])
    # vacuity monitors of the degenerate records: every kind on both estimators through SD_est (a dead channel as data only, as reference
    # only, as both), Hermitian/PSD with a degenerate channel, a record that is zero / constant as a whole, and through run() of the classes
    deg_keys = ("zero:data-only", "zero:reference-only", "zero:data+reference", "const", "spike", "twin")
    ctx.require(*[f"degenerate-ok:lattice:{k}:{m}" for k in deg_keys for m in ("per", "cor")],
                *[f"degenerate-entries-ok:{k}:{m}" for k in deg_keys for m in ("per", "cor")],
                *[f"degenerate-ok:lattice:hermitian-psd:{k}" for k in ("zero:data+reference", "const", "spike", "twin")],
                *[f"degenerate-ok:lattice:whole-record-{w}:{m}" for w in ("zero", "constant") for m in ("per", "cor")],
                "parseval-not-formed:no-channel-with-non-zero-mean-square",
                *[f"degenerate-ok:class:{c}:{k}:{m}" for c in ("FDD", "EFDD", "FSDD", "pLSCF") for k in CLASS_DEG_KINDS[c] for m in ("per", "cor")])
    if not any(k.startswith("parseval-ok") for k in ctx.tally.outcomes):
        ctx.require("parseval-ok")


def replay(case):
    part = case["part"]
    cfg = case["cfg"]
    seed = case["seed"]
    if part == "lattice":
        return lattice_case((seed, tuple(cfg)))
    if part == "delay":
        return delay_case((seed, tuple(cfg)))
    if part == "class":
        return class_case((seed, tuple(cfg)))
    if part == "sine":
        # re-run the item's whole line/amplitude sweep; the violation class is the same
        return sine_case((seed, tuple(cfg)))
    raise ValueError(part)
