"""C04 - PreGER spectral merging is consistent with the single-setup spectral matrix.

One simultaneous payload recording is cut into setups that share its reference channels. For every layout
(channel count, number of references, composition of the roving channels into setups), estimator, segment
length, overlap, record length and per-setup gain vector the merged matrix of `fdd.SD_PreGER` is compared with
  (i)   the single-setup matrix `SD_est(all sensors in merged order, references)` (all gains 1),
  (ii)  the general relation of the statement: reference block = mean over setups of the reference blocks, each
        roving block = that setup's roving-to-reference transmissibility applied to that mean,
  (iii) scaling one setup changes only the mean reference block (by (g^2-1)/n_setup times that setup's block); the
        transmissibilities read back from the merged matrix stay what they were.
(ii) and (iii) are also walked with the setups cut from DIFFERENT stretches of a longer recording (reference blocks that
do not commute), where (i) does not apply.
The class route (`MultiSetup_PreGER` + `FDD_MS` / `EFDD_MS` / `pLSCF_MS`, `result.{freq,Sy}`) is walked over every
placement of the references inside each setup's channel list.
The segment-length axis holds powers of two AND lengths that are not (odd: 65, 127, ...; even: 100) on both routes: on every
point the returned frequency vector has to be the single-setup grid k*fs/nxseg, k = 0..floor(nxseg/2) (for an odd nxseg the
last line lies below fs/2, and nxseg*pov is not an integer).
Several algorithm instances on ONE multi-setup object (the shared route): for every layout one `MultiSetup_PreGER` object carries
3..5 `FDD_MS` / `EFDD_MS` / `pLSCF_MS` instances that differ in exactly one setting (the overlap, the estimator, or the segment
length); they are run by `run_all`, then again one by one in reversed order with `run_by_name` on the same object, and by `run_all`
on a second object they were added to one at a time in reversed order. After every pass EVERY instance's `result.{freq,Sy}` is
judged exactly as on the class route, against the single-setup matrix for ITS OWN settings.
"""
import itertools

import numpy as np

from mc import payload
from mc.core import Tally

ID = "C04"
TECHNIQUE = ("exhaustive walk of the configuration lattice (layout, estimator, segment length, overlap, length, per-setup "
             "gains, reference placement, class, several differently-set algorithm instances on one multi-setup object x run order) "
             "around a payload recording; oracle on every point: the single-setup "
             "spectral matrix and the mean/transmissibility relations of the statement, line by line")
LEVEL_TEXT = ("bounded-exhaustive over the stated lattice; the quantifier over all recordings is covered by one payload "
              "recording per (seed, channel count, length); SD_est is the reference of this property (it is decided by C13); besides the overlaps "
              "0, 1/4, 1/2, 3/4 the function route walks the decimal overlaps 0.3, 0.6, 0.7, 2/3 on EVERY segment length 40..100 (thorough 20..140), "
              "where the number of overlapping samples is decided at a floor boundary")
RULE = ("function route: one case = (channels, references, composition of roving channels into setups, estimator, nxseg, "
        "overlap, length, gain vector); class route: one case = (class, layout, placement of the references in every "
        "setup's channel list, estimator, overlap, gain vector); shared route: one case = (layout, placement, the setting that "
        "differs, the list of algorithm instances on the one object, gain vector, pass, instance) - always non-trivial (>= 3 "
        "instances with different settings share the object). Function and class route: non-trivial iff at least one setup has a gain != 1 or "
        "the overlap differs from the library default 0.5 or the references are not the leading columns of every setup or "
        "the setups come from different stretches of the recording "
        "(otherwise the call cannot tell forwarding/ordering faults from correct behaviour)")
ASSUMPTIONS = [
    "fdd.SD_est is the single-setup reference estimator of the statement (decided separately by C13)",
    "line 0 is not judged (segment-mean removal makes the reference block singular there); other lines are judged where "
    "the per-setup and the mean reference block, computed with SD_est from the known recording, have cond <= 1e6",
    "tolerance 1e-8 relative to the largest entry of the block at that line (observed 4e-16 on the repaired tree)",
    "every setup has at least one roving channel; merged order = references, then roving channels in setup order",
    "segment lengths: powers of two plus odd (65, 127; thorough also 255, 2047) and even non-power-of-two (100) values, on the "
    "function route and on the class route; the 'same frequency grid' clause is judged on every point against both "
    "k*fs/nxseg (k = 0..floor(nxseg/2)) and the vector SD_est returns for the single-setup estimate",
    "shared route: the instances on one MultiSetup_PreGER object differ in exactly one of (overlap, estimator, segment length) "
    "(a pLSCF_MS member repeats the setting of one FDD member); the orders walked are: added order (run_all), reversed "
    "(run_by_name on the same object, i.e. every instance is run a second time after the others), reversed addition order on "
    "a fresh object (run_all); all k! orders are not walked",
]

NXSEG_ODD_QUICK = (65, 127)             # odd segment lengths: the last line is below fs/2, nxseg*pov is not an integer
NXSEG_ODD_THOROUGH = (65, 127, 255, 2047)
NXSEG_EVEN_NP2 = (100,)                 # even, not a power of two

# decimal overlaps on every segment length of a range: nxseg*pov sits at / next to a whole number of samples for many of these pairs
# (k/nxseg*nxseg is not always k in floating point), so the number of overlapping samples is decided at a floor boundary
DEC_POVS = (0.3, 0.6, 0.7, 2 / 3)
DEC_NXSEG_QUICK = tuple(range(40, 101))
DEC_NXSEG_THOROUGH = tuple(range(20, 141))

TOL = 1e-8
COND_MAX = 1e6
GAINS = (1.0, 3.0, 1e-3)
FS = 51.2          # a non-integer sampling rate


def sd_est(Yall, Yref, dt, nxseg, method, pov):
    from pyoma2.functions import fdd

    return fdd.SD_est(Yall, Yref, dt, nxseg, method=method, pov=pov)


_REC = {}


def recording(seed, n, N):
    k = (seed, n, N)
    if k not in _REC:
        Z = payload.normal(seed, f"c04/Z/{n}/{N}", (N, n))
        M = np.eye(n) + 0.5 * payload.entries(seed, f"c04/M/{n}", (n, n))
        _REC[k] = Z @ M
    return _REC[k]


def records(seed, n, N, S, stagger):
    """The record every setup is cut from: one simultaneous recording, or (stagger) S consecutive stretches of a longer one."""
    if not stagger:
        X = recording(seed, n, N)
        return [X] * S
    X = recording(seed, n, N * S)
    return [X[i * N:(i + 1) * N] for i in range(S)]


def compositions(total, parts):
    if parts == 1:
        if total >= 1:
            yield (total,)
        return
    for first in range(1, total - parts + 2):
        for rest in compositions(total - first, parts - 1):
            yield (first,) + rest


def layouts(thorough):
    out = []
    for n in (range(3, 10) if thorough else range(3, 7)):
        for k in ((1, 2, 3) if thorough else (1, 2)):
            for S in ((2, 3, 4) if thorough else (2, 3)):
                if n - k < S:
                    continue
                for comp in compositions(n - k, S):
                    out.append((n, k, comp))
    return out


def setups_of(layout):
    """Global channel indices of each setup: references 0..k-1, roving channels k.. in setup order."""
    n, k, comp = layout
    out, c = [], k
    for m in comp:
        out.append(list(range(c, c + m)))
        c += m
    return out


# ------------------------------------------------------------------------------------------------
# the oracle

def per_line_cond(G):
    return np.linalg.cond(np.moveaxis(G, 2, 0))


def lines_matmul(A, B):
    """C[:, :, f] = A[:, :, f] @ B[:, :, f]"""
    return np.einsum("ijf,jkf->ikf", A, B)


def lines_inv(G, ok):
    """Per-line inverse on the lines flagged ok (zeros elsewhere)."""
    out = np.zeros_like(G)
    idx = np.flatnonzero(ok)
    if idx.size:
        out[:, :, idx] = np.moveaxis(np.linalg.inv(np.moveaxis(G[:, :, idx], 2, 0)), 0, 2)
    return out


class Expect:
    """Everything the statement says about the merged matrix, computed from the known recording with SD_est."""

    def __init__(self, Xs, layout, gains, nxseg, pov, method):
        n, k, comp = layout
        self.k = k
        dt = 1.0 / FS
        rov = setups_of(layout)
        self.rov = rov
        refs = list(range(k))
        self.blocks = []        # per setup: (G_rr, G_mr) from the scaled setup data
        for g, mv, X in zip(gains, rov, Xs):
            Yr = g * X[:, refs].T
            Ym = g * X[:, mv].T
            f, G = sd_est(np.vstack([Yr, Ym]), Yr, dt, nxseg, method, pov)
            self.blocks.append((G[:k], G[k:]))
        self.freq = np.asarray(f, dtype=float)
        self.nf = self.freq.size
        self.mean = sum(b[0] for b in self.blocks) / len(self.blocks)
        self.T = []
        ok = per_line_cond(self.mean) <= COND_MAX
        for Grr, Gmr in self.blocks:
            ok &= per_line_cond(Grr) <= COND_MAX
        ok[0] = False
        self.judged = ok
        self.T = [lines_matmul(Gmr, lines_inv(Grr, ok)) for Grr, Gmr in self.blocks]
        rows = [self.mean] + [lines_matmul(Ti, self.mean) for Ti in self.T]
        self.Sy = np.concatenate(rows, axis=0)
        X = Xs[0]
        if all(g == 1.0 for g in gains) and all(Xi is X for Xi in Xs):
            order = refs + [c for mv in rov for c in mv]
            _, self.single = sd_est(X[:, order].T, X[:, refs].T, dt, nxseg, method, pov)
        else:
            self.single = None


def line_err(A, B, judged):
    """Largest per-line deviation relative to the largest entry of B at that line, over the judged lines."""
    idx = np.flatnonzero(judged)
    if not idx.size:
        return 0.0
    sc = np.max(np.abs(B[:, :, idx]), axis=(0, 1))
    sc = np.where(sc > 0, sc, 1.0)
    e = np.max(np.abs(A[:, :, idx] - B[:, :, idx]), axis=(0, 1)) / sc
    return float("nan") if np.any(np.isnan(e)) else float(np.max(e))


def judge(t, route, case, cfgtxt, freq, Sy, ex, Xs, layout, gains, nxseg, pov, method, base=None):
    """Judge one merged matrix. `base` = (Sy of the same configuration with all gains 1, its Expect) for relation (iii)."""
    n, k, comp = layout
    nf = nxseg // 2 + 1
    t.validated += 1
    freq = np.asarray(freq, dtype=float)
    want_f = np.arange(nf) * FS / nxseg
    if freq.shape != want_f.shape or not np.all(np.abs(freq - want_f) <= 1e-12 * FS) or not np.array_equal(freq, ex.freq):
        t.violation(f"{route}:freq:{method}", f"{route} {method}: frequency vector is not the single-setup grid k*fs/nxseg (k=0..floor(nxseg/2)); {cfgtxt}", case)
        return False
    rt = "function" if route == "SD_PreGER" else "class"
    if nxseg % 2:
        t.outcomes[f"odd-nxseg:grid-is-single-setup-grid:{rt}:{method}"] += 1
    elif nxseg & (nxseg - 1):
        t.outcomes[f"even-non-power-of-two-nxseg:grid-is-single-setup-grid:{rt}:{method}"] += 1
    Sy = np.asarray(Sy)
    if Sy.shape != (n, k, nf):
        t.violation(f"{route}:shape:{method}", f"{route} {method}: Sy has shape {Sy.shape}, required (n_ref + sum n_mov, n_ref, n_f) = {(n, k, nf)}; {cfgtxt}", case)
        return False
    nj = int(np.sum(ex.judged))
    t.not_judged += int(nf - 1 - nj)
    if nj == 0:
        t.skipped_by_guard += 1
        return False
    fails = []          # (class key, message) of every relation of the statement that does not hold
    if ex.single is not None:
        e = line_err(Sy, ex.single, ex.judged)
        t.err(f"single-setup:{method}", e)
        if not e <= TOL:
            fails.append((f"{route}:not-single-setup-matrix:{method}",
                          f"{route} {method} pov={pov}: merged matrix of setups cut from one recording differs from SD_est(all sensors, "
                          f"references) by {e:.3g} of the largest entry of a line; {cfgtxt}"))
        else:
            t.outcomes[f"single-setup-equal:{method}"] += 1
    # (ii) general relation
    e_ref = line_err(Sy[:k], ex.mean, ex.judged)
    t.err(f"mean-reference-block:{method}", e_ref)
    if not e_ref <= TOL:
        fails.append((f"{route}:reference-block-not-mean:{method}",
                      f"{route} {method}: the reference block differs from the mean over setups of the per-setup reference blocks by "
                      f"{e_ref:.3g}; gains {gains}; {cfgtxt}"))
    r0 = k
    for i, mv in enumerate(ex.rov):
        blk = Sy[r0:r0 + len(mv)]
        want = ex.Sy[r0:r0 + len(mv)]
        e = line_err(blk, want, ex.judged)
        t.err(f"roving-block:{method}", e)
        if not e <= TOL:
            how = ""
            # diagnose common faults for the message only
            alt = lines_matmul(lines_matmul(ex.blocks[i][1], ex.blocks[i][0]), ex.mean)
            if line_err(blk, alt, ex.judged) <= TOL:
                how = " (it equals G_mov,ref G_ref,ref mean: the inverse is missing)"
            fails.append((f"{route}:roving-block:{method}",
                          f"{route} {method}: roving block of setup {i} differs from its transmissibility G_mov,ref G_ref,ref^-1 applied to the "
                          f"mean reference block by {e:.3g}{how}; gains {gains}; {cfgtxt}"))
            break
        r0 += len(mv)
    if fails and pov != 0.5:
        # one cause, one class: the whole matrix is what the statement prescribes for overlap 0.5
        alt = Expect(Xs, layout, gains, nxseg, 0.5, method)
        if line_err(Sy, alt.Sy, ex.judged & alt.judged) <= TOL:
            worst = line_err(Sy, ex.Sy, ex.judged)
            dev = float(np.max(np.abs(Sy[:, :, ex.judged] - ex.Sy[:, :, ex.judged])) / np.max(np.abs(ex.Sy[:, :, ex.judged])))
            fails = [(f"{route}:overlap-not-used:{method}",
                      f"{route} {method} pov={pov}: the merged matrix is the one for overlap 0.5 - the overlap setting is not used "
                      f"(deviation {dev:.3g} of the largest entry, {worst:.3g} of the largest entry of a line); gains {gains}; {cfgtxt}")]
    for key, msg in fails:
        t.violation(key, msg, case)
    good = not fails
    # (iii) relative to the un-scaled run
    if base is not None and good:
        Sy1, ex1 = base
        jj = ex.judged & ex1.judged
        S = len(gains)
        delta = sum((g * g - 1.0) / S * b[0] for g, b in zip(gains, ex1.blocks))
        e = line_err(Sy[:k] - Sy1[:k], delta, jj) if any(g != 1.0 for g in gains) else 0.0
        t.err(f"gain:reference-block-change:{method}", e)
        if not e <= 1e-7:
            good = False
            t.violation(f"{route}:gain-reference-block-change:{method}",
                        f"{route} {method}: multiplying setups by {gains} must change the reference block by sum_i (g_i^2-1)/n_setup x that setup's "
                        f"reference block; deviation {e:.3g}; {cfgtxt}", case)
        worstT = 0.0
        r0 = k
        inv_g, inv_1 = lines_inv(Sy[:k], jj), lines_inv(Sy1[:k], jj)
        for i, mv in enumerate(ex.rov):
            Tg = lines_matmul(Sy[r0:r0 + len(mv)], inv_g)
            T1 = lines_matmul(Sy1[r0:r0 + len(mv)], inv_1)
            e = line_err(Tg, T1, jj)
            if not e <= worstT:
                worstT = e
            r0 += len(mv)
        t.err(f"gain:transmissibility-change:{method}", worstT)
        if not worstT <= 1e-6:
            good = False
            t.violation(f"{route}:gain-changes-transmissibility:{method}",
                        f"{route} {method}: multiplying setups by {gains} changes the roving-to-reference transmissibilities read back from the merged "
                        f"matrix by {worstT:.3g}; {cfgtxt}", case)
        else:
            t.outcomes[f"gain-only-changes-mean-reference-block:{method}"] += 1
    if good:
        t.outcomes[f"relations-hold:{method}"] += 1
        if nxseg % 2:
            t.outcomes[f"odd-nxseg:relations-hold:{rt}:{method}"] += 1
    return good


def build_Y(Xs, layout, gains):
    k = layout[1]
    return [{"ref": g * X[:, :k].T.copy(), "mov": g * X[:, mv].T.copy()} for g, mv, X in zip(gains, setups_of(layout), Xs)]


def gain_vectors(S, walk):
    """'full': the product gains^setups (<= 3 setups; 4 setups fall back to 'reduced'); 'reduced': all ones, every
    single-setup scaling, three mixed vectors; 'two': all ones and one mixed vector. All ones always comes first."""
    if walk == "full" and S <= 3:
        return sorted(itertools.product(GAINS, repeat=S), key=lambda v: v != (1.0,) * S)
    out = [(1.0,) * S]
    for i in range(S):
        for g in GAINS[1:]:
            v = [1.0] * S
            v[i] = g
            out.append(tuple(v))
    out += [tuple(GAINS[(i + 1) % 3] for i in range(S)), tuple(GAINS[(2 * i + 2) % 3] for i in range(S)), (3.0,) * S]
    out = [v for i, v in enumerate(out) if v not in out[:i]]
    if walk == "two":
        return [out[0], out[-3]]
    return out


# ------------------------------------------------------------------------------------------------
# route 1: fdd.SD_PreGER

def func_item(item):
    """One item = one (layout, method, nxseg, pov, length): every gain vector."""
    from pyoma2.functions import fdd

    seed, thorough, cfg = item
    idx, layout, method, nxseg, pov, nseg, walk = cfg
    n, k, comp = layout
    t = Tally()
    N = int(round(nseg * nxseg))
    S = len(comp)
    variants = [(g, False) for g in gain_vectors(S, walk)]
    if walk != "two" and (thorough or nxseg == 64):
        # setups cut from different stretches of a longer recording: only the general relations (ii), (iii) apply
        variants += [(g, True) for g in gain_vectors(S, "two")]
    base = {}
    for gi, (gains, stagger) in enumerate(variants):
        Xs = records(seed, n, N, S, stagger)
        t.states += 1
        case = {"part": "func", "cfg": [idx, list(layout[:2]) + [list(comp)], method, nxseg, pov, nseg, walk], "gains": list(gains),
                "staggered": stagger, "seed": seed}
        cfgtxt = f"n={n} refs={k} roving per setup={list(comp)} nxseg={nxseg} segments={nseg}" + (" (setups from different stretches)" if stagger else "")
        Y = build_Y(Xs, layout, gains)
        try:
            freq, Sy = fdd.SD_PreGER(Y, FS, nxseg=nxseg, pov=pov, method=method)
        except Exception as e:
            t.evaluations += 1
            t.violation(f"raises:{type(e).__name__}:SD_PreGER:{method}", f"SD_PreGER raised {type(e).__name__}: {e}; gains {gains}; {cfgtxt}", case)
            continue
        t.evaluations += 1
        t.transitions += 1
        if any(g != 1.0 for g in gains) or pov != 0.5 or stagger:
            t.nontrivial.add(("F", idx, gi))
        ex = Expect(Xs, layout, gains, nxseg, pov, method)
        ok = judge(t, "SD_PreGER", case, cfgtxt, freq, Sy, ex, Xs, layout, gains, nxseg, pov, method, base=base.get(stagger))
        if all(g == 1.0 for g in gains) and ok:
            base[stagger] = (np.asarray(Sy), ex)
        if ok and stagger:
            t.outcomes[f"general-relations-hold-on-different-records:{method}"] += 1
        if ok and pov in DEC_POVS:
            k_ov = int(nxseg * pov)
            t.outcomes[f"decimal-overlap:{pov:.3g}:holds:{method}"] += 1
            if int((k_ov / nxseg) * nxseg) != k_ov:
                t.outcomes["decimal-overlap:at-a-floor-boundary(k/nxseg*nxseg<k):holds"] += 1
        if idx % 211 == 0 and gi in (0, 5, len(variants) - 1):
            t.sample({"part": "func", "layout": {"channels": n, "references": k, "roving_per_setup": list(comp)}, "method": method,
                      "nxseg": nxseg, "pov": pov, "segments": nseg, "gains": list(gains), "setups_from_different_stretches": stagger,
                      "lines_judged": int(np.sum(ex.judged)), "holds": bool(ok)})
    return t


# ------------------------------------------------------------------------------------------------
# route 2: MultiSetup_PreGER + *_MS classes, every placement of the references

def placements(n_ch, k, full):
    """Ordered positions of the k references inside a setup's channel list."""
    if full:
        return [list(p) for p in itertools.permutations(range(n_ch), k)]
    cover = [list(range(k)), list(range(n_ch - k, n_ch)), list(range(n_ch - 1, n_ch - 1 - k, -1)),
             [(1 + 2 * j) % n_ch for j in range(k)]]
    out = []
    for c in cover:
        if len(set(c)) == k and c not in out:
            out.append(c)
    return out


def placement_sets(layout, thorough):
    n, k, comp = layout
    per_setup_full = [placements(k + m, k, True) for m in comp]
    total = 1
    for p in per_setup_full:
        total *= len(p)
    if all(k + m <= 4 for m in comp) and total <= (300 if thorough else 40):
        return [list(c) for c in itertools.product(*per_setup_full)]
    # covering set: setup i takes the (v+i)-th covering placement, v = 0..3; plus, for setups of <= 4 channels, every
    # arrangement once while the other setups keep their first covering placement
    cov = [placements(k + m, k, False) for m in comp]
    out = []
    for v in range(4):
        c = [cov[i][(v + i) % len(cov[i])] for i in range(len(comp))]
        if c not in out:
            out.append(c)
    for i, m in enumerate(comp):
        if k + m <= 4:
            for p in per_setup_full[i]:
                c = [cov[j][0] for j in range(len(comp))]
                c[i] = p
                if c not in out:
                    out.append(c)
    return out


CLASSES = ("FDD_MS", "EFDD_MS", "pLSCF_MS")


def class_item(item):
    """One item = one (layout, placement, method, pov): every class x a few gain vectors."""
    import pyoma2.algorithms as alg
    from pyoma2.setup import MultiSetup_PreGER

    seed, thorough, cfg = item
    idx, layout, place, method, nxseg, pov, nseg = cfg
    n, k, comp = layout
    t = Tally()
    N = int(round(nseg * nxseg))
    S = len(comp)
    mixed = tuple(GAINS[(i + 1) % 3] for i in range(S))
    gvs = [((1.0,) * S, False), (mixed, False)] + ([(mixed, True)] if k >= 2 else [])
    lead = all(list(p) == list(range(k)) for p in place)
    for gains, stagger in gvs:
        Xs = records(seed, n, N, S, stagger)
        ex = Expect(Xs, layout, gains, nxseg, pov, method)
        datasets = []
        for g, mv, p, X in zip(gains, setups_of(layout), place, Xs):
            n_ch = k + len(mv)
            cols = [None] * n_ch
            for j, pos in enumerate(p):
                cols[pos] = j                      # global reference j sits at position p[j]
            rest = iter(mv)
            for pos in range(n_ch):
                if cols[pos] is None:
                    cols[pos] = next(rest)         # roving channels fill the other positions in order
            datasets.append(g * X[:, cols])
        for cls in CLASSES:
            if cls == "pLSCF_MS" and not thorough and idx % 3:
                continue                    # quick: the (slow) pLSCF_MS run on every third (layout, placement) point
            t.states += 1
            case = {"part": "class", "cfg": [idx, list(layout[:2]) + [list(comp)], [list(p) for p in place], method, nxseg, pov, nseg],
                    "gains": list(gains), "staggered": stagger, "class": cls, "seed": seed}
            cfgtxt = f"{cls} n={n} refs={k} roving per setup={list(comp)} ref_ind={[list(p) for p in place]} nxseg={nxseg} segments={nseg}"
            kw = dict(name="a", nxseg=nxseg, method_SD=method, pov=pov)
            if cls == "pLSCF_MS":
                kw["ordmax"] = 2
            try:
                ms = MultiSetup_PreGER(fs=FS, ref_ind=[list(p) for p in place], datasets=[d.copy() for d in datasets])
                a = getattr(alg, cls)(**kw)
                ms.add_algorithms(a)
                ms.run_all()
                freq, Sy = a.result.freq, a.result.Sy
            except Exception as e:
                t.evaluations += 1
                t.violation(f"raises:{type(e).__name__}:{cls}:{method}", f"{cls} run raised {type(e).__name__}: {e}; gains {gains}; {cfgtxt}", case)
                continue
            t.evaluations += 1
            t.transitions += 1
            if any(g != 1.0 for g in gains) or pov != 0.5 or not lead:
                t.nontrivial.add(("C", idx, cls, gains, stagger))
            ok = judge(t, cls, case, cfgtxt, freq, Sy, ex, Xs, layout, gains, nxseg, pov, method)
            if ok:
                t.outcomes[f"class-ok:{cls}"] += 1
            if idx % 397 == 0 and cls == "FDD_MS":
                t.sample({"part": "class", "class": cls, "layout": {"channels": n, "references": k, "roving_per_setup": list(comp)},
                          "ref_ind": [list(p) for p in place], "method": method, "nxseg": nxseg, "pov": pov, "gains": list(gains), "holds": bool(ok)})
    return t


# ------------------------------------------------------------------------------------------------
# route 3: several algorithm instances with different settings on ONE MultiSetup_PreGER object

SHARED_AXES = ("overlap", "estimator", "nxseg")
SHARED_PASSES = ("run_all", "same-object:run_by_name-reversed", "fresh-object:added-reversed-one-by-one:run_all",
                 "first-object-read-again-after-the-second-object-ran")


def reference_datasets(Xs, layout, place, gains):
    """The per-setup arrays with the references at the positions `place` (as on the class route)."""
    k = layout[1]
    datasets = []
    for g, mv, p, X in zip(gains, setups_of(layout), place, Xs):
        n_ch = k + len(mv)
        cols = [None] * n_ch
        for j, pos in enumerate(p):
            cols[pos] = j
        rest = iter(mv)
        for pos in range(n_ch):
            if cols[pos] is None:
                cols[pos] = next(rest)
        datasets.append(g * X[:, cols])
    return datasets


def shared_item(item):
    """One item = one (layout, placement, differing setting, list of instances, gain vector): three passes, every instance judged
    after every pass against the expectation for its own (estimator, nxseg, overlap)."""
    import pyoma2.algorithms as alg
    from pyoma2.setup import MultiSetup_PreGER

    seed, thorough, cfg = item
    idx, layout, place, axis, algs, N, gains = cfg
    n, k, comp = layout
    S = len(comp)
    gains = tuple(gains)
    algs = [tuple(a) for a in algs]
    t = Tally()
    Xs = records(seed, n, N, S, False)
    datasets = reference_datasets(Xs, layout, place, gains)
    exs = {}
    for cls, method, nxseg, pov in algs:
        if (method, nxseg, pov) not in exs:
            exs[(method, nxseg, pov)] = Expect(Xs, layout, gains, nxseg, pov, method)
    # ground truth: do the instances of this object expect different matrices at all?
    keys = list(exs)
    for a, b in itertools.combinations(keys, 2):
        A, B = exs[a], exs[b]
        if A.Sy.shape != B.Sy.shape:
            differ = True
        else:
            jj = A.judged & B.judged
            differ = bool(np.any(jj)) and line_err(A.Sy, B.Sy, jj) > 1e-3
        if differ:
            t.outcomes[f"shared:expected-matrices-of-two-instances-differ:{axis}:{'+'.join(sorted({a[0], b[0]}))}"] += 1
    names = [f"a{i}" for i in range(len(algs))]

    def make(i):
        cls, method, nxseg, pov = algs[i]
        kw = dict(name=names[i], nxseg=nxseg, method_SD=method, pov=pov)
        if cls == "pLSCF_MS":
            kw["ordmax"] = 2
        return getattr(alg, cls)(**kw)

    def judge_all(inst, pss, ran=True):
        for i, a in enumerate(inst):
            cls, method, nxseg, pov = algs[i]
            ex = exs[(method, nxseg, pov)]
            t.states += 1
            if ran:
                t.evaluations += 1
                t.transitions += 1
            t.nontrivial.add(("S", idx, pss, i))
            case = {"part": "shared", "cfg": [idx, list(layout[:2]) + [list(comp)], [list(p) for p in place], axis, [list(x) for x in algs], N, list(gains)],
                    "pass": pss, "instance": names[i], "class": cls, "seed": seed}
            others = [f"{names[j]}={algs[j][0]}({algs[j][1]},{algs[j][2]},{algs[j][3]})" for j in range(len(algs)) if j != i]
            cfgtxt = (f"{cls} '{names[i]}' (method_SD={method}, nxseg={nxseg}, pov={pov}) on one MultiSetup_PreGER object together with {others}; pass "
                      f"'{pss}'; n={n} refs={k} roving per setup={list(comp)} ref_ind={[list(p) for p in place]} samples={N}")
            res = a.result
            if res is None or getattr(res, "Sy", None) is None:
                t.violation(f"shared-setup:{axis}:no-result:{cls}", f"no result after the pass; {cfgtxt}", case)
                continue
            tj = Tally()
            ok = judge(tj, f"shared-setup:{cls}", case, cfgtxt, res.freq, res.Sy, ex, Xs, layout, gains, nxseg, pov, method)
            if tj.violations:
                # one cause, one class: the matrix is the one prescribed for ANOTHER instance of the same object
                Sy = np.asarray(res.Sy)
                for j in range(len(algs)):
                    o = exs[algs[j][1:]]
                    if algs[j][1:] != algs[i][1:] and o.Sy.shape == Sy.shape and line_err(Sy, o.Sy, ex.judged & o.judged) <= TOL:
                        e = line_err(Sy, ex.Sy, ex.judged)
                        tj.violations.clear()
                        tj.violation(f"shared-setup:{axis}:matrix-of-another-instance:{cls}:{method}",
                                     f"the merged matrix is the one for the settings of instance '{names[j]}' (method_SD={algs[j][1]}, nxseg={algs[j][2]}, "
                                     f"pov={algs[j][3]}), not for its own: deviation {e:.3g} of the largest entry of a line; gains {gains}; {cfgtxt}", case)
                        break
            t.merge(tj)
            if ok:
                t.outcomes[f"shared:{axis}:{pss}:ok"] += 1
                t.outcomes[f"shared:class-ok:{cls}"] += 1

    def fresh():
        return MultiSetup_PreGER(fs=FS, ref_ind=[list(p) for p in place], datasets=[d.copy() for d in datasets])

    stage = "build"
    try:
        ms = fresh()
        inst = [make(i) for i in range(len(algs))]
        ms.add_algorithms(*inst)
        stage = SHARED_PASSES[0]
        ms.run_all()
        judge_all(inst, SHARED_PASSES[0])
        stage = SHARED_PASSES[1]
        for nm in reversed(names):
            ms.run_by_name(nm)
        judge_all(inst, SHARED_PASSES[1])
        stage = SHARED_PASSES[2]
        ms2 = fresh()
        inst2 = [make(i) for i in range(len(algs))]
        for a in reversed(inst2):
            ms2.add_algorithms(a)
        ms2.run_all()
        judge_all(inst2, SHARED_PASSES[2])
        # the first object's results are still what they were
        judge_all(inst, SHARED_PASSES[3], ran=False)
    except Exception as e:
        t.evaluations += 1
        case = {"part": "shared", "cfg": [idx, list(layout[:2]) + [list(comp)], [list(p) for p in place], axis, [list(x) for x in algs], N, list(gains)],
                "pass": stage, "seed": seed}
        t.violation(f"raises:{type(e).__name__}:shared-setup:{axis}", f"{stage}: raised {type(e).__name__}: {e}; instances {algs}; n={n} refs={k} roving per setup={list(comp)}", case)
    if idx % 37 == 0:
        t.sample({"part": "shared", "layout": {"channels": n, "references": k, "roving_per_setup": list(comp)}, "ref_ind": [list(p) for p in place],
                  "differing_setting": axis, "instances": [list(x) for x in algs], "gains": list(gains), "samples": N,
                  "violations": len(t.violations)})
    return t


# ------------------------------------------------------------------------------------------------

POVS = (0.0, 0.25, 0.5, 0.75)


def func_lattice(thorough):
    """(index, layout, method, nxseg, pov, length in segments, gain walk).
    quick: every quick layout x method x overlap x (nxseg, length) in {(64, 4), (64, 6.5), (128, 4)}; the reduced gain walk on the
    4-segment records, two gain vectors on the 6.5-segment ones.
    thorough: every layout (3..9 channels, 1..3 references, 2..4 setups) x method x overlap at (nxseg 64, 4 segments) with
    the full gain product; the other (nxseg, length) combinations on the layouts of <= 6 channels with the reduced gain walk;
    nxseg 2048 on <= 5 channels.
    segment lengths that are not powers of two, 4-segment records, two gain vectors (all ones, one mixed):
    quick: odd 65, 127 and even 100 on every quick layout x method x overlap;
    thorough: 65 on every layout, 127, 255 and 100 on <= 6 channels, 2047 on <= 5 channels, x method x overlap."""
    out = []
    np2 = []        # the points with a segment length that is not a power of two; numbered after the others
    for layout in layouts(thorough):
        for method in ("per", "cor"):
            for pov in POVS:
                for nxseg in sorted((NXSEG_ODD_THOROUGH if thorough else NXSEG_ODD_QUICK) + NXSEG_EVEN_NP2):
                    if thorough and ((nxseg > 2000 and layout[0] > 5) or (nxseg != 65 and layout[0] > 6)):
                        continue
                    np2.append((layout, method, nxseg, pov, 4, "two"))
                for nxseg in ((64, 128, 256, 2048) if thorough else (64, 128)):
                    for nseg in (4, 6.5):
                        if not thorough:
                            if nxseg == 128 and nseg != 4:
                                continue
                            walk = "reduced" if nseg == 4 else "two"
                        elif (nxseg, nseg) == (64, 4):
                            walk = "full"
                        elif nxseg == 2048:
                            if layout[0] > 5 or nseg != 4:
                                continue
                            walk = "two"
                        elif layout[0] <= 6:
                            walk = "reduced"
                        else:
                            continue
                        out.append((len(out), layout, method, nxseg, pov, nseg, walk))
    for c in np2:
        out.append((len(out),) + c)
    # decimal overlaps x every segment length of a range (periodogram estimator; the correlogram ignores the overlap: thorough only),
    # on the first layout with one and the first with two references, 4-segment records, two gain vectors
    lays = layouts(thorough)
    dec_lay = [next(l for l in lays if l[1] == 1), next(l for l in lays if l[1] == 2)]
    for layout in dec_lay:
        for method in (("per", "cor") if thorough else ("per",)):
            for pov in DEC_POVS:
                for nxseg in (DEC_NXSEG_THOROUGH if thorough else DEC_NXSEG_QUICK):
                    out.append((len(out), layout, method, nxseg, pov, 4, "two"))
    return out


def class_lattice(thorough):
    out = []
    np2 = []        # the points with a segment length that is not a power of two; numbered after the others
    all8 = [(m, p) for m in ("per", "cor") for p in POVS]
    for li, layout in enumerate(layouts(thorough)):
        if thorough and layout[0] > 7:
            continue
        for pi, place in enumerate(placement_sets(layout, thorough)):
            if thorough:
                combos = all8 if pi == 0 else [all8[(3 * pi) % 8], all8[(3 * pi + 4) % 8]]
            elif pi == 0:
                combos = [("per", 0.25), ("per", 0.5), ("cor", 0.25), ("cor", 0.5)]
            else:
                combos = [("per", 0.25), ("cor", 0.5)]
            for method, pov in combos:
                out.append((len(out), layout, place, method, 64, pov, 4.5))
            # segment lengths that are not powers of two: the first placement (references leading) with an odd and an even
            # value, the second one (references not leading) with the other odd value
            if pi == 0:
                two = [("per", 0.25), ("cor", 0.5)]
                extra = [(m, p, 65) for m, p in (all8 if thorough else two)]
                # the even value: quick with one estimator per layout, alternating over the layouts
                extra += [(m, p, 100) for m, p in (two if thorough else [two[li % 2]])]
            elif pi == 1:
                extra = [(m, p, nx) for nx in ((127, 255) if thorough else (127,)) for m, p in [("per", 0.75), ("cor", 0.25)]]
            else:
                extra = []
            for method, pov, nx in extra:
                np2.append((layout, place, method, nx, pov, 4.5))
    for c in np2:
        out.append((len(out),) + c)
    return out


SHARED_POV_ORDER = (0.5, 0.0, 0.75, 0.25)
SHARED_CLASS_PATTERNS = (("FDD_MS", "EFDD_MS", "FDD_MS", "EFDD_MS"), ("EFDD_MS", "FDD_MS", "EFDD_MS", "FDD_MS"),
                         ("FDD_MS", "FDD_MS", "EFDD_MS", "EFDD_MS"), ("EFDD_MS", "EFDD_MS", "FDD_MS", "FDD_MS"))


def shared_lattice(thorough):
    """(index, layout, placement, differing setting, instances [(class, estimator, nxseg, overlap)], samples, gain vector).
    For every layout (thorough: <= 7 channels) and placement (quick: the first and the second placement of the class route
    alternate over the layouts; thorough: both), four groups of instances on one object:
      overlap x 'per' and overlap x 'cor': 4 FDD_MS/EFDD_MS instances with the overlaps 0.5, 0, 0.75, 0.25 (order rotated over the
        layouts, class pattern rotated over the layouts), nxseg 64; plus a pLSCF_MS instance with the second overlap (quick: on
        every third layout);
      estimator: 3 instances ('per', 'cor', 'per' or 'cor', 'per', 'cor'), one nxseg 64 and one overlap (rotating);
      nxseg: 3 instances with 64, 128, 65 (thorough: 4, plus 100; order rotated), one estimator (quick: alternating; thorough:
        both) and one overlap (rotating).
    Record: 4.5 segments of the longest segment length of the group. Gains: all ones; the mixed vector on every third layout
    (thorough: every layout)."""
    out = []
    for li, layout in enumerate(layouts(thorough)):
        if thorough and layout[0] > 7:
            continue
        S = len(layout[2])
        ps = placement_sets(layout, thorough)
        places = ps[:2] if thorough else [ps[li % 2] if len(ps) > 1 else ps[0]]
        mixed = tuple(GAINS[(i + 1) % 3] for i in range(S))
        gvs = [(1.0,) * S] + ([mixed] if (thorough or li % 3 == 0) else [])
        for pi, place in enumerate(places):
            r = li + pi
            groups = []
            povs = [SHARED_POV_ORDER[(r + i) % 4] for i in range(4)]
            pat = SHARED_CLASS_PATTERNS[(r // 2) % 4]
            for method in ("per", "cor"):
                g = [(pat[i], method, 64, povs[i]) for i in range(4)]
                if thorough or li % 3 == (0 if method == "per" else 1):
                    g.insert(2, ("pLSCF_MS", method, 64, povs[1]))
                groups.append(("overlap", g))
            ms = ("per", "cor", "per") if r % 2 == 0 else ("cor", "per", "cor")
            groups.append(("estimator", [(pat[i + 1], ms[i], 64, POVS[r % 4]) for i in range(3)]))
            nxs = (64, 128, 65, 100) if thorough else (64, 128, 65)
            for method in (("per", "cor") if thorough else (("per", "cor")[r % 2],)):
                groups.append(("nxseg", [(pat[i % 4], method, nxs[(r + i) % len(nxs)], (0.25, 0.75, 0.0)[r % 3]) for i in range(len(nxs))]))
            for axis, algs in groups:
                N = int(round(4.5 * max(a[2] for a in algs)))
                for gains in gvs:
                    out.append((len(out), layout, place, axis, algs, N, gains))
    return out


def explore(ctx):
    F = func_lattice(ctx.thorough)
    Fm = [c for c in F if c[4] not in DEC_POVS]      # the main lattice (summaries below); decimal overlaps are summarised apart
    C = class_lattice(ctx.thorough)
    H = shared_lattice(ctx.thorough)
    lay = layouts(ctx.thorough)
    ctx.bounds = {
        "layouts": {"count": len(lay), "channels": sorted({l[0] for l in lay}), "references": sorted({l[1] for l in lay}),
                    "setups": sorted({len(l[2]) for l in lay}), "what": "every composition of the roving channels into setups of >= 1 channel"},
        "function_route": {"items": len(F), "methods": ["per", "cor"], "nxseg": sorted({c[3] for c in Fm}), "pov": list(POVS),
                           "nxseg_x_length": sorted({(c[3], c[5]) for c in Fm}), "gains": list(GAINS),
                           "nxseg_odd": sorted({c[3] for c in Fm if c[3] % 2}), "nxseg_even_not_power_of_two": sorted({c[3] for c in Fm if not c[3] % 2 and c[3] & (c[3] - 1)}),
                           "items_by_nxseg": {str(v): sum(1 for c in Fm if c[3] == v) for v in sorted({c[3] for c in Fm})},
                           "decimal_overlaps": {"pov": [round(p, 6) for p in DEC_POVS], "nxseg": f"every integer {min(c[3] for c in F if c[4] in DEC_POVS)}..{max(c[3] for c in F if c[4] in DEC_POVS)}",
                                                "items": sum(1 for c in F if c[4] in DEC_POVS), "methods": sorted({c[2] for c in F if c[4] in DEC_POVS}),
                                                "layouts": "the first layout with one and the first with two references", "record": "4 segments", "gains": "all ones + one mixed vector",
                                                "why": "for many of these pairs nxseg*pov lies at / next to a whole number of samples (k/nxseg*nxseg < k in floating point): "
                                                       "the number of overlapping samples is decided at a floor boundary"},
                           "note": func_lattice.__doc__,
                           "different_records": "items with the full/reduced gain walk (quick: nxseg 64 only) are repeated with the setups cut from consecutive stretches of a "
                                                "longer recording (all ones + one mixed gain vector): relations (ii) and (iii) only",
                           "gain_walks": {"full": "gains^setups (<= 3 setups)", "reduced(3 setups)": [list(v) for v in gain_vectors(3, "reduced")],
                                          "two(3 setups)": [list(v) for v in gain_vectors(3, "two")]},
                           "walk_by_item": {w: sum(1 for c in F if c[6] == w) for w in ("full", "reduced", "two")}},
        "class_route": {"items": len(C), "classes": list(CLASSES), "classes_note": "quick: pLSCF_MS on every third (layout, placement) point", "nxseg": sorted({c[4] for c in C}),
                        "nxseg_note": "64 on every placement; not powers of two: 65 (odd; thorough: every method x overlap) and 100 (quick: one estimator per layout, alternating) on the first placement of every layout, 127 (thorough: and 255) on the second",
                        "nxseg_x_method_x_pov": sorted({(c[4], c[3], c[5]) for c in C if c[4] != 64}), "method_x_pov": sorted({(c[3], c[5]) for c in C}),
                        "length_in_segments": [4.5], "variants": ["all ones", "gains (3, 1e-3, 1, ...)", "same gains, setups cut from different stretches of a longer recording (>= 2 references)"],
                        "placements": "full product of all ordered placements when every setup has <= 4 channels and the product is <= "
                                      + ("300" if ctx.thorough else "40") + "; else a covering set (leading, trailing, trailing reversed, "
                                      "spread, rotated over the setups) plus every arrangement of each <=4-channel setup once"},
        "shared_route": {"items": len(H), "what": "several algorithm instances that differ in exactly one setting on ONE MultiSetup_PreGER object",
                         "differing_setting": {a: sum(1 for c in H if c[3] == a) for a in SHARED_AXES},
                         "instances_per_object": sorted({len(c[4]) for c in H}), "classes": sorted({a[0] for c in H for a in c[4]}),
                         "passes": list(SHARED_PASSES), "nxseg": sorted({a[2] for c in H for a in c[4]}), "pov": sorted({a[3] for c in H for a in c[4]}),
                         "gain_vectors": sorted({tuple(c[6]) for c in H}), "instance_runs": sum(3 * len(c[4]) for c in H),
                         "note": shared_lattice.__doc__},
        "fs": FS,
    }
    for c in F:
        for st in (False, True):
            records(ctx.seed, c[1][0], int(round(c[5] * c[3])), len(c[1][2]), st)
    for c in C:
        for st in (False, True):
            records(ctx.seed, c[1][0], int(round(c[6] * c[4])), len(c[1][2]), st)
    ctx.pmap(func_item, [(ctx.seed, ctx.thorough, c) for c in sorted(F, key=lambda c: -c[3] * c[5] * len(gain_vectors(len(c[1][2]), c[6])))], chunksize=2)
    ctx.pmap(class_item, [(ctx.seed, ctx.thorough, c) for c in C], chunksize=4)
    for c in H:
        records(ctx.seed, c[1][0], c[5], len(c[1][2]), False)
    ctx.pmap(shared_item, [(ctx.seed, ctx.thorough, c) for c in H], chunksize=2)
    ctx.require(*[f"decimal-overlap:{p:.3g}:holds:per" for p in DEC_POVS], "decimal-overlap:at-a-floor-boundary(k/nxseg*nxseg<k):holds")
    ctx.require("single-setup-equal:per", "single-setup-equal:cor", "relations-hold:per", "relations-hold:cor",
                "gain-only-changes-mean-reference-block:per", "gain-only-changes-mean-reference-block:cor",
                "class-ok:FDD_MS", "class-ok:EFDD_MS", "class-ok:pLSCF_MS",
                "general-relations-hold-on-different-records:per", "general-relations-hold-on-different-records:cor",
                *[f"odd-nxseg:{what}:{rt}:{m}" for what in ("grid-is-single-setup-grid", "relations-hold") for rt in ("function", "class") for m in ("per", "cor")],
                *[f"even-non-power-of-two-nxseg:grid-is-single-setup-grid:{rt}:{m}" for rt in ("function", "class") for m in ("per", "cor")],
                *[f"shared:{a}:{p}:ok" for a in SHARED_AXES for p in SHARED_PASSES],
                *[f"shared:class-ok:{c}" for c in CLASSES],
                # ground truth: the instances sharing an object really expect different matrices (not for 'cor' x overlap: the
                # correlogram does not use the overlap)
                "shared:expected-matrices-of-two-instances-differ:overlap:per", "shared:expected-matrices-of-two-instances-differ:estimator:cor+per",
                "shared:expected-matrices-of-two-instances-differ:nxseg:per", "shared:expected-matrices-of-two-instances-differ:nxseg:cor")


def _layout(l):
    return (l[0], l[1], tuple(l[2]))


def replay(case):
    cfg = case["cfg"]
    seed = case["seed"]
    if case["part"] == "func":
        idx, lay, method, nxseg, pov, nseg, walk = cfg
        t = func_item((seed, True, (idx, _layout(lay), method, nxseg, pov, nseg, walk)))
    elif case["part"] == "shared":
        idx, lay, place, axis, algs, N, gains = cfg
        t = shared_item((seed, True, (idx, _layout(lay), [list(p) for p in place], axis, [tuple(a) for a in algs], N, tuple(gains))))
    else:
        idx, lay, place, method, nxseg, pov, nseg = cfg
        t = class_item((seed, True, (idx, _layout(lay), [list(p) for p in place], method, nxseg, pov, nseg)))
    return t
