"""C02 - PoSER merging reproduces the global mode shape from re-scaled setups.

Three routes, all exhaustive over stated lattices:

  merge   gen.merge_mode_shapes + gen.flatten_sns_names on every sensor layout of the lattice (setups x references x
          roving counts x every ordered placement of the references) around payload matrices G and a covering design of
          per-setup/per-mode factors;
  class   MultiSetup_PoSER(...).merge_results() on SingleSetups whose algorithms carry directly assigned results
          (Phi = c * G restricted, Fn/Xi from the payload): Phi, order, mean and population std / mean; also after the
          setups' results have been replaced / re-extracted once the PoSER object exists (see "Order of legal operations");
  e2e     2-3 SingleSetups fed with noise-free free-decay records of ONE global system (own generator below) at
          different amplitudes, identified with SSIcov, extracted at order 2m, merged with MultiSetup_PoSER.

Reference model: one global matrix G (rows: references in the first setup's reference order, then the roving sensors
of setup 1, 2, ... in channel order); setup i sees c[i,k] * G[rows_i, k] in its own channel order; the merged shape
must be c[0,k] * G[:, k].

Order of legal operations (axes OPS x SUBSETS x SEQS, class route and end-to-end route): what merge_results() returns is a
function of the results the setups hold WHEN it is called. On a fixed third of the class-route layouts and a fixed fifth of
the end-to-end cases the PoSER object is built FIRST, from setups of which a subset still holds a discarded first attempt;
then those setups get new results by a legal operation (a new algorithm object under the existing name, rollback() and a
new object, a new result object on the same algorithm, new values on the same result object / run_by_name + mpe again),
in the sequences change-merge, merge-change-merge, change-merge-merge, change-merge-change-merge; every merge is judged
against the reference model evaluated on the setups' CURRENT results.

Overall level of G (lattice axis LEVELS): the statement quantifies over EVERY global mode-shape matrix, not only over
unit-normalised ones, so the merge and class routes are also executed with G multiplied by 1e-6, 1e-3, 1e3, 1e6
(mass-normalised shapes, shapes in physical units), including the collisions "tiny level x smallest admissible factor"
and "huge level x largest admissible factor".
"""
import itertools

import numpy as np

from mc import payload
from mc.core import Tally
from pyoma2.algorithms import SSIcov, SSIdat
from pyoma2.algorithms.data.result import SSIResult
from pyoma2.functions.gen import flatten_sns_names, merge_mode_shapes
from pyoma2.setup import MultiSetup_PoSER, SingleSetup

ID = "C02"
TECHNIQUE = ("bounded-exhaustive enumeration of sensor layouts (every ordered placement of the reference sensors in every "
             "setup) around payload mode-shape matrices with a covering design of scale factors; executable reference "
             "model (one global matrix G) compared with gen.merge_mode_shapes, gen.flatten_sns_names and "
             "MultiSetup_PoSER.merge_results on every element; plus an end-to-end lattice through SingleSetup/SSIcov; on both class "
             "routes also sequences of legal operations (re-doing setups, merging) on one existing MultiSetup_PoSER object")
LEVEL_TEXT = ("every element of the stated layout lattice is executed on the real functions/classes and compared with the "
              "reference model; real numbers come from a payload alphabet selected by VERIF_SEED")
RULE = ("a case is one (layout, number of modes, real/complex kind, factor rotation, overall level of G) for the function "
        "route, one (layout, level) for the class route, one (layout, operation, subset of setups re-done, sequence of changes "
        "and merges) for the order-of-operations cases of the class route, one (layout, modes, dominant-shift) for the end-to-end "
        "route plus one (layout, modes, dominant-shift, operation, subset, merged-before) for its order-of-operations cases; non-trivial = some setup "
        "i >= 2 with at least one roving sensor has |c[i,k]| != |c[1,k]| for some mode k (so multiplying by the factor "
        "and by its inverse differ); for the end-to-end route the factor is MEASURED on the shapes each setup "
        "identified (least-squares ratio on the reference rows, | |alpha| - 1 | > 0.05); distinct by lattice index")
ASSUMPTIONS = [
    "numpy arithmetic is the reference; the reference model is 'merged[:, k] = c[0,k] * G[:, k]' with G's rows ordered "
    "references (first setup's reference order), then roving sensors of setup 1, 2, ... in channel order",
    "complex G: a mode is judged only if its reference part g satisfies |g^T g| >= 0.2 ||g||^2 (the library's modal scale "
    "factor is the bilinear ratio pinned by test_MSF; isotropic reference vectors are outside its domain); the guard is "
    "computed from G, never from library output",
    "for layouts with more than two setups the placements are covered diagonally (each setup runs through all its "
    "placements while the other setups' placements rotate), the full product is enumerated for two setups - the function "
    "couples setup i only with setup 1",
    "channel lists with 6 or more sensors use the placements {first, last, spread, reversed} instead of all injections",
    "end-to-end: real global shapes (normalising a complex shape to a unit component is a complex factor, outside the "
    "statement's 'real factor' premise); SSIcov with hard criteria neutralised, br = 2m+2, 600 samples at 100 Hz; "
    "conditioning guards from the true system (observability and state-Gram condition numbers)",
    "overall level of the global matrix: G is the unit-level payload matrix (|entries| in [0.2, 1]) times one of "
    "{1e-6, 1e-3, 1, 1e3, 1e6}; every pre-existing case runs at level 1, the other four levels are covered by additional "
    "cases (covering design over level x factor rotation x kind, see bounds); levels beyond 1e+-6 and the end-to-end route "
    "(SSI normalises every identified shape to a unit component, the level of the records is the gain axis) are not varied",
    "order of operations: between the construction of the MultiSetup_PoSER object and a merge_results() call the setups "
    "may legally get new results - add_algorithms with an existing name (replaces the object), rollback() followed by "
    "add_algorithms, a new result object on the same algorithm (run_by_name + mpe), new values on the same result object "
    "(mpe again); the merge is judged against the setups' CURRENT results. Class route: operations x subsets {first, last, "
    "second, all, all-but-first} x sequences {C-M, M-C-M, C-M-M, C-M-C-M} by a covering design over every third layout; the "
    "setups to be re-done start from the restriction of ANOTHER global matrix (a discarded attempt), so a merge executed while "
    "setups disagree on the global matrix is judged on Fn/Xi (mean, population std / mean) only - the premise on the shapes is "
    "not met there. End-to-end: the discarded attempt is an mpe with the modes picked in rotated order, the re-analysis a "
    "real run_by_name + mpe; every fifth case. Operations that change a setup's channel count or the number/type/order "
    "of its algorithms, and the results of a setup changed DURING a merge, are not in the space",
    "tolerances: 1e-10 relative (function/class route), 1e-12 for mean/std, 1e-6 relative for end-to-end shapes "
    "(observed 1e-12), 1e-7 / 1e-6 for end-to-end Fn / Xi",
]

# ---------------------------------------------------------------------------------------------
# alphabets

FACT = [0.05, -0.5, 1.0, -3.0, 20.0, -0.05, 0.5, -1.0, 3.0, -20.0]   # index i and i+5: same magnitude, other sign
N_ROT = 11            # rotations 0..9 of the factor cycle + rotation 10 = "signs only" (all |c| = 1)
KINDS = ("real", "complex-mild", "complex-wide")
POOL_ROWS = 32
POOL_MODES = 8
TOL = 1e-10
TOL_STAT = 1e-12
FULL_PRODUCT_LIMIT = 144      # two-setup layouts with at most this many placement pairs get every factor rotation
LEVELS = [1.0e-6, 1.0e-3, 1.0, 1.0e3, 1.0e6]      # overall level of the global mode-shape matrix (tiny / unit / huge)
NONUNIT = [1.0e-6, 1.0e-3, 1.0e3, 1.0e6]

_POOLS = {}


def pool(seed, kind):
    key = (seed, kind)
    if key not in _POOLS:
        if kind == "int-first":
            # integer-valued real shapes (counts): the first setup's matrix is handed over as an int64 array
            g = np.round(9.0 * payload.entries(seed, "c02/G/int", (POOL_ROWS, POOL_MODES), 0.2, 1.0))
            g[g == 0] = 1.0
        elif kind == "real":
            g = payload.entries(seed, "c02/G/real", (POOL_ROWS, POOL_MODES), 0.2, 1.0)
        elif kind == "complex-mild":
            g = payload.cplx(seed, "c02/G/mild", (POOL_ROWS, POOL_MODES), 0.2, 1.0, phase_spread=0.6)
            g = g * np.where(payload.uniform(seed, "c02/G/mild/s", POOL_ROWS * POOL_MODES) < 0.5, -1.0, 1.0).reshape(g.shape)
        else:
            g = payload.cplx(seed, "c02/G/wide", (POOL_ROWS, POOL_MODES), 0.2, 1.0, phase_spread=np.pi)
        _POOLS[key] = g
    return _POOLS[key]


def factors(nset, nmodes, rot):
    """c[s, k]; rotation 10 = signs only. No two modes of one setup share a factor, no two setups share a magnitude."""
    c = np.empty((nset, nmodes))
    for s in range(nset):
        for k in range(nmodes):
            if rot == 10:
                c[s, k] = -1.0 if (s + k) % 2 else 1.0
            else:
                c[s, k] = FACT[(rot + 3 * s + k) % 10]
    return c


def placements(nch, nref):
    """Ordered placements of the references (position of reference j, j = 0..nref-1) in a list of nch channels."""
    if nch < 6:
        return list(itertools.permutations(range(nch), nref))
    first = tuple(range(nref))
    last = tuple(range(nch - nref, nch))
    spread = tuple((j * (nch - 1)) // (nref - 1) for j in range(nref)) if nref > 1 else (nch // 2,)
    rev = tuple(range(nch - 1, nch - 1 - nref, -1))
    out = []
    for p in (first, last, spread, rev):
        if p not in out:
            out.append(p)
    return out


def tier_axes(thorough):
    if thorough:
        return dict(nset=[2, 3, 4, 5], nref=[1, 2, 3, 4], nrov=[0, 1, 2, 3, 4, 5], modes=[1, 2, 3, 5, 8])
    return dict(nset=[2, 3, 4], nref=[1, 2, 3], nrov=[0, 1, 2, 3], modes=[1, 2, 3])


def slice_layouts(nset, nref, nrov):
    """All layouts (tuples of placements) of one (nset, nref, nrov) slice, in a fixed order."""
    per = [placements(nref + r, nref) for r in nrov]
    if nset == 2:
        return list(itertools.product(*per))
    out = []
    for s in range(nset):
        for j, p in enumerate(per[s]):
            lay = []
            for o in range(nset):
                lay.append(p if o == s else per[o][(j + s + 1 + 2 * o) % len(per[o])])
            out.append(tuple(lay))
    return out


def variants(nset, nlay, j, modes, thorough, off=0):
    """(nmodes, kind, rotation) triples executed on layout j of a slice with nlay layouts (off: per-slice offset)."""
    if nset == 2 and nlay <= FULL_PRODUCT_LIMIT:
        return [(m, kd, r) for m in modes for kd in KINDS for r in range(N_ROT)]
    if nset == 2:
        return [(m, kd, (j + off + 3 * im + ik) % N_ROT) for im, m in enumerate(modes) for ik, kd in enumerate(KINDS)]
    if not thorough:
        return [(modes[(j + ik) % len(modes)], kd, (j + off + 4 * ik) % N_ROT) for ik, kd in enumerate(KINDS)]
    j = j + 7 * off
    return [(modes[(j // 3) % len(modes)], KINDS[j % 3], (j // (3 * len(modes))) % N_ROT)]


def level_variants(nset, nlay, j, modes, thorough, off=0):
    """(nmodes, kind, rotation, level) with level != 1 executed on layout j in ADDITION to variants().

    Two setups, small slices: every factor rotation, the four non-unit levels cycling with the rotation (start shifting
    with the layout), kinds and mode counts cycling. Otherwise one case per layout: level, kind and rotation cycle with
    the layout index with pairwise coprime periods 4, 3, 11, so every (level, kind, rotation) triple occurs within any
    132 consecutive layouts of a slice sequence."""
    nm = len(modes)
    if nset == 2 and nlay <= FULL_PRODUCT_LIMIT:
        return [(modes[(j + r) % nm], KINDS[(j + r // 4) % 3], r, NONUNIT[(j + off + r) % 4]) for r in range(N_ROT)]
    q = j + off
    return [(modes[(q // 4) % nm], KINDS[q % 3], (q + 5) % N_ROT, NONUNIT[q % 4])]


def level_tag(level):
    return f"{level:.0e}"


# ---------------------------------------------------------------------------------------------
# reference model of one layout

def layout_rows(nref, nrov, places):
    """Per setup: (channel position -> global row). Global rows: references 0..nref-1, then roving of setup 1, 2, ..."""
    off = nref
    rows = []
    for s, r in enumerate(nrov):
        nch = nref + r
        chan = [None] * nch
        for j, p in enumerate(places[s]):
            chan[p] = j
        free = [p for p in range(nch) if chan[p] is None]
        for q, p in enumerate(free):
            chan[p] = off + q
        off += r
        rows.append(chan)
    return rows, off


def global_matrix(seed, kind, ntot, nmodes, shift):
    g = pool(seed, kind)
    r = (shift + np.arange(ntot)) % POOL_ROWS
    c = (shift + np.arange(nmodes)) % POOL_MODES
    return g[np.ix_(r, c)]


def setup_arrays(G, rows, c):
    out = []
    for s, chan in enumerate(rows):
        out.append(G[chan, :] * c[s][None, :])
    return out


def guard_modes(G, nref, kind):
    if kind == "real":
        return np.ones(G.shape[1], bool)
    g = G[:nref]
    return np.abs(np.sum(g * g, axis=0)) >= 0.2 * np.sum(np.abs(g) ** 2, axis=0)


def where_wrong(bad_rows, nref, nrov):
    w = []
    b1 = nref + nrov[0]
    if any(r < nref for r in bad_rows):
        w.append("refs")
    if any(nref <= r < b1 for r in bad_rows):
        w.append("roving-setup1")
    if any(r >= b1 for r in bad_rows):
        w.append("roving-later")
    return "+".join(w)


def nontrivial_factors(c, nrov):
    return any(nrov[s] > 0 and np.any(np.abs(c[s]) != np.abs(c[0])) for s in range(1, len(nrov)))


def range_end_on_later_roving(c, nrov, mag):
    """Some setup i >= 2 that has roving sensors carries a factor of magnitude mag (an end of the admissible range)."""
    return any(nrov[s] > 0 and np.any(np.abs(c[s]) == mag) for s in range(1, len(nrov)))


def count_level(t, route, level, c, nrov):
    t.outcomes[f"{route}:level={level_tag(level)}"] += 1
    if level < 1 and range_end_on_later_roving(c, nrov, 0.05):
        t.outcomes[f"{route}:tiny-level-x-smallest-factor-on-later-roving-setup"] += 1
    if level < 1 and range_end_on_later_roving(c, nrov, 20.0):
        t.outcomes[f"{route}:tiny-level-x-largest-factor-on-later-roving-setup"] += 1
    if level > 1 and range_end_on_later_roving(c, nrov, 20.0):
        t.outcomes[f"{route}:huge-level-x-largest-factor-on-later-roving-setup"] += 1
    if level > 1 and range_end_on_later_roving(c, nrov, 0.05):
        t.outcomes[f"{route}:huge-level-x-smallest-factor-on-later-roving-setup"] += 1


def compare_shape(t, out, G, c, ok_modes, nref, nrov, key_prefix, case):
    """Judge a merged matrix against c[0] * G column by column. Returns True when everything judged agreed."""
    ntot, nmodes = G.shape
    out = np.asarray(out)
    if out.shape != (ntot, nmodes):
        t.violation(f"{key_prefix}:shape", f"merged shape {out.shape}, expected {(ntot, nmodes)}", case)
        return False
    exp = G * c[0][None, :]
    good = True
    for k in range(nmodes):
        if not ok_modes[k]:
            t.not_judged += 1
            continue
        den = np.max(np.abs(exp[:, k]))
        d = np.abs(out[:, k] - exp[:, k]) / den
        e = float(np.max(d)) if np.all(np.isfinite(d)) else np.inf
        t.err(f"{key_prefix}:rel", e if np.isfinite(e) else 1e300)
        t.validated += 1
        if not e <= TOL:
            bad = [int(r) for r in np.where(~(d <= TOL))[0]]
            w = where_wrong(bad, nref, nrov)
            r0 = bad[0]
            t.violation(f"{key_prefix}:wrong-values:{w}",
                        f"mode {k}: merged row {r0} = {out[r0, k]:.6g}, expected c1*G = {exp[r0, k]:.6g} "
                        f"(ratio {out[r0, k] / exp[r0, k]:.6g}); factors of this mode per setup {c[:, k].tolist()}; "
                        f"rows wrong {bad}", case)
            good = False
    return good


# ---------------------------------------------------------------------------------------------
# route 1: function level

def judge_merge(t, seed, nref, nrov, places, nmodes, kind, rot, shift, nt_id=None, level=1.0):
    nset = len(nrov)
    rows, ntot = layout_rows(nref, nrov, places)
    G = global_matrix(seed, kind, ntot, nmodes, shift)
    if level != 1.0:
        G = level * G                      # the reference model below is built on this very matrix
    c = factors(nset, nmodes, rot)
    if kind == "int-first":
        c[0, :] = 1.0                      # the first setup is the integer-valued restriction of G itself
    ok_modes = guard_modes(G, nref, kind)
    case = {"route": "merge", "seed": seed, "nref": nref, "nrov": list(nrov), "places": [list(p) for p in places],
            "nmodes": nmodes, "kind": kind, "rot": rot, "shift": shift, "level": level}
    t.states += 1
    if not ok_modes.any():
        t.skipped_by_guard += 1
        return
    MS = setup_arrays(G, rows, c)
    if kind == "int-first":
        MS[0] = np.round(MS[0]).astype(np.int64)
    t.evaluations += 1
    t.transitions += 1
    try:
        out = merge_mode_shapes(MSarr_list=MS, reflist=[list(p) for p in places])
    except Exception as e:
        t.violation(f"raises:{type(e).__name__}:merge_mode_shapes", f"merge_mode_shapes raised {type(e).__name__}: {e}", case)
        return
    good = compare_shape(t, out, G, c, ok_modes, nref, nrov,
                         "merge" if level == 1.0 else f"merge:level={level_tag(level)}", case)
    count_level(t, "merge", level, c, nrov)
    nt = nontrivial_factors(c, nrov)
    if nt and nt_id is not None:
        t.nontrivial.add(nt_id)
    t.outcomes[f"merge:{kind}:{'ok' if good else 'BAD'}"] += 1
    if rot == 10:
        t.outcomes["merge:signs-only"] += 1
    else:
        t.outcomes["merge:nontrivial-factors" if nt else "merge:no-roving-in-later-setups"] += 1
    if any(r == 0 for r in nrov):
        t.outcomes["merge:some-setup-without-roving"] += 1
    if any(tuple(p) != tuple(range(nref)) for p in places):
        t.outcomes["merge:references-not-leading"] += 1
    if any(list(p) != sorted(p) for p in places):
        t.outcomes["merge:references-out-of-order"] += 1


def judge_flatten(t, nref, nrov, places):
    rows, ntot = layout_rows(nref, nrov, places)
    names = [[(f"R{g}@{s}" if g < nref else f"g{g}") for g in chan] for s, chan in enumerate(rows)]
    expn = [f"REF{j + 1}" for j in range(nref)] + [f"g{r}" for r in range(nref, ntot)]
    case = {"route": "flatten", "nref": nref, "nrov": list(nrov), "places": [list(p) for p in places]}
    t.evaluations += 1
    t.transitions += 1
    try:
        got = flatten_sns_names(names, [list(p) for p in places])
    except Exception as e:
        t.violation(f"raises:{type(e).__name__}:flatten_sns_names", f"flatten_sns_names raised {type(e).__name__}: {e}", case)
        return
    t.validated += 1
    if list(got) != expn:
        t.violation("flatten:order", f"flatten_sns_names gave {list(got)}, the merged rows are {expn}", case)
        t.outcomes["flatten:BAD"] += 1
    else:
        t.outcomes["flatten:ok"] += 1


# ---------------------------------------------------------------------------------------------
# route 2: MultiSetup_PoSER.merge_results on assigned results

def stat_payload(seed, tag, nset, nmodes):
    u = payload.uniform(seed, f"c02/stat/{tag}", nset * nmodes * 2, -1.0, 1.0).reshape(2, nset, nmodes)
    fn0 = 1.0 + 2.3 * np.arange(nmodes)
    xi0 = 0.01 * (1 + np.arange(nmodes))
    return fn0[None, :] * (1 + 0.01 * u[0]), xi0[None, :] * (1 + 0.2 * u[1])


def mean_popstd(x):
    n = x.shape[0]
    mu = np.sum(x, axis=0) / n
    sd = np.sqrt(np.sum((x - mu[None, :]) ** 2, axis=0) / n)
    return mu, sd / mu


def judge_class(t, seed, nref, nrov, places, nmodes, kind, rot, shift, two_algs, nt_id=None, level=1.0):
    nset = len(nrov)
    rows, ntot = layout_rows(nref, nrov, places)
    G = global_matrix(seed, kind, ntot, nmodes, shift)
    if level != 1.0:
        G = level * G
    ok_modes = guard_modes(G, nref, kind)
    case = {"route": "class", "seed": seed, "nref": nref, "nrov": list(nrov), "places": [list(p) for p in places],
            "nmodes": nmodes, "kind": kind, "rot": rot, "shift": shift, "two_algs": bool(two_algs), "level": level}
    t.states += 1
    if not ok_modes.any():
        t.skipped_by_guard += 1
        return
    groups = [("cov", SSIcov, rot, "a")] + ([("dat", SSIdat, (rot + 3) % 10, "b")] if two_algs else [])
    want = {}
    setups = [SingleSetup(np.zeros((4, nref + r)), fs=10.0) for r in nrov]
    for gname, cls, grot, tag in groups:
        c = factors(nset, nmodes, grot)
        MS = setup_arrays(G, rows, c)
        Fn, Xi = stat_payload(seed, f"{tag}/{shift}", nset, nmodes)
        want[gname] = (c, Fn, Xi)
        for s in range(nset):
            alg = cls(name=f"{tag}{s}", br=2)
            alg.result = SSIResult(Fn=Fn[s].copy(), Xi=Xi[s].copy(), Phi=MS[s].copy())
            setups[s].add_algorithms(alg)
    t.evaluations += 1
    t.transitions += 1
    try:
        msp = MultiSetup_PoSER(ref_ind=[list(p) for p in places], single_setups=setups, names=[g[0] for g in groups])
        res = msp.merge_results()
    except Exception as e:
        t.violation(f"raises:{type(e).__name__}:MultiSetup_PoSER", f"PoSER construction/merge_results raised {type(e).__name__}: {e}", case)
        return
    good = True
    if sorted(res.keys()) != sorted(g[0] for g in groups):
        t.violation("poser:result-keys", f"merge_results keys {sorted(res.keys())}", case)
        return
    for gname, (c, Fn, Xi) in want.items():
        r = res[gname]
        good &= compare_shape(t, r.Phi, G, c, ok_modes, nref, nrov,
                              "poser" if level == 1.0 else f"poser:level={level_tag(level)}", case)
        count_level(t, "class", level, c, nrov)
        for nm, x, got_mu, got_cv in (("Fn", Fn, r.Fn, r.Fn_cov), ("Xi", Xi, r.Xi, r.Xi_cov)):
            mu, cv = mean_popstd(x)
            for label, a, b in ((nm, got_mu, mu), (nm + "_cov", got_cv, cv)):
                a = np.asarray(a, float)
                t.validated += 1
                if a.shape != b.shape or not np.all(np.abs(a - b) <= TOL_STAT * np.maximum(np.abs(b), 1e-3)):
                    t.violation(f"poser:{label}", f"{label} = {a.tolist()}, expected {b.tolist()} "
                                f"(arithmetic mean / population std over mean of {x.tolist()})", case)
                    good = False
                else:
                    t.err(f"poser:{label}", float(np.max(np.abs(a - b))))
        if nontrivial_factors(c, nrov) and nt_id is not None:
            t.nontrivial.add(nt_id)
    t.outcomes[f"class:{'two-algorithms' if two_algs else 'one-algorithm'}:{'ok' if good else 'BAD'}"] += 1


# ---------------------------------------------------------------------------------------------
# route 2b: order of legal operations around an EXISTING MultiSetup_PoSER object
#
# The statement speaks of "each setup's mode-shape matrix" and of means "over the setups": what a merge returns is a function
# of the results the setups hold WHEN merge_results() is called, whatever was done to the setups between the construction of
# the PoSER object and the merge. Legal operations on a SingleSetup that give it new results (an analyst re-doing a setup):
#   replace               add_algorithms(<new algorithm object with the existing name>) - overwrites the dictionary entry
#   rollback-readd        rollback() (empties the setup's algorithms) followed by add_algorithms(<new objects>)
#   rerun-same-object     the same algorithm object gets a new result object (what run_by_name + mpe do)
#   re-extract-in-place   the same result object gets new Fn / Xi / Phi (what a second mpe() does)
# Every merge of a sequence is judged against the reference model evaluated on the setups' CURRENT results.

OPS = ("replace", "rollback-readd", "rerun-same-object", "re-extract-in-place")
SUBSETS = ("first", "last", "second", "all", "all-but-first")
SEQS = ("C-M", "M-C-M", "C-M-M", "C-M-C-M")          # C = change the results of a subset of setups, M = merge_results() (judged)
GSEL = ("both", "first-group", "second-group")       # which algorithm group(s) a change touches when there are two
OLD_SHIFT = 11                                       # the discarded first attempt saw another global matrix (wrong modes picked)


def subset_members(name, nset):
    return {"first": [0], "last": [nset - 1], "second": [1], "all": list(range(nset)),
            "all-but-first": list(range(1, nset))}[name]


def ops_plan(q):
    """(op, subset, sequence, group selection, two algorithm groups) of ops case number q.

    op = q mod 4 and sequence = (q div 4) mod 4 run through their 16 pairs in 16 consecutive q, the subset has period 5:
    all 80 (op, subset, sequence) triples within any 80 consecutive q; two groups on every third block of two."""
    return OPS[q % 4], SUBSETS[q % 5], SEQS[(q // 4) % 4], GSEL[(q // 3) % 3], (q // 2) % 3 == 0


def judge_class_ops(t, seed, nref, nrov, places, nmodes, kind, rot, shift, two_algs, op, subset, seq, gsel, nt_id=None, level=1.0):
    nset = len(nrov)
    rows, ntot = layout_rows(nref, nrov, places)
    Gs = [global_matrix(seed, kind, ntot, nmodes, shift),                               # 0: the global matrix
          global_matrix(seed, kind, ntot, nmodes, (shift + OLD_SHIFT) % POOL_ROWS)]     # 1: what the discarded attempt saw
    if level != 1.0:
        Gs = [level * g for g in Gs]
    oks = [guard_modes(g, nref, kind) for g in Gs]
    case = {"route": "class-ops", "seed": seed, "nref": nref, "nrov": list(nrov), "places": [list(p) for p in places],
            "nmodes": nmodes, "kind": kind, "rot": rot, "shift": shift, "two_algs": bool(two_algs), "level": level,
            "op": op, "subset": subset, "seq": seq, "gsel": gsel}
    t.states += 1
    if not oks[0].any():
        t.skipped_by_guard += 1
        return
    groups = [("cov", SSIcov, rot, "a")] + ([("dat", SSIdat, (rot + 3) % 10, "b")] if two_algs else [])
    touched = [g[0] for g in groups] if (gsel == "both" or not two_algs) else [groups[0 if gsel == "first-group" else 1][0]]
    iop, isub = OPS.index(op), SUBSETS.index(subset)
    # the changes of this sequence: (operation, setups, generation it installs)
    changes = [(op, subset_members(subset, nset), 1)]
    if seq == "C-M-C-M":
        changes.append((OPS[(iop + 1) % 4], subset_members(SUBSETS[(isub + 2) % 5], nset), 2))
    first_changed = set(changes[0][1])

    def values(gname, s, gen, gidx):
        """Results of generation gen for setup s of a group: own factors, own Fn/Xi, restriction of global matrix gidx."""
        _, _, grot, tag = [g for g in groups if g[0] == gname][0]
        c = factors(nset, nmodes, (grot + 3 * gen) % 10)[s]
        Fn, Xi = stat_payload(seed, f"{tag}/{shift}/gen{gen}", nset, nmodes)
        return c, Fn[s].copy(), Xi[s].copy(), Gs[gidx][rows[s], :] * c[None, :]

    # state of the reference model: per group and setup the (generation, global matrix) its CURRENT result was made from
    cur = {}
    setups = [SingleSetup(np.zeros((4, nref + r)), fs=10.0) for r in nrov]
    for gname, cls, grot, tag in groups:
        for s in range(nset):
            # setups that are going to be re-done start from the discarded attempt (other global matrix)
            gidx = 1 if s in first_changed else 0
            c, Fn, Xi, Phi = values(gname, s, 0, gidx)
            alg = cls(name=f"{tag}{s}", br=2)
            alg.result = SSIResult(Fn=Fn, Xi=Xi, Phi=Phi)
            setups[s].add_algorithms(alg)
            cur[(gname, s)] = (0, gidx)

    def apply(cop, members, gen):
        for s in members:
            which = [g[0] for g in groups] if cop == "rollback-readd" else touched
            if cop == "rollback-readd":
                setups[s].rollback()                      # legal: restores the data, forgets the setup's algorithms
                fresh = []
            for gname, cls, grot, tag in groups:
                if gname not in which:
                    continue
                c, Fn, Xi, Phi = values(gname, s, gen, 0)
                name = f"{tag}{s}"
                if cop == "replace":
                    alg = cls(name=name, br=2)
                    alg.result = SSIResult(Fn=Fn, Xi=Xi, Phi=Phi)
                    setups[s].add_algorithms(alg)
                elif cop == "rollback-readd":
                    alg = cls(name=name, br=2)
                    alg.result = SSIResult(Fn=Fn, Xi=Xi, Phi=Phi)
                    fresh.append(alg)
                elif cop == "rerun-same-object":
                    setups[s][name].result = SSIResult(Fn=Fn, Xi=Xi, Phi=Phi)
                else:
                    r = setups[s][name].result
                    r.Fn, r.Xi, r.Phi = Fn, Xi, Phi
                cur[(gname, s)] = (gen, 0)
            if cop == "rollback-readd":
                if (s + gen) % 2:
                    setups[s].add_algorithms(*fresh)
                else:
                    for alg in fresh:
                        setups[s].add_algorithms(alg)

    def judge(res, after):
        good = True
        if sorted(res.keys()) != sorted(g[0] for g in groups):
            t.violation(f"poser-ops:{after}:result-keys", f"merge_results keys {sorted(res.keys())}", case)
            return False
        for gname, cls, grot, tag in groups:
            r = res[gname]
            st = [cur[(gname, s)] for s in range(nset)]
            vals = [values(gname, s, st[s][0], st[s][1]) for s in range(nset)]
            c = np.array([v[0] for v in vals])
            gidx = {x[1] for x in st}
            if len(gidx) == 1 and not oks[min(gidx)].any():
                t.not_judged += nmodes                    # complex-shape guard (from the global matrix in force), as in the class route
            elif len(gidx) == 1:
                # the premise holds: every setup's current matrix is a restriction of ONE global matrix
                gi = min(gidx)
                good &= compare_shape(t, r.Phi, Gs[gi], c, oks[gi], nref, nrov, f"poser-ops:{after}", case)
                t.outcomes["class-ops:Phi-judged"] += 1
            else:
                # some setups still hold the discarded attempt (another global matrix): the premise on the shapes is not met
                t.not_judged += nmodes
                t.outcomes["class-ops:Phi-not-judged(setups-disagree-on-the-global-matrix)"] += 1
            for nm, x, got_mu, got_cv in (("Fn", np.array([v[1] for v in vals]), r.Fn, r.Fn_cov),
                                          ("Xi", np.array([v[2] for v in vals]), r.Xi, r.Xi_cov)):
                mu, cv = mean_popstd(x)
                for label, a, b in ((nm, got_mu, mu), (nm + "_cov", got_cv, cv)):
                    a = np.asarray(a, float)
                    t.validated += 1
                    if a.shape != b.shape or not np.all(np.abs(a - b) <= TOL_STAT * np.maximum(np.abs(b), 1e-3)):
                        t.violation(f"poser-ops:{after}:{label}", f"{label} = {a.tolist()}, expected {b.tolist()} (arithmetic mean / "
                                    f"population std over mean of the setups' CURRENT results {x.tolist()})", case)
                        good = False
                    else:
                        t.err(f"poser-ops:{label}", float(np.max(np.abs(a - b))))
            if nontrivial_factors(c, nrov) and nt_id is not None:
                t.nontrivial.add(nt_id)
        return good

    t.evaluations += 1
    good = True
    after = "before-any-change"
    todo = list(changes)
    try:
        msp = MultiSetup_PoSER(ref_ind=[list(p) for p in places], single_setups=setups, names=[g[0] for g in groups])
        for step in seq.split("-"):
            if step == "C":
                cop, members, gen = todo.pop(0)
                apply(cop, members, gen)
                after = f"after-{cop}"
            else:
                t.transitions += 1
                res = msp.merge_results()
                good &= judge(res, after)
    except Exception as e:
        t.violation(f"raises:{type(e).__name__}:MultiSetup_PoSER-ops", f"PoSER construction / {after} / merge_results raised "
                    f"{type(e).__name__}: {e}", case)
        return
    t.outcomes[f"class-ops:{'ok' if good else 'BAD'}"] += 1
    t.outcomes[f"class-ops:op={op}:seq={seq}"] += 1
    t.outcomes[f"class-ops:op={op}:setups={subset}"] += 1
    t.outcomes[f"class-ops:{'two-algorithms:' + gsel if two_algs else 'one-algorithm'}"] += 1
    if 0 in first_changed:
        t.outcomes["class-ops:first-setup-re-done"] += 1
    if any(nrov[s] > 0 for s in first_changed if s > 0):
        t.outcomes["class-ops:later-setup-with-roving-re-done"] += 1
    if level != 1.0:
        t.outcomes["class-ops:non-unit-level"] += 1


# ---------------------------------------------------------------------------------------------
# route 3: end to end through SingleSetup + SSIcov (own small free-decay generator)

E2E_FS = 100.0
E2E_N = 600
E2E_GAINS = [1.0, -7.3, 0.02]
NH = dict(conj=False, xi_max=1.0, mpc_lim=0.0, mpd_lim=10.0, cov_max=1e9)


def e2e_system(seed, m, ntot, dom_rows):
    """Poles and real global shapes; mode k's largest component (1.6) sits on row dom_rows[k]."""
    fnorm = np.linspace(0.05, 0.41, m + 2)[1:-1] + 0.004 * payload.uniform(seed, f"c02/e2e/f/{m}", m, -1, 1)
    fn = fnorm * E2E_FS
    xi = np.linspace(0.006, 0.03, m)
    wn = 2 * np.pi * fn
    lam = -xi * wn + 1j * wn * np.sqrt(1 - xi ** 2)
    G = payload.entries(seed, f"c02/e2e/G/{m}/{ntot}", (ntot, m), 0.2, 1.0)
    for k, r in enumerate(dom_rows):
        G[r, k] = 1.6 * np.sign(G[r, k])
    return fn, xi, lam, G


def decay(lam, Phi, amp, n, fs):
    z = np.exp(np.outer(lam / fs, np.arange(n)))
    return (2 * np.real((Phi * amp[None, :]) @ z)).T


def e2e_guard(lam, Phi, amp, br):
    zd = np.exp(lam / E2E_FS)
    zz = np.concatenate([zd, zd.conj()])
    PP = np.hstack([Phi, Phi.conj()]).astype(complex)
    Op = np.vstack([PP * zz ** i for i in range(br)])
    X = np.array([np.concatenate([amp, amp.conj()]) * zz ** k for k in range(E2E_N)]).T
    s = np.linalg.svd(X, compute_uv=False)
    return float(np.linalg.cond(Op)), float(s[0] / s[-1])


def ls_ratio(a, b):
    """alpha minimising ||alpha * a - b|| (ordinary complex least squares; a, b 1-D)."""
    return np.vdot(a, b) / np.vdot(a, a)


E2E_OPS = ("replace", "rollback-readd", "re-mpe-same-object", "rerun-same-object")


def e2e_ops_plan(k):
    """(operation, subset of setups re-analysed, merge once before the re-analysis) of end-to-end ops case number k:
    periods 4, 5 and (k div 4) mod 2 - all 40 triples within any 40 consecutive k."""
    return E2E_OPS[k % 4], SUBSETS[k % 5], (k // 4) % 2 == 1


def judge_e2e(t, seed, nref, nrov, places, m, dshift, nt_id=None, ops=None):
    """ops = None: analyse every setup, build the PoSER object, merge. ops = (operation, subset, premerge): the setups of
    the subset are first analysed with a slip (the modes picked in rotated order), the PoSER object is built (and merged once
    if premerge), THEN those setups are re-analysed correctly by the given legal operation, then merge_results() is judged."""
    pre = "e2e" if ops is None else "e2e-ops"
    nset = len(nrov)
    rows, ntot = layout_rows(nref, nrov, places)
    # dominant component of mode k: first roving sensor of setup (k + dshift) % nset
    first_rov = [nref + sum(nrov[:s]) for s in range(nset)]
    dom = [first_rov[(k + dshift) % nset] for k in range(m)]
    fn, xi, lam, G = e2e_system(seed, m, ntot, dom)
    br = 2 * m + 2
    case = {"route": "e2e", "seed": seed, "nref": nref, "nrov": list(nrov), "places": [list(p) for p in places],
            "m": m, "dshift": dshift, "ops": list(ops) if ops is not None else None}
    t.states += 1
    amps = []
    for s in range(nset):
        a = payload.uniform(seed, f"c02/e2e/a/{s}", m, 1.0, 2.0) * np.exp(1j * payload.uniform(seed, f"c02/e2e/p/{s}", m, 0, 2 * np.pi))
        amps.append(a)
        cO, cX = e2e_guard(lam, G[rows[s]], a, br)
        t.err(f"{pre}:cond-obs", cO)
        t.err(f"{pre}:cond-states", cX)
        if not (cO <= 1e6 and cX <= 1e8):
            t.skipped_by_guard += 1
            return
    setups = []
    shapes = []
    t.evaluations += 1
    t.transitions += 1
    right = [float(f) for f in fn]
    slip = [float(f) for f in np.roll(fn, -1)]          # first attempt of a setup that is re-analysed later: modes in rotated order
    members = subset_members(ops[1], nset) if ops is not None else []
    try:
        for s in range(nset):
            Y = E2E_GAINS[(s + dshift) % 3] * decay(lam, G[rows[s]], amps[s], E2E_N, E2E_FS)
            ss = SingleSetup(Y, fs=E2E_FS)
            alg = SSIcov(name=f"ssi{s}", br=br, ordmax=2 * m, method="cov_mm", hc=dict(NH))
            ss.add_algorithms(alg)
            ss.run_all()
            ss.mpe(f"ssi{s}", sel_freq=slip if s in members else right, order=2 * m)
            setups.append(ss)
        msp = MultiSetup_PoSER(ref_ind=[list(p) for p in places], single_setups=setups, names=["ssi"])
        if ops is not None:
            op, _, premerge = ops
            if premerge:
                msp.merge_results()                     # a merge of the state with the slip (not judged: the premise is not met)
            for s in members:
                ss, name = setups[s], f"ssi{s}"
                if op == "rollback-readd":
                    ss.rollback()
                if op in ("replace", "rollback-readd"):
                    ss.add_algorithms(SSIcov(name=name, br=br, ordmax=2 * m, method="cov_mm", hc=dict(NH)))
                if op != "re-mpe-same-object":
                    ss.run_by_name(name)
                ss.mpe(name, sel_freq=right, order=2 * m)
        for s in range(nset):
            shapes.append(np.array(setups[s][f"ssi{s}"].result.Phi))      # the setups' CURRENT results
        res = msp.merge_results()["ssi"]
    except Exception as e:
        t.violation(f"raises:{type(e).__name__}:{pre}", f"end-to-end route raised {type(e).__name__}: {e}", case)
        return
    # measured non-triviality: factor between setup i and setup 1 on the reference rows of the IDENTIFIED shapes
    measured = False
    for s in range(1, nset):
        if nrov[s] == 0 or shapes[s].shape != (nref + nrov[s], m) or shapes[0].shape != (nref + nrov[0], m):
            continue
        for k in range(m):
            al = ls_ratio(shapes[s][list(places[s]), k], shapes[0][list(places[0]), k])
            if not np.isfinite(al):
                continue
            if abs(abs(al) - 1) > 0.05:
                measured = True
                t.outcomes[f"{pre}:measured-factor>1" if abs(al) > 1 else f"{pre}:measured-factor<1"] += 1
                t.outcomes[f"{pre}:measured-factor-negative" if al.real < 0 else f"{pre}:measured-factor-positive"] += 1
            else:
                t.outcomes[f"{pre}:measured-factor~1"] += 1
    if measured and nt_id is not None:
        t.nontrivial.add(nt_id)
    # expectation: global shape in the scale of the first setup = unit largest component among setup 1's sensors
    good = True
    Phi = np.asarray(res.Phi)
    if Phi.shape != (ntot, m):
        t.violation(f"{pre}:shape", f"merged Phi shape {Phi.shape}, expected {(ntot, m)}", case)
        return
    for k in range(m):
        g1 = G[rows[0], k]
        r1 = rows[0][int(np.argmax(np.abs(g1)))]
        exp = G[:, k] / G[r1, k]
        d = np.abs(Phi[:, k] - exp) / np.max(np.abs(exp))
        e = float(np.max(d)) if np.all(np.isfinite(d)) else np.inf
        t.err(f"{pre}:Phi-rel", e if np.isfinite(e) else 1e300)
        t.validated += 1
        if not e <= 1e-6:
            bad = [int(r) for r in np.where(~(d <= 1e-6))[0]]
            r0 = bad[0]
            t.violation(f"{pre}:Phi:{where_wrong(bad, nref, nrov)}",
                        f"mode {k}: merged row {r0} = {Phi[r0, k]:.6g}, global shape in the first setup's scale = {exp[r0]:.6g} "
                        f"(ratio {Phi[r0, k] / exp[r0]:.6g}); rows wrong {bad}", case)
            good = False
    for nm, got, ref, tol in (("Fn", res.Fn, fn, 1e-7), ("Xi", res.Xi, xi, 1e-6)):
        got = np.asarray(got, float)
        t.validated += 1
        if got.shape != ref.shape or not np.all(np.abs(got - ref) <= tol * np.abs(ref)):
            t.violation(f"{pre}:{nm}", f"merged {nm} = {got.tolist()}, true {ref.tolist()}", case)
            good = False
        else:
            t.err(f"{pre}:{nm}-rel", float(np.max(np.abs(got - ref) / np.abs(ref))))
    for nm, got in (("Fn_cov", res.Fn_cov), ("Xi_cov", res.Xi_cov)):
        got = np.asarray(got, float)
        t.validated += 1
        if got.shape != (m,) or not np.all(np.abs(got) <= 1e-6):
            t.violation(f"{pre}:{nm}", f"{nm} = {got.tolist()} for setups that all see the same poles (expected ~0)", case)
            good = False
    t.outcomes[f"{pre}:{'ok' if good else 'BAD'}"] += 1
    if ops is not None:
        t.outcomes[f"e2e-ops:op={ops[0]}:setups={ops[1]}"] += 1
        t.outcomes[f"e2e-ops:op={ops[0]}:{'merged-before-the-re-analysis' if ops[2] else 'first-merge-after-the-re-analysis'}"] += 1


# ---------------------------------------------------------------------------------------------
# exploration

_CFG = {}


def work_merge(item):
    """One part of one (nset, nref, nrov) slice: layouts j = part, part + nparts, ..."""
    sidx, nset, nref, nrov, part, nparts, do_class = item
    seed, thorough, modes = _CFG["seed"], _CFG["thorough"], _CFG["modes"]
    t = Tally()
    lays = slice_layouts(nset, nref, nrov)
    nlay = len(lays)
    for j in range(part, nlay, nparts):
        places = lays[j]
        lid = (sidx << 20) | j
        shift = (j + sidx) % POOL_ROWS
        judge_flatten(t, nref, nrov, places)
        vs = variants(nset, nlay, j, modes, thorough, sidx)
        for iv, (nm, kd, rot) in enumerate(vs):
            judge_merge(t, seed, nref, nrov, places, nm, kd, rot, shift, nt_id=(lid << 9) | iv)
        for il, (nm, kd, rot, lev) in enumerate(level_variants(nset, nlay, j, modes, thorough, sidx)):
            judge_merge(t, seed, nref, nrov, places, nm, kd, rot, shift, nt_id=(lid << 9) | (len(vs) + il), level=lev)
        if j % 3 == 0:
            judge_merge(t, seed, nref, nrov, places, modes[j % len(modes)], "int-first", (j + sidx) % 10, shift, nt_id=(lid << 9) | 511)
        if do_class:
            nm = modes[j % len(modes)] if not thorough else [1, 2, 3][j % 3]
            kd = KINDS[(j // 2) % 3]
            rot = (j + sidx) % 10
            two = (j % 4 == 0)
            judge_class(t, seed, nref, nrov, places, nm, kd, rot, shift, two, nt_id=-1 - lid)
            if j % 3 == 1 or nlay < 3:
                # additional class-route case at a non-unit level of G (level, kind, rotation cycle with the layout)
                q = j // 3 + sidx
                # level: q mod 4, sign half of the factor cycle: next bit of q, position in the cycle: q mod 5, kind: q mod 3
                # (periods 8, 5, 3: every (level, rotation 0..9, kind) triple within 120 consecutive q)
                judge_class(t, seed, nref, nrov, places, nm, KINDS[q % 3], (q % 5) + 5 * ((q // 4) % 2), shift,
                            ((q // 8) % 4 == 0), nt_id=("cl", lid), level=NONUNIT[q % 4])
            if j % 3 == 2 or nlay < 3:
                # order of legal operations around an existing PoSER object (operation, subset of setups, sequence of
                # changes and merges, group selection, level and kind all cycle with the case number q)
                q = j // 3 + 5 * sidx
                op, subset, seq, gsel, two2 = ops_plan(q)
                lev = NONUNIT[(q // 20) % 4] if (q // 5) % 4 == 0 else 1.0
                judge_class_ops(t, seed, nref, nrov, places, nm, KINDS[q % 3], (q + sidx) % 10, shift, two2, op, subset, seq, gsel,
                                nt_id=("co", lid), level=lev)
        if j == part and part == 0 and sidx % 37 == 0:
            t.sample({"route": "merge", "nref": nref, "nrov": list(nrov), "places": [list(p) for p in places],
                      "variants_on_this_layout": len(vs)})
    return t


def e2e_space(thorough):
    out = []
    nrov_vals = [1, 2, 3] if thorough else [1, 2]
    for nset in (2, 3):
        for nref in ((1, 2, 3) if thorough else (1, 2)):
            for nrov in itertools.product(nrov_vals, repeat=nset):
                per = []
                for r in nrov:
                    nch = nref + r
                    cat = []
                    for p in (tuple(range(nref)), tuple(range(nch - nref, nch)), tuple(range(nch - 1, nch - 1 - nref, -1))):
                        if p not in cat:
                            cat.append(p)
                    per.append(cat)
                if nset == 2:
                    lays = list(itertools.product(*per))
                else:
                    lays = []
                    for s in range(nset):
                        for j, p in enumerate(per[s]):
                            lay = tuple(p if o == s else per[o][(j + s + o) % len(per[o])] for o in range(nset))
                            if lay not in lays:
                                lays.append(lay)
                for places in lays:
                    for m in ((2, 3, 4) if thorough else (2, 3)):
                        for dshift in range(nset):
                            out.append((nref, nrov, places, m, dshift))
    return out


def work_e2e(item):
    idx, (nref, nrov, places, m, dshift) = item
    t = Tally()
    judge_e2e(t, _CFG["seed"], nref, nrov, places, m, dshift, nt_id=("e", idx))
    if idx % 5 == 2:
        # the same case with an order of operations: slip, PoSER object, re-analysis of a subset of setups, merge
        judge_e2e(t, _CFG["seed"], nref, nrov, places, m, dshift, nt_id=("eo", idx), ops=e2e_ops_plan(idx // 5))
    if idx % 97 == 0:
        t.sample({"route": "e2e", "nref": nref, "nrov": list(nrov), "places": [list(p) for p in places], "m": m, "dshift": dshift,
                  "max_err": dict(t.max_err)})
    return t


def explore(ctx):
    ax = tier_axes(ctx.thorough)
    qx = tier_axes(False)
    _CFG.update(seed=ctx.seed, thorough=ctx.thorough, modes=ax["modes"])
    items = []
    sidx = 0
    nlayouts = 0
    for nset in ax["nset"]:
        for nref in ax["nref"]:
            for nrov in itertools.product(ax["nrov"], repeat=nset):
                sidx += 1
                per = [len(placements(nref + r, nref)) for r in nrov]
                nlay = int(np.prod(per)) if nset == 2 else int(sum(per))
                nlayouts += nlay
                nv = len(variants(nset, nlay, 0, ax["modes"], ctx.thorough))
                in_quick = nset in qx["nset"] and nref in qx["nref"] and all(r in qx["nrov"] for r in nrov)
                do_class = nset <= 3 or (ctx.thorough and in_quick)
                nparts = max(1, (nlay * (nv + (4 if do_class else 0)) * nset) // 40000)
                for part in range(nparts):
                    items.append((sidx, nset, nref, nrov, part, nparts, do_class))
    e2e = list(enumerate(e2e_space(ctx.thorough)))
    ctx.bounds = {
        "merge/class routes": {
            "setups": ax["nset"], "references": ax["nref"], "roving_per_setup": ax["nrov"], "modes": ax["modes"],
            "placements": "every ordered injection of the references into the channel list for n_ch < 6; {first,last,spread,reversed} for n_ch >= 6",
            "placement_product": "full product for 2 setups; diagonal covering for >= 3 setups",
            "kinds": list(KINDS), "factor_cycle": FACT, "rotations": "0..9 of the cycle c[s,k]=F[(rot+3s+k)%10] plus 10 = signs only",
            "variants_per_layout": f"2 setups and <= {FULL_PRODUCT_LIMIT} layouts in the slice: modes x kinds x 11 rotations; 2 setups, larger slices: "
                                   "modes x kinds x 1 rotation (rotating with the layout index); >= 3 setups: quick 3 kinds x 1 rotation with "
                                   "rotating mode count, thorough 1 variant per layout cycling through modes x kinds x rotations",
            "levels": LEVELS,
            "level_axis": "overall level of G: all variants above run at level 1; in addition, on every layout, non-unit levels "
                          "{1e-6, 1e-3, 1e3, 1e6}: 2 setups and small slices: 11 rotations with the four levels cycling along the "
                          "rotation; all other slices: one case per layout with (level, kind, rotation) cycling with periods "
                          "(4, 3, 11); class route: one additional PoSER merge at a non-unit level on every third layout (every "
                          "layout of slices with fewer than 3 layouts), (level, rotation 0..9, kind) cycling with period 120, every "
                          "fourth block of 8 with two algorithm groups",
            "layouts": nlayouts, "slices": sidx,
            "class_route": "one PoSER merge per layout with <= 3 setups (thorough: plus the 4-setup layouts of the quick lattice); every 4th with two algorithm groups",
            "order_of_operations": {
                "where": "class route, on every third layout (every layout of slices with fewer than 3 layouts): the PoSER object is built "
                         "FIRST, from setups of which a subset still holds a discarded first attempt (restriction of another global "
                         "matrix, other factors, other Fn/Xi), then the sequence of changes (C) and merges (M) is executed on that one "
                         "object; every M is judged against the setups' CURRENT results (Phi only when all setups agree on the global matrix)",
                "operations": list(OPS), "setups_re_done": list(SUBSETS), "sequences": list(SEQS),
                "second change of C-M-C-M": "next operation of the list on the subset two places further, a third generation of factors / Fn / Xi",
                "two_groups": "every third block of two case numbers; the change touches " + ", ".join(GSEL) + " (rollback renews all groups)",
                "covering": "operation = q mod 4, subset = q mod 5, sequence = (q div 4) mod 4, kind = q mod 3, one block of five in four at a "
                            "non-unit level of G; all 80 (operation, subset, sequence) triples within 80 consecutive case numbers q",
            },
        },
        "e2e route": {"cases": len(e2e), "setups": [2, 3], "references": [1, 2, 3] if ctx.thorough else [1, 2],
                      "roving_per_setup": [1, 2, 3] if ctx.thorough else [1, 2], "modes": [2, 3, 4] if ctx.thorough else [2, 3],
                      "placements": "{first, last, reversed}; product for 2 setups, diagonal for 3",
                      "dominant_shift": "mode k's largest component (1.6 vs <= 1) is the first roving sensor of setup (k+shift) % n_setups, shift = 0..n_setups-1",
                      "record gains": E2E_GAINS, "samples": E2E_N, "fs": E2E_FS, "br": "2m+2", "order": "2m",
                      "order_of_operations": "every fifth case is executed a second time as: the setups of a subset " + str(list(SUBSETS)) +
                                             " are analysed with a slip (modes picked in rotated order), the PoSER object is built (and on "
                                             "every second block of four merged once), the subset is re-analysed by one of " + str(list(E2E_OPS)) +
                                             " (new SSIcov under the same name / rollback() and a new SSIcov / mpe again on the same object / "
                                             "run_by_name and mpe again on the same object), then merge_results() is judged as in the plain case"},
        "payload": f"mc.payload pools keyed by VERIF_SEED={ctx.seed}",
    }
    # biggest items first for load balance
    items.sort(key=lambda it: -len(it[3]) * 10 - it[2])
    ctx.pmap(work_merge, items, chunksize=1)
    ctx.pmap(work_e2e, e2e, chunksize=4)
    ctx.require("merge:real:ok", "merge:int-first:ok", "merge:complex-mild:ok", "merge:complex-wide:ok", "merge:nontrivial-factors",
                "merge:signs-only", "merge:some-setup-without-roving", "merge:references-not-leading",
                "merge:references-out-of-order", "flatten:ok", "class:one-algorithm:ok", "class:two-algorithms:ok",
                "e2e:ok", "e2e:measured-factor>1", "e2e:measured-factor<1", "e2e:measured-factor-negative",
                "e2e:measured-factor-positive",
                *[f"{r}:level={level_tag(lv)}" for r in ("merge", "class") for lv in LEVELS],
                *[f"{r}:{a}-level-x-{b}-factor-on-later-roving-setup" for r in ("merge", "class")
                  for a in ("tiny", "huge") for b in ("smallest", "largest")],
                # order of operations around an existing PoSER object: every operation with every sequence and every subset
                "class-ops:ok", "class-ops:Phi-judged", "class-ops:first-setup-re-done", "class-ops:later-setup-with-roving-re-done",
                "class-ops:one-algorithm", "class-ops:non-unit-level", *[f"class-ops:two-algorithms:{g}" for g in GSEL],
                *[f"class-ops:op={o}:seq={q}" for o in OPS for q in SEQS],
                *[f"class-ops:op={o}:setups={u}" for o in OPS for u in SUBSETS],
                "e2e-ops:ok", "e2e-ops:measured-factor>1", "e2e-ops:measured-factor<1",
                *[f"e2e-ops:op={o}:setups={u}" for o in E2E_OPS for u in SUBSETS],
                *[f"e2e-ops:op={o}:{w}" for o in E2E_OPS for w in ("merged-before-the-re-analysis", "first-merge-after-the-re-analysis")])


def replay(case):
    t = Tally()
    r = case.get("route")
    places = [tuple(p) for p in case["places"]]
    nrov = tuple(case["nrov"])
    if r == "merge":
        judge_merge(t, case["seed"], case["nref"], nrov, places, case["nmodes"], case["kind"], case["rot"], case["shift"],
                    level=float(case.get("level", 1.0)))
    elif r == "flatten":
        judge_flatten(t, case["nref"], nrov, places)
    elif r == "class":
        judge_class(t, case["seed"], case["nref"], nrov, places, case["nmodes"], case["kind"], case["rot"], case["shift"], case["two_algs"],
                    level=float(case.get("level", 1.0)))
    elif r == "e2e":
        ops = case.get("ops")
        judge_e2e(t, case["seed"], case["nref"], nrov, places, case["m"], case["dshift"],
                  ops=(str(ops[0]), str(ops[1]), bool(ops[2])) if ops else None)
    elif r == "class-ops":
        judge_class_ops(t, case["seed"], case["nref"], nrov, places, case["nmodes"], case["kind"], case["rot"], case["shift"],
                        case["two_algs"], case["op"], case["subset"], case["seq"], case["gsel"], level=float(case.get("level", 1.0)))
    else:
        raise ValueError(f"unknown route {r}")
    return t
