"""C03 - PreGER multi-setup SSI is exact on noise-free data; the reference/roving channel split is lossless.

Two exhaustive enumerations:

  split   every channel count n <= 6, every ORDERED reference subset of size 1..n-1, in dataset lists of length 1..3
          (the case under test at every position of the list), samples that encode (dataset, channel, time):
          gen.pre_multisetup and MultiSetup_PreGER(...).data against a split written from the statement. No payload,
          no tolerance.
  ident   configuration lattice (modes x setups x references x roving profile x reference placement x per-setup
          gains x block rows x method x real/complex) around the payload alphabet; one global ground-truth system
          (checks/_truth.py) seen by every setup at its own sensors, amplitude and initial condition. Routes:
          MultiSetup_PreGER + SSIcov_MS/SSIdat_MS + mpe ("class") and ssi.SSI_multi_setup + ssi.SSI_poles ("func").
          On a fixed, index-determined subset of the lattice points a third pass of the class route is made on a fresh
          multi-setup object on which one or two preprocessing calls FAILED first (decimate_data / filter_data /
          detrend_data with illegal arguments, raised and caught by the caller as in a notebook): nothing was
          preprocessed, so the split must still be the split of the records handed in and the identification must
          still be exact ("class-after-failed-prep").
          On another fixed subset a fourth pass goes through a ROUND TRIP of the multi-setup object (gen.save_to_file +
          gen.load_from_file, pickle.dumps + loads, copy.deepcopy, copy.copy, in rotation): the algorithm is added to the
          object that came back and judged as on the class route ("class-after-round-trip"); and, after one SUCCESSFUL
          preprocessing step (decimate / filter / detrend, nine legal calls in rotation) followed by a round trip, `data` of
          the returned object must be the split of its own `datasets`, which must be the records (and fs) of the object
          that went in ("split-after-step-and-round-trip"). The split enumeration has the same third route (every layout
          once: construct, step or none, round trip, `.data`).
"""
import copy
import functools
import itertools
import math
import os
import pickle
import shutil
import tempfile

import numpy as np

from checks import _truth as T
from mc.core import Tally

ID = "C03"
TECHNIQUE = ("complete enumeration of all ordered reference subsets for every channel count <= 6 (split), and an "
             "exhaustive walk of a finite multi-setup configuration lattice around a deterministic payload alphabet "
             "with a ground-truth global system as the model (identification)")
LEVEL_TEXT = ("split: decided for every layout in the stated scope, exact equality; identification: every lattice point "
              "executed on the real code through both routes and compared with the known global system; on 2 of 7 lattice "
              "points (by index) additionally through the class route on an object that has seen one or two failed "
              "(raised and caught) preprocessing calls, every member of a stated list of illegal calls in rotation; on another 2 of 7 "
              "lattice points through a round trip of the multi-setup object (four ways, in rotation), with the identification "
              "made on the returned object and the split clause judged exactly on the object returned after a successful "
              "preprocessing step (nine legal calls in rotation); split: additionally every layout once through construct, "
              "step or none, round trip, .data")
RULE = ("split: one case = (channel count, ordered reference list, length of the dataset list, position in it); "
        "non-trivial = the reference list is not the ascending prefix 0..k-1. ident: one case = one lattice point; "
        "non-trivial = m >= 2, or references not at the first channel positions, or some per-setup gain != 1; "
        "distinct by lattice index")
ASSUMPTIONS = [
    "numpy linear algebra is the trusted base of the model side",
    "guards (cond of the true observability blocks of every setup and of the global system, cond of each setup's true state sequence, modal participation at the references) come from the true system only",
    "hard criteria are neutralised through hc (conj False, xi_max 10, mpc_lim 0, mpd_lim 1e9): criteria are C09's business",
    "tolerances against the truth 1e-7 (fn, lambda), 1e-6 (xi), 1e-9 (1-MAC); independence of the per-setup gains is judged between the identifications of one case with the same tolerances (observed worst difference over the thorough lattice before the kappa guard: 3e-9 in fn, 1e-8 in xi; it is reported in max_observed_error)",
    "combined guard kappa = cO*cR*cX^2 <= 1e7 (worst factors over the setups): the covariance-type Hankel matrix squares the conditioning of the state sequence; the six worst lattice corners (m=3, two references, one roving sensor per setup, real shapes, kappa up to 9e7, xi error 4e-8) are rejected by it",
    "for ordmax above 2m the combined guard is kappa <= 1e5 (two decades tighter: the re-basing of every setup then goes through the noise-level columns of its observability matrix too; a thorough-tier point m=3, two references, one roving sensor per setup, real shapes, kappa 1.5e6, ordmax at the top of the wide band came out 1.6e-6 off in xi against 1e-6 and had been reported - a false alarm of the check, corrected by this ground-truth guard, not by the tolerance)",
    "the results are read at order 2m; the largest order asked for (ordmax) rotates on the lattice index over 2m, 2m+2 and the two ends of the band br*nref < ordmax <= (br+1)*nref in which the reference block used for re-basing each setup is wide instead of tall (the library accepts it: its Hankel matrix has br+1 block rows)",
    "damping profile, fs and the record lengths of the setups are assigned by fixed rotation on the lattice index; quick additionally rotates the pole placement and the non-unit gain assignments (thorough: all placements, all four gain assignments)",
    "the 'after every preprocessing step' clause of the split is covered for SUCCESSFUL steps by C14's BFS, not here; here: preprocessing calls that raise (FAILING: illegal q / n / ftype / keyword / axis, cut-off outside (0, fs/2), unknown band or trend type, break point or filter padding beyond the shortest record - the last two fail only at the shortest record, i.e. after earlier records of the list have been processed when there are >= 3 setups) and are caught by the caller leave nothing preprocessed: the records are still the noise-free responses of the premise, so the split and the identification are judged exactly as on a fresh object",
    "round trip of the multi-setup object (save_to_file + load_from_file, pickle.dumps + loads, copy.deepcopy, copy.copy): the object that comes back is judged as a multi-setup object of the premise - without a preprocessing step its records are the free decays, so the identification made on it is judged exactly as on the class route; after a successful preprocessing step (PREPS: legal calls only) the records are no longer free decays (filters have transients, decimation aliases the modes above the new Nyquist frequency), so only the split clause is judged there: `data` of the returned object equals the statement's split of its own `datasets`, which equal the records of the object that went in, fs and dt included - exact equality, no tolerance; what the step does to the records is C14's business",
    "whether a call of FAILING raises is decided by scipy's argument checking, not by the property: a call that is accepted is counted (failed-prep:accepted:*), the object is not judged, and the vacuity monitors demand raised calls of all three methods",
]

HC = dict(conj=False, xi_max=10.0, mpc_lim=0.0, mpd_lim=1e9, cov_max=1e9)
GUARD = {"cO": 1e6, "cR": 1e6, "cX": 1e4, "part": 1e-3, "kappa": 1e7, "kappa_above_2m": 1e5}
INV_TOL = dict(T.TOL)      # see ASSUMPTIONS
ROVING = {"all1": (1, 1, 1, 1), "all2": (2, 2, 2, 2), "mixed": (1, 3, 2, 4)}
PLACES = ("first", "last", "interleaved", "reversed", "per-setup")
GAINS = {"unit": (1.0, 1.0, 1.0, 1.0), "g1": (1e-2, 1e2, -1e-1, 1.0), "g2": (1e2, -1e-1, 1.0, 1e-2),
         "g3": (-1e-1, 1.0, 1e-2, 1e2)}
METHODS = ("cov_mm", "dat")
NREC = (1000, 1300, 900, 1100)
FS = (102.4, 12.5)           # non-integer sampling rates
RT_CLASSES = (("rt-raises", "raises"), ("prep-split", "split-wrong-after-the-step"), ("rt-type", "returned-object"),
              ("rt-state", "returned-object-holds-other-records-or-fs"), ("rt-split", "returned-split-not-of-its-own-datasets"))
CLASSES = (("raises", "raises"), ("split", "records-changed-by-failed-call")) + RT_CLASSES + (("table-shape", "layout"), ("shape-dim", "layout"), ("mpe-type", "layout"),
           ("mpe-shape", "layout"), ("count", "poles"), ("pairing", "poles"), ("lam", "poles"), ("fn", "poles"),
           ("xi", "poles"), ("mpe-fn", "poles"), ("mpe-xi", "poles"), ("mac", "shape"), ("mpe-mac", "shape"),
           ("norm", "normalisation"), ("mpe-norm", "normalisation"), ("gain", "gain-dependent"))


# =====================================================================================================
# split
# =====================================================================================================
def split_layouts(nmax=6):
    return [(n, refs) for n in range(2, nmax + 1) for k in range(1, n) for refs in itertools.permutations(range(n), k)]


def split_cases():
    lay = split_layouts()
    groups = {}
    for i, (n, refs) in enumerate(lay):
        groups.setdefault(len(refs), []).append(i)
    cases = []
    for i, (n, refs) in enumerate(lay):
        g = groups[len(refs)]
        gi = g.index(i)
        comp = [lay[g[(gi * 7 + 3 * k + 1) % len(g)]] for k in range(2)]
        for d in (1, 2, 3):
            for pos in range(d):
                others = comp[: d - 1]
                lst = others[:pos] + [(n, refs)] + others[pos:]
                cases.append({"kind": "split", "idx": len(cases), "layouts": [[a, list(b)] for a, b in lst], "pos": pos})
    return cases


def encoded(j, n, N):
    """Samples encode (dataset, channel, time) exactly: 10000*(j+1) + 100*channel + time."""
    return 10000.0 * (j + 1) + 100.0 * np.arange(n)[None, :] + np.arange(N)[:, None]


def model_split(datasets, reflist):
    """Written from the statement: references in the listed order, roving channels in ascending channel order."""
    out = []
    for d, r in zip(datasets, reflist):
        mov = [c for c in range(d.shape[1]) if c not in r]
        out.append({"ref": d[:, list(r)].T, "mov": d[:, mov].T})
    return out


def _same(got, want, enc=True):
    if not isinstance(got, (list, tuple)) or len(got) != len(want):
        return f"{type(got).__name__} of length {len(got) if hasattr(got, '__len__') else '?'}, expected list of {len(want)}"
    for j, (g, w) in enumerate(zip(got, want)):
        if not isinstance(g, dict) or "ref" not in g or "mov" not in g:
            return f"setup {j}: no 'ref'/'mov' keys"
        for key in ("ref", "mov"):
            a = np.asarray(g[key])
            if a.shape != w[key].shape:
                return f"setup {j} '{key}': shape {a.shape}, expected {w[key].shape}"
            if not np.array_equal(a, w[key]):
                bad = np.argwhere(a != w[key])[0]
                if not enc:
                    return (f"setup {j} '{key}'[{bad[0]},{bad[1]}] = {a[tuple(bad)]!r}, expected {w[key][tuple(bad)]!r} "
                            f"({int((a != w[key]).sum())} of {a.size} samples differ)")
                return (f"setup {j} '{key}'[{bad[0]},{bad[1]}] = {a[tuple(bad)]:.0f} (dataset*10000+channel*100+time), "
                        f"expected {w[key][tuple(bad)]:.0f}")
    return None


# ---------------------------------------------------------------------------------------------------------------------
# round trip of the multi-setup object (used by both enumerations). A user saves the object and loads it in the next
# session (gen.save_to_file / gen.load_from_file, i.e. pickle), or copies it to try something on the copy. What comes back
# is a multi-setup object like any other: its `data` must be the split of its own `datasets` ("... and after every
# preprocessing step"), and the algorithms added to it see that split and its `fs`.
# SUCCESSFUL preprocessing steps (legal arguments; functions of the sampling rate and of the shortest record only):
PREPS = (
    ("decimate:q=2", "decimate_data", lambda fs, Nmin: dict(q=2)),
    ("filter:lowpass", "filter_data", lambda fs, Nmin: dict(Wn=fs / 8, order=4)),
    ("detrend:linear", "detrend_data", lambda fs, Nmin: dict()),
    ("decimate:q=3,fir", "decimate_data", lambda fs, Nmin: dict(q=3, ftype="fir", n=12)),
    ("filter:bandpass", "filter_data", lambda fs, Nmin: dict(Wn=(fs / 32, fs / 4), order=2, btype="bandpass")),
    ("detrend:constant", "detrend_data", lambda fs, Nmin: dict(type="constant")),
    ("decimate:q=2,causal", "decimate_data", lambda fs, Nmin: dict(q=2, zero_phase=False)),
    ("filter:highpass", "filter_data", lambda fs, Nmin: dict(Wn=fs / 16, order=2, btype="highpass")),
    ("detrend:breakpoint", "detrend_data", lambda fs, Nmin: dict(bp=Nmin // 2)),
)
ROUND_TRIPS = ("gen.save_to_file+gen.load_from_file", "pickle.dumps+pickle.loads", "copy.deepcopy", "copy.copy")


def _round_trip(ms, r):
    from pyoma2.functions import gen

    if r == 0:
        d = tempfile.mkdtemp(prefix="c03-rt-")
        try:
            path = os.path.join(d, "setup.pkl")
            gen.save_to_file(ms, path)
            return gen.load_from_file(path)
        finally:
            shutil.rmtree(d, ignore_errors=True)
    if r == 1:
        return pickle.loads(pickle.dumps(ms))
    if r == 2:
        return copy.deepcopy(ms)
    if r == 3:
        return copy.copy(ms)
    raise ValueError(r)


def _returned(ms2, live_fs, live_dt, live_datasets, ref_ind):
    """The object that came back from a round trip against the one that went in (fs, dt and records as they were at that
    moment) and against itself (data = split of its own datasets). Exact equality."""
    from pyoma2.setup import MultiSetup_PreGER

    if not isinstance(ms2, MultiSetup_PreGER):
        return [("rt-type", f"the round trip returned a {type(ms2).__name__}")]
    probs = []
    if not (ms2.fs == live_fs and ms2.dt == live_dt):
        probs.append(("rt-state", f"returned object has fs={ms2.fs!r}, dt={ms2.dt!r}; the object that went in had fs={live_fs!r}, dt={live_dt!r}"))
    ds = ms2.datasets
    if not (isinstance(ds, (list, tuple)) and len(ds) == len(live_datasets)
            and all(isinstance(a, np.ndarray) and a.shape == b.shape for a, b in zip(ds, live_datasets))):
        return probs + [("rt-state", "the datasets of the returned object do not have the layout of the records that went in")]
    if not all(np.array_equal(a, b) for a, b in zip(ds, live_datasets)):
        probs.append(("rt-state", "the datasets of the returned object are not the records of the object that went in"))
    why = _same(ms2.data, model_split(ds, ref_ind), enc=False)
    if why:
        probs.append(("rt-split", f"`data` of the returned object is not the split of its own `datasets`: {why}"))
    return probs


def prep_then_round_trip(t, ms, p, r, fs0, ref_ind, tag):
    """Optionally (p is not None) one successful preprocessing step on ms, then round trip r. Judged: the split of the live
    object after the step, and the returned object (_returned). Returns (returned object or None, problems, text)."""
    note = []
    try:
        before = [np.array(d, copy=True) for d in ms.datasets]
        if p is not None:
            label, method, kw = PREPS[p]
            kw = kw(fs0, min(d.shape[0] for d in before))
            t.evaluations += 1
            getattr(ms, method)(**kw)
            note.append(f"{method}({', '.join(f'{a}={b!r}' for a, b in kw.items())})")
            t.outcomes[f"{tag}:step:{method}"] += 1
            t.outcomes[f"{tag}:step:{label}"] += 1
            if any(a.shape != b.shape or not np.array_equal(a, b) for a, b in zip(ms.datasets, before)):
                t.outcomes[f"{tag}:the-step-changed-the-records"] += 1
            if ms.fs != fs0:
                t.outcomes[f"{tag}:the-step-changed-fs"] += 1
            why = _same(ms.data, model_split(ms.datasets, ref_ind), enc=False)
            if why:
                return None, [("prep-split", f"split after the step: {why}")], "; ".join(note)
        else:
            t.outcomes[f"{tag}:step:none"] += 1
        live = (ms.fs, ms.dt, [np.array(d, copy=True) for d in ms.datasets])
        t.evaluations += 1
        ms2 = _round_trip(ms, r)
        note.append(ROUND_TRIPS[r])
        t.outcomes[f"{tag}:via:{ROUND_TRIPS[r]}"] += 1
        if p is not None:
            t.outcomes[f"{tag}:{PREPS[p][1]} then {ROUND_TRIPS[r]}"] += 1
        probs = _returned(ms2, live[0], live[1], live[2], ref_ind)
    except Exception as e:
        return None, [("rt-raises", f"{type(e).__name__}: {str(e)[:160]}")], "; ".join(note + ["raised"])
    if not probs:
        t.outcomes[f"{tag}:returned-object-consistent"] += 1
    return ms2, probs, "; ".join(note)


def _rt_class(probs):
    seen = {p[0] for p in probs}
    return next((v for k, v in RT_CLASSES if k in seen), "other")


def split_rt_plan(idx):
    """Third route of the split enumeration: every layout once (the list length / position of the layout rotate with the
    layout number), a step of PREPS or none and the round trip by rotation on the layout number."""
    lay, combo = divmod(idx, 6)
    if combo != lay % 6:
        return None
    p = lay % (len(PREPS) + 1)
    r = (lay // (len(PREPS) + 1) + lay) % len(ROUND_TRIPS)
    return (None if p == len(PREPS) else p), r


def encoded_long(j, n, N):
    """encoded() plus a small integer term that is neither constant nor linear in time and differs between the channels
    (so that detrending does not make the channels equal); exact in floating point."""
    return encoded(j, n, N) + ((np.arange(N)[:, None] * (np.arange(n)[None, :] + 2)) % 5) ** 2.0


def run_split_rt(t, case, seed, lay, plan):
    from pyoma2.setup import MultiSetup_PreGER

    p, r = plan
    data = [encoded_long(j, n, 40 + j) for j, (n, _) in enumerate(lay)]
    refl = [list(rf) for _, rf in lay]
    pristine = [d.copy() for d in data]
    t.transitions += 1
    try:
        ms = MultiSetup_PreGER(fs=100.0, ref_ind=refl, datasets=data)
    except Exception as e:
        t.violation(f"split:round-trip:raises:{type(e).__name__}",
                    f"MultiSetup_PreGER raised {type(e).__name__}: {str(e)[:160]} for layouts (n, refs) {lay}", dict(case, seed=seed))
        return
    ms2, probs, note = prep_then_round_trip(t, ms, p, r, 100.0, [list(rf) for _, rf in lay], "split:round-trip")
    t.validated += 1
    if not probs and p is None:
        why = _same(ms2.data, model_split(pristine, [list(rf) for _, rf in lay]), enc=False)
        if why:
            probs = [("rt-split", f"no step before the round trip: {why}")]
    if not probs and not all(np.array_equal(a, b) for a, b in zip(data, pristine)):
        probs = [("rt-state", "a user dataset was modified")]
    if probs:
        t.violation(f"split:round-trip:{_rt_class(probs)}",
                    f"MultiSetup_PreGER, {note}: " + "; ".join(q[1] for q in probs[:3]) + f"; layouts (n, refs) {lay}",
                    dict(case, seed=seed))
        t.outcomes["split:round-trip:disagree"] += 1
    else:
        t.outcomes["split:round-trip:agree"] += 1


def run_split(t, case, seed):
    from pyoma2.functions import gen
    from pyoma2.setup import MultiSetup_PreGER

    lay = [(n, list(refs)) for n, refs in case["layouts"]]
    n0, r0 = lay[case["pos"]]
    t.states += 1
    if r0 != list(range(len(r0))):
        t.nontrivial.add(("s", case["idx"]))
    t.outcomes[f"split:n={n0}"] += 1
    t.outcomes[f"split:datasets={len(lay)}"] += 1
    for route in ("pre_multisetup", "MultiSetup_PreGER.data"):
        data = [encoded(j, n, 5 + j) for j, (n, _) in enumerate(lay)]
        refl = [list(r) for _, r in lay]
        pristine = [d.copy() for d in data]
        want = model_split(pristine, refl)
        t.transitions += 1
        t.evaluations += 1
        try:
            if route == "pre_multisetup":
                got = gen.pre_multisetup(data, refl)
            else:
                got = MultiSetup_PreGER(fs=100.0, ref_ind=refl, datasets=data).data
        except Exception as e:
            t.violation(f"split:{route}:raises:{type(e).__name__}",
                        f"{route} raised {type(e).__name__}: {str(e)[:160]} for layouts (n, refs) {lay}", dict(case, seed=seed))
            continue
        t.validated += 1
        why = _same(got, want)
        if why is None and not all(np.array_equal(a, b) for a, b in zip(data, pristine)):
            why = "a user dataset was modified"
        if why is None and refl != [list(r) for _, r in lay]:
            why = "the user's reference lists were modified"
        if why:
            t.violation(f"split:{route}:wrong-partition", f"{route}: {why}; layouts (n, refs) {lay}", dict(case, seed=seed))
            t.outcomes["split:disagree"] += 1
        else:
            t.outcomes[f"split:agree:{route}"] += 1
    plan = split_rt_plan(case["idx"])
    if plan is not None:
        run_split_rt(t, case, seed, lay, plan)
    if case["idx"] in (0, 700, 5000):
        t.sample({"split_case": case["layouts"], "ref_rows_expected": "channels in listed order", "mov_rows_expected": "remaining, ascending"})


# =====================================================================================================
# identification
# =====================================================================================================
def ref_positions(place, nref, nch, s):
    if place == "per-setup":
        place = ("last", "interleaved", "reversed", "first")[s % 4]
    if place == "first":
        return list(range(nref))
    if place == "last":
        return list(range(nch - nref, nch))
    if place == "reversed":
        return list(range(nref))[::-1]
    if place == "interleaved":
        odd = list(range(1, 2 * nref, 2))
        if odd[-1] < nch:
            return odd
        return sorted({int(round(x)) for x in np.linspace(0, nch - 1, nref)}) if nref > 1 else [nch - 1]
    raise ValueError(place)


def br_min(m, nref):
    """Observability index + 1. The global observability matrix has br block rows, its shift-invariance block br - 1:
    two block rows are needed for real shapes (one block row [Re phi, Im phi] has rank m, not 2m), hence >= 3."""
    return max(math.ceil(2 * m / nref) + 1, 3)


# largest model order asked for (the results are always read at order 2m): exactly 2m; 2m + 2; and the two ends of the
# band br*nref < ordmax <= (br+1)*nref that the library accepts (its Hankel matrix has br + 1 block rows) and where the
# reference part of each setup's observability matrix (br block rows) is WIDE: the re-basing there is a minimum-norm
# problem, not a full-column-rank one
OM_MODES = ("2m", "2m+2", "wide-lo", "wide-hi")


def ordmax_of(mode, m, br, nref, L):
    """Admissible orders only: ordmax <= (br+1)*nref (columns of each setup's Hankel matrix) and ordmax <= (br-1)*L (rows of
    the shifted global observability matrix the state matrices are solved from)."""
    cap = min((br + 1) * nref, (br - 1) * L)
    if mode == "2m":
        return 2 * m
    if mode == "2m+2":
        return min(2 * m + 2, cap)
    if mode == "wide-lo":
        return min(br * nref + 1, cap)
    if mode == "wide-hi":
        return cap
    raise ValueError(mode)


def ident_lattice(thorough):
    ms = range(1, 6) if thorough else range(1, 4)
    cases = []
    seen = set()
    for m in ms:
        for nset in (2, 3, 4):
            for nref in (1, 2, 3):
                for rov in ROVING:
                    for place in PLACES:
                        nmov = ROVING[rov][:nset]
                        layout = tuple(tuple(ref_positions(place, nref, nref + nmov[s], s)) for s in range(nset))
                        if any(len(set(p)) != nref for p in layout):
                            raise AssertionError((place, nref, nmov, layout))
                        for bro in (0, 2):
                            for meth in METHODS:
                                for cm in (False, True):
                                    key = (m, nset, nref, rov, layout, bro, meth, cm)
                                    if key in seen:            # e.g. nref = 1: 'reversed' is 'first'
                                        continue
                                    seen.add(key)
                                    cell = len(seen) - 1
                                    pls = [p for p in T.PLACEMENTS if not (p in ("pair", "close") and m < 2)]
                                    for pl in (pls if thorough else [pls[cell % len(pls)]]):
                                        idx = len(cases)
                                        gains = list(GAINS) if thorough else ["unit", ("g1", "g2", "g3")[idx % 3]]
                                        cases.append({"kind": "ident", "idx": idx, "m": m, "nset": nset, "nref": nref,
                                                      "rov": rov, "place": place, "bro": bro, "meth": meth, "cm": cm, "pl": pl,
                                                      "dp": T.DAMPINGS[(idx // 4) % 3], "fs": FS[(idx // 12) % 2],
                                                      "gains": gains, "om": OM_MODES[(idx // 5 + idx) % len(OM_MODES)]})
    return cases


@functools.lru_cache(maxsize=128)
def _phi(seed, L, m, cm):
    return T.shapes(seed, f"c03/phi/{L}/{m}/{int(cm)}", L, m, cm)


@functools.lru_cache(maxsize=128)
def _amp(seed, m, s):
    return T.amps(seed, f"c03/amp/{m}/{s}", m)


def build(case, seed):
    """Global system, per-setup layouts and unit-gain records."""
    m, nset, nref = case["m"], case["nset"], case["nref"]
    nmov = ROVING[case["rov"]][:nset]
    L = nref + sum(nmov)
    S = T.System(T.freqs(m, case["pl"]), T.damps(m, case["dp"]), _phi(seed, L, m, bool(case["cm"])), case["fs"])
    setups = []
    off = nref
    for s in range(nset):
        nch = nref + nmov[s]
        refpos = ref_positions(case["place"], nref, nch, s)
        movpos = [c for c in range(nch) if c not in refpos]
        rows = [None] * nch                       # global row measured by each channel
        for j, c in enumerate(refpos):
            rows[c] = j
        for j, c in enumerate(movpos):
            rows[c] = off + j
        off += nmov[s]
        a = _amp(seed, m, s)
        N = NREC[s]
        setups.append({"rows": rows, "refpos": refpos, "movpos": movpos, "amp": a, "N": N, "Y": S.decay(a, N, rows=rows)})
    return S, setups, L


def guards(S, setups, br, L):
    g = {"cO": 0.0, "cR": 0.0, "cX": 0.0, "part": 1.0}
    for su in setups:
        gi = T.guards_decay(S, su["amp"], su["N"], su["refpos"], br, rows=su["rows"])
        g["cO"] = max(g["cO"], gi["cO"])
        g["cR"] = max(g["cR"], gi["cR"], T.cond(S.obs([su["rows"][c] for c in su["refpos"]], br)))
        g["cX"] = max(g["cX"], gi["cX"])
        g["part"] = min(g["part"], gi["part"])
    g["cO"] = max(g["cO"], T.cond(S.obs(None, br - 1)))       # global shift-invariance block
    g["kappa"] = g["cO"] * g["cR"] * g["cX"] ** 2               # worst factors over the setups, see _truth.guards_decay
    return g


def _key(case, route, probs):
    seen = {p[0] for p in probs}
    first = next((v for k, v in CLASSES if k in seen), "other")
    if first == "raises":
        first = "raises:" + probs[0][1].split(":")[0]
    return f"ident:{route}:{case['meth']}:{first}"


def judge(t, case, seed, route, gname, probs, errs, note=""):
    t.transitions += 1
    t.validated += 1
    for k, v in errs.items():
        t.err(f"{route}.{k}", v)
    if probs:
        t.violation(_key(case, route, probs),
                    f"ident:{route}:{case['meth']} gains={gname}{GAINS[gname][:case['nset']]} " + "; ".join(p[1] for p in probs[:4])
                    + (f" | after {note}" if note else "") + f" | case {_short(case)}", dict(case, seed=seed))
        t.outcomes[f"{route}:disagree"] += 1
    else:
        t.outcomes[f"{route}:agree"] += 1


def _short(case):
    return {k: v for k, v in case.items() if k not in ("kind", "idx", "gains")}


def _tables(S, Lam, Fn, Xi, Phi, L, matched):
    o = 2 * S.m
    Lam, Fn, Xi, Phi = (np.asarray(x) for x in (Lam, Fn, Xi, Phi))
    if (Fn.ndim != 2 or Fn.shape[1] <= o or Xi.shape != Fn.shape or Lam.shape != Fn.shape
            or Phi.shape != Fn.shape + (L,)):
        return [("table-shape", f"tables Fn{Fn.shape} Xi{Xi.shape} Lambds{Lam.shape} Phi{Phi.shape}: expected equal (poles, orders) "
                                f"layouts with a column for order {o} and {L} shape components (references + all roving sensors)")], {}
    return T.compare_poles(S, Lam[:, o], Fn[:, o], Xi[:, o], Phi[:, o, :], matched=matched)


def _invariance(base, cur):
    """Largest difference between two matched pole sets (same modes, same members of each pair)."""
    e = {"fn": 0.0, "xi": 0.0, "mac": 0.0}
    b = {(k, s): (f, x, p) for k, s, f, x, p in base}
    for k, s, f, x, p in cur:
        if (k, s) not in b:
            continue
        f0, x0, p0 = b[(k, s)]
        e["fn"] = max(e["fn"], abs(f - f0) / abs(f0))
        e["xi"] = max(e["xi"], abs(x - x0) / abs(x0))
        mm = T.mac(p, p0)
        e["mac"] = max(e["mac"], 1 - mm if mm == mm else np.inf)
    return e


# ---------------------------------------------------------------------------------------------------------------------
# preprocessing calls that fail. What a user types wrongly in a notebook cell: the call raises, the cell fails, the user
# goes on with the same object (here: try/except). Nothing has been preprocessed, so the object still holds the records
# of the premise. Every call below raises on any scipy that checks its arguments (kwargs are functions of the case's
# sampling rate and record lengths only).
def _n_short(Ns):
    """Filter order whose zero-phase padding, 3*(order + 1) samples, exceeds the SHORTEST record of the list (and, for
    the record lengths used here, no other): the call fails at that record, after the earlier ones went through."""
    return int(math.ceil(min(Ns) / 3))


FAILING = (
    ("decimate:q-float", "decimate_data", lambda fs, Ns: dict(q=2.0)),
    ("decimate:ftype-unknown", "decimate_data", lambda fs, Ns: dict(q=2, ftype="FIR")),
    ("decimate:n-float", "decimate_data", lambda fs, Ns: dict(q=3, n=3.5)),
    ("decimate:keyword-unknown", "decimate_data", lambda fs, Ns: dict(q=2, zero_phas=True)),
    ("decimate:record-too-short", "decimate_data", lambda fs, Ns: dict(q=4, n=_n_short(Ns))),
    ("decimate:q-zero", "decimate_data", lambda fs, Ns: dict(q=0)),
    ("decimate:q-string", "decimate_data", lambda fs, Ns: dict(q="2")),
    ("decimate:axis-out-of-range", "decimate_data", lambda fs, Ns: dict(q=2, axis=5)),
    ("decimate:q-negative", "decimate_data", lambda fs, Ns: dict(q=-2)),
    ("filter:above-nyquist", "filter_data", lambda fs, Ns: dict(Wn=fs)),
    ("filter:at-nyquist", "filter_data", lambda fs, Ns: dict(Wn=fs / 2, order=4)),
    ("filter:zero", "filter_data", lambda fs, Ns: dict(Wn=0.0)),
    ("filter:btype-unknown", "filter_data", lambda fs, Ns: dict(Wn=fs / 8, btype="lowpas")),
    ("filter:order-float", "filter_data", lambda fs, Ns: dict(Wn=fs / 8, order=2.5)),
    ("filter:band-for-lowpass", "filter_data", lambda fs, Ns: dict(Wn=(fs / 16, fs / 8))),
    ("filter:scalar-for-bandpass", "filter_data", lambda fs, Ns: dict(Wn=fs / 8, btype="bandpass")),
    ("filter:record-too-short", "filter_data", lambda fs, Ns: dict(Wn=fs / 8, order=_n_short(Ns))),
    ("detrend:type-unknown", "detrend_data", lambda fs, Ns: dict(type="quadratic")),
    ("detrend:breakpoint-beyond-shortest-record", "detrend_data", lambda fs, Ns: dict(bp=min(Ns) + 50)),
    ("detrend:keyword-unknown", "detrend_data", lambda fs, Ns: dict(typ="constant")),
    ("detrend:axis-out-of-range", "detrend_data", lambda fs, Ns: dict(axis=7)),
)
_FP_DEC = tuple(i for i, f in enumerate(FAILING) if f[1] == "decimate_data")
_FP_OTH = tuple(i for i, f in enumerate(FAILING) if f[1] != "decimate_data")
_FP_PARTIAL = ("decimate:record-too-short", "filter:record-too-short", "detrend:breakpoint-beyond-shortest-record")
FP_ROUTE = "class-after-failed-prep"


def failed_prep_plan(idx, gi):
    """Which failing calls the object of lattice point idx, gain assignment number gi, sees before the algorithms are added:
    None for 5 of 7 lattice points; else one or two members of FAILING. The five patterns (a decimation; decimation then
    other; other then decimation; two decimations; two others) and the members rotate on independent counters."""
    if idx % 7 not in (1, 4):
        return None
    k = idx * len(GAINS) + gi
    r = k // 5
    d1, d2 = _FP_DEC[r % len(_FP_DEC)], _FP_DEC[(r + 1 + (r // len(_FP_DEC)) % (len(_FP_DEC) - 1)) % len(_FP_DEC)]
    o1, o2 = _FP_OTH[r % len(_FP_OTH)], _FP_OTH[(r + 1 + (r // len(_FP_OTH)) % (len(_FP_OTH) - 1)) % len(_FP_OTH)]
    return ((d1,), (d1, o1), (o1, d1), (d1, d2), (o1, o2))[k % 5]


def _failed_prep(t, ms, plan, fs, Ns):
    """Perform the failing calls on ms. Returns (text of what was done, None) or (text, label of a call that was accepted)."""
    done = []
    for i in plan:
        label, method, kw = FAILING[i]
        kw = kw(fs, Ns)
        t.evaluations += 1
        try:
            getattr(ms, method)(**kw)
        except Exception as e:      # the user's try/except (or failed notebook cell)
            done.append(f"{method}({', '.join(f'{a}={b!r}' for a, b in kw.items())}) raised {type(e).__name__}")
            t.outcomes[f"failed-prep:raised:{method}"] += 1
            t.outcomes[f"failed-prep:raised:{label}"] += 1
            if label in _FP_PARTIAL and int(np.argmin(Ns)) > 0:
                t.outcomes["failed-prep:raised-at-a-later-record(earlier records of the list had gone through)"] += 1
            continue
        t.outcomes[f"failed-prep:accepted:{label}"] += 1
        return "; ".join(done), label
    t.outcomes[f"failed-prep:calls={len(plan)}"] += 1
    return "; ".join(done), None


RT_ROUTE = "class-after-round-trip"
RT_SPLIT = "split-after-step-and-round-trip"


def round_trip_plan(idx, gi):
    """What the object of lattice point idx, gain assignment number gi, goes through on the round-trip route: None for 5 of 7
    lattice points (the other two are not those of the failed-preprocessing route).
      idx % 7 == 2  ("ident", r1, p, r2): round trip r1 of the fresh object; the algorithm is added to the RETURNED object and
                    judged as on the class route (tables, gain invariance, mpe); then step p of PREPS on that object, round
                    trip r2 (the algorithm and its results travel along), and the split clause on what comes back;
      idx % 7 == 5  ("step-first", r1, p, None): step p on the fresh object, round trip r1, split clause on what comes back
                    (no identification: the records are no longer the free decays of the premise).
    With j = index // 7: step (j + gain number) % 9, round trip (j // 9 + gain number) % 4, second round trip another one,
    its distance rotating with j // 36: every (step, round trip) pair occurs."""
    if idx % 7 not in (2, 5):
        return None
    j = idx // 7
    p = (j + gi) % len(PREPS)
    r1 = (j // len(PREPS) + gi) % len(ROUND_TRIPS)
    r2 = (r1 + 1 + (j // (len(PREPS) * len(ROUND_TRIPS))) % (len(ROUND_TRIPS) - 1)) % len(ROUND_TRIPS)
    return ("ident", r1, p, r2) if idx % 7 == 2 else ("step-first", r1, p, None)


def run_ident(t, case, seed):
    from pyoma2.algorithms import SSIcov_MS, SSIdat_MS
    from pyoma2.functions import ssi
    from pyoma2.setup import MultiSetup_PreGER

    m, nset, nref, meth = case["m"], case["nset"], case["nref"], case["meth"]
    S, setups, L = build(case, seed)
    br = br_min(m, nref) + case["bro"]
    o = 2 * m
    om = ordmax_of(case.get("om", "2m"), m, br, nref, L)
    g = guards(S, setups, br, L)
    for k in ("cO", "cR", "cX"):
        t.err(f"guard.{k}", g[k])
    t.err("guard.1/part", 1.0 / g["part"])
    t.err("guard.kappa", g["kappa"])
    if (g["cO"] > GUARD["cO"] or g["cR"] > GUARD["cR"] or g["cX"] > GUARD["cX"] or g["part"] < GUARD["part"]
            or g["kappa"] > GUARD["kappa"]):
        t.skipped_by_guard += 1
        t.outcomes["guard-reject"] += 1
        return
    if om > o and g["kappa"] > GUARD["kappa_above_2m"]:
        # ordmax above 2m: each setup is re-based through the noise-level columns of its observability matrix as well, which
        # costs conditioning (ground-truth guard; a thorough-tier point with kappa 1.5e6 came out 1.6e-6 off in xi)
        t.skipped_by_guard += 1
        t.outcomes["guard-reject:ordmax-above-2m"] += 1
        return
    t.states += 1
    first_pos = all(su["refpos"] == list(range(nref)) for su in setups)
    if m >= 2 or not first_pos or any(gn != "unit" for gn in case["gains"]):
        t.nontrivial.add(("i", case["idx"]))
    t.outcomes["shapes:" + ("complex" if case["cm"] else "real")] += 1
    t.outcomes[f"method:{meth}"] += 1
    t.outcomes["refs:" + ("first-positions" if first_pos else "elsewhere")] += 1
    t.outcomes["ordmax:" + ("2m" if om == o else "above-2m:reference-block-" + ("wide" if om > br * nref else "tall"))] += 1
    fs = case["fs"]
    base = {}
    Ns = [su["N"] for su in setups]
    for gname in case["gains"]:
        gains = GAINS[gname][:nset]
        plan = failed_prep_plan(case["idx"], list(GAINS).index(gname))
        rt = round_trip_plan(case["idx"], list(GAINS).index(gname))
        t.outcomes["gain:" + ("unit" if gname == "unit" else "non-unit")] += 1
        datasets = [gains[s] * setups[s]["Y"] for s in range(nset)]
        ref_ind = [[int(c) for c in su["refpos"]] for su in setups]
        _collider(seed, [d.shape for d in datasets], ref_ind, fs, br, om, meth)
        for route in ("func", "class") + ((FP_ROUTE,) if plan else ()) + ((RT_ROUTE,) if rt else ()):
            matched = []
            res = None
            alg = ms = None
            note = ""
            try:
                if route == "func":
                    Ys = [{"ref": datasets[s][:, su["refpos"]].T.copy(), "mov": datasets[s][:, su["movpos"]].T.copy()}
                          for s, su in enumerate(setups)]
                    Obs, A, C = ssi.SSI_multi_setup(Ys, fs, int(br), int(om), meth)
                    Fn, Xi, Ph, Lam, *_ = ssi.SSI_poles(Obs, A, C, int(om), 1.0 / fs)
                    t.evaluations += 2
                else:
                    ms = MultiSetup_PreGER(fs=fs, ref_ind=ref_ind if route == "class" else [list(r) for r in ref_ind],
                                           datasets=[d.copy() for d in datasets])
                    if route == FP_ROUTE:
                        # one or two preprocessing calls that raise; then the analysis goes on with the same object
                        note, accepted = _failed_prep(t, ms, plan, fs, Ns)
                        if accepted:
                            t.not_judged += 1
                            continue
                        why = _same(ms.data, model_split(datasets, ref_ind))
                        if why is None and not (len(ms.datasets) == nset and all(
                                np.array_equal(a, b) for a, b in zip(ms.datasets, datasets))):
                            why = "the datasets of the object are no longer the records it was built from"
                        if why:
                            judge(t, case, seed, route, gname, [("split", f"split after the failed call(s): {why}")], {}, note)
                            continue
                        t.outcomes["failed-prep:split-intact"] += 1
                    if route == RT_ROUTE:
                        t.outcomes[f"round-trip:{rt[0]}"] += 1
                        if rt[0] == "step-first":
                            # a successful preprocessing step, then the round trip: the split clause on the returned object
                            _, rprobs, note = prep_then_round_trip(t, ms, rt[2], rt[1], fs, ref_ind, "round-trip")
                            judge(t, case, seed, RT_SPLIT, gname, rprobs, {}, note)
                            continue
                        # round trip of the fresh object; the analysis goes on with the object that came back
                        ms, rprobs, note = prep_then_round_trip(t, ms, None, rt[1], fs, ref_ind, "round-trip")
                        if rprobs:
                            judge(t, case, seed, route, gname, rprobs, {}, note)
                            continue
                    cls = SSIcov_MS if meth == "cov_mm" else SSIdat_MS
                    alg = cls(name="a", method=meth, br=int(br), ordmax=int(om), hc=dict(HC))
                    ms.add_algorithms(alg)
                    ms.run_by_name("a")
                    R = alg.result
                    Fn, Xi, Ph, Lam = R.Fn_poles, R.Xi_poles, R.Phi_poles, R.Lambds
                    t.evaluations += 1
                res = _tables(S, Lam, Fn, Xi, Ph, L, matched)
            except Exception as e:
                judge(t, case, seed, route, gname, [("raises", f"{type(e).__name__}: {str(e)[:160]}")], {}, note)
            if res is None:
                continue
            probs, errs = res
            if not probs:
                if gname == "unit" or (route not in base):
                    base.setdefault(route, matched)
                if base[route] is not matched:
                    e = _invariance(base[route], matched)
                    for k, v in e.items():
                        t.err(f"{route}.gain-invariance.{k}", v)
                    bad = [k for k in e if not e[k] <= INV_TOL[k]]
                    if bad:
                        probs = [("gain", "result depends on the per-setup gains: " + ", ".join(f"d{k}={e[k]:.3g}" for k in bad))]
                    t.outcomes[f"{route}:gain-invariance-compared"] += 1
            if probs and route == FP_ROUTE:
                note += f" (the object now has fs={ms.fs!r}, dt={ms.dt!r}; built with fs={fs!r})"
            judge(t, case, seed, route, gname, probs, errs, note)
            if not probs and route in ("func", "class"):
                # second identification of the SAME record objects (no copies in between): still exact, i.e. the first one did
                # not alter the records it was given (func: the list of ref/mov dicts; class: the data bound to the setup)
                try:
                    m2 = []
                    if route == "func":
                        Obs, A, C = ssi.SSI_multi_setup(Ys, fs, int(br), int(om), meth)
                        Fn2, Xi2, Ph2, Lam2, *_ = ssi.SSI_poles(Obs, A, C, int(om), 1.0 / fs)
                    else:
                        ms.run_by_name("a")
                        R2 = alg.result
                        Fn2, Xi2, Ph2, Lam2 = R2.Fn_poles, R2.Xi_poles, R2.Phi_poles, R2.Lambds
                    t.evaluations += 1
                    res2 = _tables(S, Lam2, Fn2, Xi2, Ph2, L, m2)
                except Exception as e:
                    res2 = ([("raises", f"{type(e).__name__}: {str(e)[:160]}")], {})
                if res2 is not None:
                    judge(t, case, seed, route + "-repeat", gname, *res2)
            if not probs and not t.samples and route == "func":
                t.sample({"case": _short(case), "gains": gains, "br": br, "global_rows": L,
                          "channel_to_global_row": [su["rows"] for su in setups], "ref_ind": ref_ind,
                          "true_fn": S.fn, "identified_fn_at_order_2m": np.sort(np.asarray(Fn)[:, o]), "max_rel_err": errs,
                          "guards": g})
            if route != "func":
                mpe_route = {"class": "mpe", FP_ROUTE: "mpe-after-failed-prep", RT_ROUTE: "mpe-after-round-trip"}[route]
                if probs:
                    t.not_judged += 1
                    t.outcomes[f"{mpe_route}:not-judged(tables wrong)"] += 1
                    continue
                try:
                    ms.mpe("a", sel_freq=[float(f) for f in S.fn], order=int(o))
                    R = alg.result
                    t.evaluations += 1
                    res = T.compare_modes(S, R.Fn, R.Xi, R.Phi)
                except Exception as e:
                    res = ([("raises", f"{type(e).__name__}: {str(e)[:160]}")], {})
                judge(t, case, seed, mpe_route, gname, *res, note)
                if route == RT_ROUTE and not res[0]:
                    # the analysis continues on the returned object: a preprocessing step, and another round trip (the
                    # algorithm and its results travel along); the split clause on what comes back
                    _, rprobs, note2 = prep_then_round_trip(t, ms, rt[2], rt[3], fs, ref_ind, "round-trip")
                    judge(t, case, seed, RT_SPLIT, gname, rprobs, {}, note + "; mpe; " + note2)


_NOISE = {}


def _collider(seed, shapes, ref_ind, fs, br, o, meth):
    """Forced collision: immediately before the judged calls the same multi-setup class is run with IDENTICAL shapes,
    reference lists and parameters on DIFFERENT data (payload noise) in another PreGER object; the result is thrown away.
    State kept by the library between calls (caches keyed by shape/parameters, hoisted scratch buffers) then reaches the judged
    run, which is no longer exact; a stateless library is unaffected."""
    from pyoma2.algorithms import SSIcov_MS, SSIdat_MS
    from pyoma2.setup import MultiSetup_PreGER

    from mc import payload

    key = tuple(shapes)
    if key not in _NOISE:
        _NOISE.clear()
        _NOISE[key] = [payload.normal(seed, f"c03/collider/{j}/{sh[0]}x{sh[1]}", sh) for j, sh in enumerate(shapes)]
    try:
        ms = MultiSetup_PreGER(fs=fs, ref_ind=[list(r) for r in ref_ind], datasets=[d.copy() for d in _NOISE[key]])
        cls = SSIcov_MS if meth == "cov_mm" else SSIdat_MS
        ms.add_algorithms(cls(name="a", method=meth, br=int(br), ordmax=int(o), hc=dict(HC)))
        ms.run_by_name("a")
    except Exception:
        pass


# =====================================================================================================
def run_case(case, seed):
    t = Tally()
    if case["kind"] == "split":
        run_split(t, case, seed)
    else:
        run_ident(t, case, seed)
    return t


_SEED = [0]


def _work(cases):
    t = Tally()
    for c in cases:
        t.merge(run_case(c, _SEED[0]))
    return t


def _items(cases, per_item):
    n = max(1, math.ceil(len(cases) / per_item))
    return [cases[i::n] for i in range(n)]


def explore(ctx):
    _SEED[0] = ctx.seed
    sp = split_cases()
    idc = ident_lattice(ctx.thorough)
    ctx.bounds = {
        "split": {"channel_counts": [2, 6], "reference_lists": "every ordered subset of size 1..n-1",
                  "layouts": len(split_layouts()), "dataset_list_lengths": [1, 2, 3],
                  "position_of_the_layout_in_the_list": "every position; companions with the same reference count by fixed rotation",
                  "routes": ["gen.pre_multisetup", "MultiSetup_PreGER(...).data",
                             "MultiSetup_PreGER(...), one step of PREPS or none, round trip, .data of the returned object (every layout once; records of 40.. samples)"],
                  "round_trip_objects": sum(1 for c in sp if split_rt_plan(c["idx"])), "cases": len(sp)},
        "ident": {"modes_m": [1, 5] if ctx.thorough else [1, 3], "setups": [2, 3, 4], "references": [1, 2, 3],
                  "roving_profile": {k: list(v) for k, v in ROVING.items()}, "reference_placement": list(PLACES),
                  "gain_assignments": {k: list(v) for k, v in GAINS.items()},
                  "gains_per_case": "all four" if ctx.thorough else "unit + one of g1..g3 by rotation",
                  "block_rows": "max(ceil(2m/n_ref) + 1, 3) + offset, offset in [0, 2]", "method": list(METHODS),
                  "shapes": ["real", "complex"], "routes": ["MultiSetup_PreGER+SSIcov_MS|SSIdat_MS+mpe", "SSI_multi_setup+SSI_poles",
                                                                "MultiSetup_PreGER, failed preprocessing call(s), then +SSIcov_MS|SSIdat_MS+mpe",
                                                                "MultiSetup_PreGER, round trip, then +SSIcov_MS|SSIdat_MS+mpe on the returned object, then a preprocessing step, round trip, .data",
                                                                "MultiSetup_PreGER, a preprocessing step, round trip, .data of the returned object"],
                  "round_trip": {
                      "where": "lattice points with index % 7 == 2 (round trip, identification on the returned object, then step + round trip + split clause) and == 5 (step, round trip, split clause), every gain assignment of the point, fresh object",
                      "round_trips": list(ROUND_TRIPS), "successful_steps": [f"{f[1]}: {f[0].split(':', 1)[1]}" for f in PREPS],
                      "rotation": "with j = index // 7: step (j + gain number) % 9, round trip (j // 9 + gain number) % 4, second round trip a different one (distance by j // 36)",
                      "objects": sum(1 for c in idc for gn in c["gains"] if round_trip_plan(c["idx"], list(GAINS).index(gn)))},
                  "failed_preprocessing": {
                      "where": "lattice points with index % 7 in (1, 4), every gain assignment of the point, fresh object, before add_algorithms",
                      "calls": [f"{f[1]}: {f[0].split(':', 1)[1]}" for f in FAILING],
                      "patterns": ["one decimation", "decimation then filter/detrend", "filter/detrend then decimation",
                                   "two different decimations", "two different filter/detrend calls"],
                      "rotation": "pattern and members on independent counters of 4*index + gain number",
                      "objects": sum(1 for c in idc for gn in c["gains"] if failed_prep_plan(c["idx"], list(GAINS).index(gn)))},
                  "ordmax": "one of " + str(list(OM_MODES)) + " per case by rotation (results read at order 2m)",
                  "pole_placement": list(T.PLACEMENTS) if ctx.thorough else "one of " + str(list(T.PLACEMENTS)) + " per cell by rotation",
                  "rotated": {"damping": list(T.DAMPINGS), "fs": list(FS)},
                  "record_length_per_setup": list(NREC), "cases": len(idc)},
        "tolerances": dict(T.TOL), "gain_invariance_tolerances": dict(INV_TOL), "guards": dict(GUARD),
    }
    ctx.pmap(_work, _items(sp, 300))
    ctx.pmap(_work, _items(idc, 12))
    ctx.require("split:agree:pre_multisetup", "split:agree:MultiSetup_PreGER.data", "split:n=6", "split:datasets=3",
                "func:agree", "class:agree", "func-repeat:agree", "class-repeat:agree", "mpe:agree", "func:gain-invariance-compared", "class:gain-invariance-compared",
                "shapes:complex", "shapes:real", "method:cov_mm", "method:dat", "refs:elsewhere", "refs:first-positions",
                "gain:non-unit",
                FP_ROUTE + ":agree", "mpe-after-failed-prep:agree", FP_ROUTE + ":gain-invariance-compared", "failed-prep:split-intact",
                "failed-prep:raised:decimate_data", "failed-prep:raised:filter_data", "failed-prep:raised:detrend_data",
                "failed-prep:calls=1", "failed-prep:calls=2",
                "failed-prep:raised-at-a-later-record(earlier records of the list had gone through)",
                RT_ROUTE + ":agree", "mpe-after-round-trip:agree", RT_ROUTE + ":gain-invariance-compared", RT_SPLIT + ":agree",
                "round-trip:ident", "round-trip:step-first", "round-trip:step:none", "round-trip:returned-object-consistent",
                "round-trip:the-step-changed-the-records", "round-trip:the-step-changed-fs",
                "split:round-trip:agree", "split:round-trip:step:none", "split:round-trip:the-step-changed-the-records",
                "split:round-trip:the-step-changed-fs",
                *[f"{tag}:via:{r}" for tag in ("round-trip", "split:round-trip") for r in ROUND_TRIPS],
                *[f"{tag}:step:{f[0]}" for tag in ("round-trip", "split:round-trip") for f in PREPS],
                *[f"{tag}:{me} then {r}" for tag in ("round-trip", "split:round-trip")
                  for me in ("decimate_data", "filter_data", "detrend_data") for r in ROUND_TRIPS])


def replay(case):
    case = dict(case)
    seed = int(case.pop("seed", 0))
    return run_case(case, seed)
