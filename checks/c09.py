"""C09 - hard validation criteria: sound, complete, one NaN pattern.

Driver A: `SSI_poles` / `pLSCF_poles` (as seen from the algorithm modules) are replaced by a function that
returns an enumerated, designed pole table, so that the masking sequence in the body of every `run()` is
driven over every population of a small catalogue x the whole lattice of criteria values.
Driver B: the same functions are wrapped (not replaced) to record the unfiltered tables that `run()` received
on real (payload) records; the same oracle is applied.

Oracle (written from the statement): a pole of the unfiltered solution must be retained iff it meets every
enabled criterion; retained poles keep their values bit for bit; a rejected pole is NaN in every table.
"""
import itertools
import math

import numpy as np

from mc import payload
from mc.core import Tally

ID = "C09"
TECHNIQUE = ("bounded-exhaustive enumeration of designed pole populations (every assignment of a pole catalogue to the "
             "slots of a small table) x the full lattice of criteria values, injected through the real run() of every "
             "algorithm class by run-time interposition on SSI_poles/pLSCF_poles; per-pole three-valued oracle "
             "(must keep / must reject / not judged) written from the statement; the same oracle on recorded real tables")
LEVEL_TEXT = ("every population of the stated catalogue and every point of the stated criteria lattice is executed through "
              "the real run() body of each of the six classes and every cell of every result table is judged; real-data "
              "records are a finite payload alphabet, the criteria lattice around them is complete; the form in which the "
              "criteria values are written (bool / numpy.bool_ / int flag; float / numpy.float64 / int / numpy.int64 limits) "
              "rotates over the case index: every criteria point is executed in each of the 12 form combinations, on different tables; "
              "the run parameter ordmin (which by the statement has no say in the hard criteria: they hold 'at every model order') "
              "rotates over the same case index through {0, 1, middle order, ordmax}, every criteria point meeting every value and "
              "every (form, ordmin) combination in driver A; on a fixed share of the cases with ordmin > 0 the tables are also "
              "compared with those of a fresh run with ordmin = 0")
RULE = ("one case = (class variant, pole table, criteria point) executed through run(); non-trivial = the unfiltered table "
        "contains at least one pole that violates exactly one enabled criterion and meets all the others (so that the "
        "effect of a single mask is isolated); distinct by (variant, table index, criteria index) resp. (variant, record, "
        "criteria index)")
ASSUMPTIONS = [
    "gen.MPC / gen.MPD of the unfiltered shape are taken from the library (their correctness is property C18); a NaN value makes that criterion 'not judged' for the pole",
    "conjugate presence: soundness is judged with the weaker reading (a conjugate anywhere in the table, to relative 1e-9), completeness with the stronger (exact conjugate in the same order)",
    "values within relative 1e-9 of a threshold (absolute 1e-9 for the threshold 0) are not judged",
    "designed populations are returned by a stand-in for SSI_poles/pLSCF_poles; everything downstream of that call in run() is the real code; covariance tables of designed populations are injected without calc_unc (the run() body only tests 'Fn_cov is not None')",
    "a cell of the unfiltered solution is a pole iff its frequency is finite",
    "run parameter ordmin (an axis of the space, rotated over the case index, not multiplied into it): values 0 (default), 1, ordmax // 2 and ordmax of the run, on every class variant of both drivers; the oracle does not know ordmin - every pole of every order (table column), below ordmin or not, is judged against the criteria alone; in driver A the designed poles sit in the two highest orders, so that the SSI tables have poles below ordmin for ordmin = ordmax and the pLSCF tables for ordmin = 1 and 2; in driver B (real records) every order carries poles",
    "reference run for ordmin: on the cases with ordmin > 0 whose criteria point has selector 1 (mod 3) (driver A: on every third table) a fresh algorithm object with the same criteria and ordmin = 0 is run on the same setup and all pole tables (not the labels, which ordmin is meant to change) must be identical, NaN pattern included",
    "form of the criteria values (an axis of the space, rotated over the case index so that every criteria point meets every form, not multiplied into it): the conj flag is given as Python bool / numpy.bool_ / Python int, the limits as Python float / numpy.float64 / Python int / numpy.int64 (the integer forms for the integral values 0, 1, 10^6); the oracle is evaluated on the plain values, which are equal to the formed ones",
]

NCH = 3
FS = 102.4         # a non-integer sampling rate
REL = 1e-9
HALF_PI = math.pi / 2

# (variant name, class, setup kind, family, covariance tables supplied)
VARIANTS_B = [
    ("SSIdat", "SSIdat", "single", "ssi", False),
    ("SSIcov", "SSIcov", "single", "ssi", False),
    ("SSIcov+cov", "SSIcov", "single", "ssi", True),
    ("SSIdat_MS", "SSIdat_MS", "multi", "ssi", False),
    ("SSIcov_MS", "SSIcov_MS", "multi", "ssi", False),
    ("pLSCF", "pLSCF", "single", "pl", False),
    ("pLSCF_MS", "pLSCF_MS", "multi", "pl", False),
]
# driver A, quick: SSIcov inherits run() from SSIdat, so its covariance-free pass is left to the thorough tier
VARIANTS_Q = [v for v in VARIANTS_B if v[0] != "SSIcov"]
VARIANTS_T = VARIANTS_B + [("SSIdat+cov", "SSIdat", "single", "ssi", True)]

ITEMS = ["good", "negdamp", "highdamp", "complex", "mild", "noconj", "empty"]
ITEMS_COV = ITEMS[:-1] + ["bigcov", "empty"]

ORDMAX_A = 4          # SSI: table of ORDMAX_A rows x ORDMAX_A+1 orders (the shape SSI_poles returns)
ORDMAX_PL = 2         # pLSCF: ORDMAX_A rows x ORDMAX_PL orders (column = order index)


# ---------------------------------------------------------------------------------------------
# criteria lattice
def lattice(tier, with_cov):
    conj = [True, False]
    xi_max = [0.1, 1.0] if tier == "quick" else [0.01, 0.1, 1.0]
    mpc = [0.0, 0.5, 0.99]
    mpd = [0.01, 0.3, HALF_PI]
    cov = [1e-6, 1e6] if with_cov else [1e-6]
    out = [dict(conj=c, xi_max=x, mpc_lim=a, mpd_lim=b, cov_max=v)
           for c, x, a, b, v in itertools.product(conj, xi_max, mpc, mpd, cov)]
    # the ends of the stated ranges (mpc_lim in [0, 1], mpd_lim in [0, pi/2], xi_max in (0, 1]): every criterion once at its
    # most restrictive legal value with the others neutral, and all of them together
    ends = [dict(conj=False, xi_max=1.0, mpc_lim=0.0, mpd_lim=0.0), dict(conj=False, xi_max=1.0, mpc_lim=1.0, mpd_lim=HALF_PI),
            dict(conj=True, xi_max=1.0, mpc_lim=1.0, mpd_lim=0.0), dict(conj=True, xi_max=1e-3, mpc_lim=0.0, mpd_lim=HALF_PI)]
    for e in ends:
        for v in cov:
            h = dict(e, cov_max=v)
            if h not in out:
                out.append(h)
    return out


# ---------------------------------------------------------------------------------------------
# designed catalogue
def lam(f, xi):
    w = 2 * np.pi * f
    return complex(-xi * w, w * np.sqrt(1 - xi * xi))


def catalogue(seed):
    """name -> (f0, xi, shape, conjugate present, big covariance); shapes perturbed by the payload alphabet."""
    u = payload.uniform(seed, "c09/cat", 24, -1.0, 1.0)
    real = np.array([1.0, 0.6 * (1 + 0.05 * u[0]), -0.4 * (1 + 0.05 * u[1])], dtype=complex)
    cplx = np.array([1.0, 0.9j * (1 + 0.05 * u[2]), (-0.8 + 0.1j) * (1 + 0.05 * u[3])], dtype=complex)   # MPC ~0.33, MPD ~0.52
    mild = np.array([1.0, (0.6 + 0.1j) * (1 + 0.05 * u[4]), (-0.4 - 0.06j) * (1 + 0.05 * u[5])], dtype=complex)   # MPC ~0.97, MPD ~0.08
    cat = {
        "good": (10.0, 0.02, real, True, False),
        "negdamp": (12.0, -0.01, real * (1 + 0j), True, False),
        "highdamp": (14.0, 0.3, real, True, False),
        "complex": (16.0, 0.02, cplx, True, False),
        "mild": (18.0, 0.02, mild, True, False),
        "noconj": (20.0, 0.02, real, False, False),
        "bigcov": (22.0, 0.02, real, True, True),
        "empty": None,
    }
    out = {}
    for k, (name, v) in enumerate(cat.items()):
        if v is None:
            out[name] = None
            continue
        f0, xi, phi, cj, big = v
        out[name] = (f0 + 0.05 * u[8 + k], xi * (1 + 0.02 * u[16 + k]), phi, cj, big)
    return out


def designed(cat, family, with_cov, names):
    """names: 4 catalogue keys -> (order A slot 0, order A slot 1, order B slot 0, order B slot 1)."""
    R = ORDMAX_A
    C = ORDMAX_A + 1 if family == "ssi" else ORDMAX_PL
    cols = (C - 2, C - 1)
    Fn = np.full((R, C), np.nan)
    Xi = np.full((R, C), np.nan)
    L = np.full((R, C), np.nan, dtype=complex)
    Phi = np.full((R, C, NCH), np.nan, dtype=complex)
    Fc = Xc = Pc = None
    if with_cov:
        Fc = np.full((R, C), np.nan)
        Xc = np.full((R, C), np.nan)
        Pc = np.full((R, C, NCH), np.nan)
    for s, name in enumerate(names):
        it = cat[name]
        if it is None:
            continue
        o = cols[s // 2]
        slot = s % 2
        f0, xi, phi, cj, big = it
        l0 = lam(f0 + 0.01 * o + 0.3 * slot, xi)
        for half, (l, p) in enumerate([(l0, phi), (np.conj(l0), np.conj(phi))]):
            if half == 1 and not cj:
                continue
            r = 2 * slot + half
            Fn[r, o] = abs(l) / (2 * np.pi)
            Xi[r, o] = -l.real / abs(l)
            L[r, o] = l
            Phi[r, o] = p
            if with_cov:
                Fc[r, o] = (1.0 + 0.01 * r) if big else 1e-8 * (1 + r + 10 * o)
                Xc[r, o] = 2e-8 * (1 + r + 10 * o)
                Pc[r, o] = 3e-8 * (1 + np.arange(NCH) + r + 10 * o)
    return dict(Fn=Fn, Xi=Xi, Phi=Phi, Lambds=L, Fn_cov=Fc, Xi_cov=Xc, Phi_cov=Pc)


def tables(tier, with_cov):
    items = ITEMS_COV if with_cov else ITEMS
    if tier == "quick":
        return [t + ("empty",) for t in itertools.product(items, repeat=3)]
    return list(itertools.product(items, repeat=4))


# ---------------------------------------------------------------------------------------------
# oracle
_MP_CACHE = {}


def lib_mpc_mpd(phi):
    key = phi.tobytes()
    v = _MP_CACHE.get(key)
    if v is None:
        from pyoma2.functions import gen

        try:
            a = complex(gen.MPC(phi)).real
        except Exception:
            a = float("nan")
        try:
            b = float(np.real(gen.MPD(phi)))
        except Exception:
            b = float("nan")
        if len(_MP_CACHE) > 200000:
            _MP_CACHE.clear()
        v = _MP_CACHE[key] = (a, b)
    return v


def cmp_lt(v, thr):
    """three-valued v < thr"""
    if v != v:
        return None
    tol = REL * max(abs(thr), abs(v)) if thr != 0 else REL
    if abs(v - thr) <= tol:
        return None
    return v < thr


def analyse(unf):
    """Pole records of an unfiltered solution: the criterion *values* of every pole (independent of the thresholds)."""
    Fn, Xi, Phi, L = unf["Fn"], unf["Xi"], unf["Phi"], unf["Lambds"]
    fin = np.isfinite(Fn)
    poles = []
    lam_all = L[np.isfinite(L)] if L is not None else np.array([])
    for i, o in zip(*np.nonzero(fin)):
        l = L[i, o]
        strong = weak = None
        if np.isfinite(l):
            col = L[:, o]
            strong = bool(np.any(col[np.isfinite(col)] == np.conj(l)))
            weak = bool(np.any(np.abs(lam_all - np.conj(l)) <= REL * abs(l)))
        mpc, mpd = lib_mpc_mpd(np.ascontiguousarray(Phi[i, o]))
        cov = None
        if unf["Fn_cov"] is not None:
            cov = float(unf["Fn_cov"][i, o])
        poles.append(dict(i=int(i), o=int(o), xi=float(Xi[i, o]), mpc=mpc, mpd=mpd, cov=cov, strong=strong, weak=weak))
    return poles


def verdicts(p, hc, use_cov):
    """criterion -> True (met) / False (violated) / None (not judged). 'conj' carries (for-completeness, for-soundness)."""
    v = {}
    if hc["conj"]:
        # completeness needs the strong reading to be met; soundness is violated only if even the weak reading fails
        v["conj"] = (True if p["strong"] else None, False if p["weak"] is False else None)
    lo = cmp_lt(0.0, p["xi"])
    hi = cmp_lt(p["xi"], hc["xi_max"])
    v["xi_low"] = lo
    v["xi_high"] = hi
    a = cmp_lt(p["mpc"], hc["mpc_lim"])
    v["mpc"] = None if a is None else (not a)           # MPC >= mpc_lim
    b = cmp_lt(hc["mpd_lim"], p["mpd"])
    v["mpd"] = None if b is None else (not b)           # MPD <= mpd_lim
    if use_cov:
        v["cov"] = None if p["cov"] is None else cmp_lt(p["cov"], hc["cov_max"])
    return v


def classify(v):
    """-> (must_keep, failed criteria (definitely), undecided?)"""
    failed = []
    undecided = False
    all_true = True
    for k, x in v.items():
        if k == "conj":
            keep_side, sound_side = x
            if sound_side is False:
                failed.append("conj")
            if keep_side is not True:
                all_true = False
                if sound_side is not False:
                    undecided = True
            continue
        if x is False:
            failed.append(k)
            all_true = False
        elif x is None:
            undecided = True
            all_true = False
    return all_true, failed, undecided


TABLES_RES = [("Fn", "Fn_poles"), ("Xi", "Xi_poles"), ("Phi", "Phi_poles"), ("Lambds", "Lambds"),
              ("Fn_cov", "Fn_poles_cov"), ("Xi_cov", "Xi_poles_cov"), ("Phi_cov", "Phi_poles_cov")]


# criterion -> key of the criteria dictionary whose written form is recorded with an isolated rejection (xi_low has the fixed bound 0)
FORM_KEY = {"conj": "conj", "xi_high": "xi_max", "mpc": "mpc_lim", "mpd": "mpd_lim", "cov": "cov_max"}


class _HC(dict):
    """The plain criteria point, printed together with the form in which it was handed to the algorithm."""
    form = ""

    def __str__(self):
        return dict.__repr__(self) + (f" given as [{self.form}]" if self.form else "")

    __repr__ = __str__
    __format__ = lambda self, spec: str(self)      # noqa: E731


def judge(t, vname, unf, poles, res, hc, case, nt_id, forms=None, ordmin=0):
    """Compare one result with the oracle (hc = the plain criteria values; forms = the type names in which they were given,
    ordmin = the run parameter of the judged run: both used only for the monitors and the messages - the oracle depends on the
    plain criteria values alone). Returns number of poles judged."""
    forms = forms or {}
    if forms or ordmin:
        plain = hc
        hc = _HC(plain)
        hc.form = ", ".join(f"{k}: {forms[k]}" for k in plain if k in forms) + (f"; run parameter ordmin={ordmin}" if ordmin else "")
    use_cov = unf["Fn_cov"] is not None
    Fn_r = getattr(res, "Fn_poles", None)
    if Fn_r is None or np.shape(Fn_r) != unf["Fn"].shape:
        t.violation(f"shape:Fn_poles:{vname}", f"{vname}: Fn_poles has shape {np.shape(Fn_r)}, unfiltered solution {unf['Fn'].shape}", case)
        return 0
    kept = ~np.isnan(np.asarray(Fn_r, dtype=float))
    # ---- one NaN pattern, unchanged values, nothing appears
    for uk, rk in TABLES_RES:
        u = unf.get(uk)
        if u is None:
            continue
        if not hasattr(res, rk):
            continue                      # pLSCF results have no eigenvalue / covariance tables
        r = getattr(res, rk)
        if r is None or np.shape(r) != u.shape:
            t.violation(f"shape:{rk}:{vname}", f"{vname}: {rk} is {type(r).__name__} of shape {np.shape(r)}, unfiltered {u.shape}", case)
            continue
        r = np.asarray(r)
        k3 = kept[..., None] if u.ndim == 3 else kept
        ufin = ~np.isnan(u)
        rnan = np.isnan(r)
        bad_pat = ufin & (rnan == k3)
        if bad_pat.any():
            idx = tuple(int(x) for x in np.argwhere(bad_pat)[0])
            t.violation(f"pattern:{rk}:{vname}",
                        f"{vname}: {rk}{list(idx)} is {'NaN' if rnan[idx] else 'finite'} while Fn_poles at that pole is "
                        f"{'retained' if kept[idx[:2]] else 'NaN'} (tables do not share one NaN pattern); hc={hc}", case)
        changed = ufin & k3 & ~rnan & (r != u)
        if changed.any():
            idx = tuple(int(x) for x in np.argwhere(changed)[0])
            t.violation(f"value-changed:{rk}:{vname}", f"{vname}: retained pole changed value in {rk}{list(idx)}: {u[idx]} -> {r[idx]}; hc={hc}", case)
        appeared = ~ufin & ~rnan
        if appeared.any():
            idx = tuple(int(x) for x in np.argwhere(appeared)[0])
            t.violation(f"appeared:{rk}:{vname}", f"{vname}: {rk}{list(idx)} = {r[idx]} although the unfiltered solution has no value there; hc={hc}", case)
    # ---- soundness / completeness per pole
    nontrivial = False
    judged = 0
    for p in poles:
        v = verdicts(p, hc, use_cov)
        must_keep, failed, undecided = classify(v)
        is_kept = bool(kept[p["i"], p["o"]])
        if failed:
            judged += 1
            if len(failed) == 1 and not undecided:
                others_ok = all((x[0] if k == "conj" else x) is True for k, x in v.items() if k != failed[0])
                if others_ok:
                    nontrivial = True
                    t.outcomes[f"only:{failed[0]}:{vname}"] += 1
                    if failed[0] in FORM_KEY and FORM_KEY[failed[0]] in forms and not vname.startswith("B/"):
                        # the single effective criterion was written in this form
                        t.outcomes[f"only:{failed[0]}:{vname}/{forms[FORM_KEY[failed[0]]]}"] += 1
                    if p["o"] < ordmin:
                        # the single effective criterion has to act in a table column (order) below the run's ordmin
                        t.outcomes[f"only:{failed[0]}:{vname}/below-ordmin"] += 1
            if is_kept:
                why = "+".join(failed)
                t.violation(f"unsound:{why}:{vname}",
                            f"{vname}: pole [{p['i']},{p['o']}] retained although it violates {failed}: xi={p['xi']:.6g} "
                            f"MPC={p['mpc']:.6g} MPD={p['mpd']:.6g} cov={p['cov']} conj(same order/anywhere)={p['strong']}/{p['weak']}; hc={hc}",
                            case)
            else:
                t.outcomes["rejected-as-required"] += 1
        elif must_keep:
            judged += 1
            if is_kept:
                t.outcomes["kept-as-required"] += 1
                if p["o"] < ordmin:
                    t.outcomes[f"kept-as-required:{'B' if vname.startswith('B/') else 'A'}/below-ordmin"] += 1
                if not hc["conj"] and p["weak"] is False and "conj" in forms and not vname.startswith("B/"):
                    # criterion switched off (in this form): a pole without conjugate that meets all the others has to stay
                    t.outcomes[f"kept-unpaired:conj-off:{vname}/{forms['conj']}"] += 1
            else:
                t.violation(f"incomplete:{vname}",
                            f"{vname}: pole [{p['i']},{p['o']}] meets every enabled criterion but was blanked: xi={p['xi']:.6g} "
                            f"MPC={p['mpc']:.6g} MPD={p['mpd']:.6g} cov={p['cov']} conj in same order={p['strong']}; hc={hc}", case)
        else:
            t.not_judged += 1
            t.outcomes["pole-not-judged"] += 1
    if nontrivial:
        t.nontrivial.add(nt_id)
    return judged


# ---------------------------------------------------------------------------------------------
# implementation side
_CUR = {}


def _fake_ssi_poles(Obs, AA, CC, ordmax, dt, step=1, calc_unc=False, **kw):
    u = _CUR["unf"]
    c = [None if u[k] is None else u[k].copy() for k in ("Fn", "Xi", "Phi", "Lambds", "Fn_cov", "Xi_cov", "Phi_cov")]
    return tuple(c)


def _fake_plscf_poles(Ad, Bn, dt, methodSy=None, nxseg=None, **kw):
    u = _CUR["unf"]
    return tuple(u[k].copy() for k in ("Fn", "Xi", "Phi", "Lambds"))


class Patched:
    """Replace or wrap SSI_poles / pLSCF_poles as the algorithm modules see them."""

    def __init__(self, mode):
        self.mode = mode

    def __enter__(self):
        import pyoma2.algorithms.plscf as apl
        import pyoma2.algorithms.ssi as assi

        self.mods = (assi.ssi, apl.plscf)
        self.orig = (assi.ssi.SSI_poles, apl.plscf.pLSCF_poles)
        o_ssi, o_pl = self.orig
        if self.mode == "replace":
            assi.ssi.SSI_poles = _fake_ssi_poles
            apl.plscf.pLSCF_poles = _fake_plscf_poles
        else:
            def rec_ssi(*a, **k):
                out = o_ssi(*a, **k)
                _CUR["rec"] = dict(zip(("Fn", "Xi", "Phi", "Lambds", "Fn_cov", "Xi_cov", "Phi_cov"),
                                       [None if x is None else np.array(x, copy=True) for x in out]))
                return out

            def rec_pl(*a, **k):
                out = o_pl(*a, **k)
                d = dict(zip(("Fn", "Xi", "Phi", "Lambds"), [np.array(x, copy=True) for x in out]))
                d.update(Fn_cov=None, Xi_cov=None, Phi_cov=None)
                _CUR["rec"] = d
                return out

            assi.ssi.SSI_poles = rec_ssi
            apl.plscf.pLSCF_poles = rec_pl
        return self

    def __exit__(self, *exc):
        self.mods[0].SSI_poles, self.mods[1].pLSCF_poles = self.orig
        return False


def small_data(seed):
    y1 = payload.normal(seed, "c09/A/y1", (24, NCH))
    y2 = payload.normal(seed, "c09/A/y2", (24, NCH))
    return y1, y2


_SETUPS = {}


def get_setup(kind, seed, which, rec=None):
    key = (kind, seed, which, rec)
    s = _SETUPS.get(key)
    if s is None:
        from pyoma2.setup import MultiSetup_PreGER, SingleSetup

        if which == "A":
            y1, y2 = small_data(seed)
            fs = FS
        else:
            y1, y2 = record(seed, rec)
            fs = FS_B
        if kind == "single":
            s = SingleSetup(y1, fs)
        else:
            s = MultiSetup_PreGER(fs=fs, ref_ind=[[0, 1], [0, 1]], datasets=[y1, y2])
        _SETUPS[key] = s
    return s


def _rotated(d):
    """Same mapping, keys inserted in an order that rotates with the criteria values (a dict is a mapping: the order in which
    the user writes the hard-criteria keys must not matter)."""
    keys = list(d)
    k = (int(bool(d.get("conj"))) + int(round(10 * d.get("xi_max", 0))) + int(round(100 * d.get("mpc_lim", 0))) + len(keys)) % len(keys)
    keys = keys[k:] + keys[:k]
    if k % 2:
        keys.reverse()
    return {key: d[key] for key in keys}


# Form of the criteria values. The hard-criteria dictionary is an untyped mapping: whatever the user writes reaches run()
# unconverted. A flag coming out of a numpy / pandas comparison is a numpy.bool_, one read from a table an int; a limit may be a
# numpy scalar or, for the integral values (xi_max = 1, mpc_lim in {0, 1}, mpd_lim = 0, cov_max = 10^6), an integer.
# Every form below is EQUAL (==) to the plain value, so the criteria point - and with it the oracle - is the same.
FLAG_FORMS = ("bool", "numpy.bool_", "int")
LIMIT_FORMS = ("float", "numpy.float64", "int-where-integral", "numpy.int64-where-integral")
N_FORMS = len(FLAG_FORMS) * len(LIMIT_FORMS)


def _formed(hc, form):
    """Same mapping, same values, written in form number `form` (0 = Python bool and Python floats, the form of the defaults)."""
    ff = form % len(FLAG_FORMS)
    lf = (form // len(FLAG_FORMS)) % len(LIMIT_FORMS)
    out = {}
    for key, v in hc.items():
        if key == "conj":
            out[key] = (bool(v), np.bool_(v), int(bool(v)))[ff]
            continue
        integral = abs(float(v)) < 2.0 ** 53 and float(v).is_integer()
        if lf == 0:
            w = float(v)
        elif lf == 1:
            w = np.float64(v)
        elif lf == 2:
            w = int(v) if integral else float(v)
        else:
            w = np.int64(int(v)) if integral else np.float64(v)
        assert w == v, (key, v, w)
        out[key] = w
    return out


def form_text(form):
    return f"conj as {FLAG_FORMS[form % len(FLAG_FORMS)]}, limits as {LIMIT_FORMS[(form // len(FLAG_FORMS)) % len(LIMIT_FORMS)]}"


def type_name(x):
    """Name of the form in which a criterion value reached the run parameters (read back from the algorithm object)."""
    if isinstance(x, np.bool_):
        return "numpy.bool_"
    if type(x) is bool:
        return "bool"
    if type(x) is int:
        return "int"
    if type(x) is float:
        return "float"
    if isinstance(x, np.generic):
        return "numpy." + type(x).__name__
    return type(x).__name__


# Run parameter `ordmin` ("minimum model order for the analysis"): it selects the orders that get a stability label and the lower
# end of the charts. The statement quantifies the hard criteria over EVERY model order, so the filtered tables may not depend on it.
ORDMIN_LABELS = ("0", "1", "mid", "ordmax")


def run_ordmax(variant, which):
    if variant[3] == "ssi":
        return ORDMAX_A if which == "A" else B_ORDMAX_SSI
    return ORDMAX_PL if which == "A" else B_ORDMAX_PL


def ordmin_values(ordmax):
    """the four values of the axis for a run with this ordmax (labels ORDMIN_LABELS)"""
    return (0, 1, max(1, ordmax // 2), ordmax)


def ordmin_index(vi, ti, g):
    """Position on the ordmin axis for a case. The form index is (vi + ti + g) mod N_FORMS; this one advances once per N_FORMS
    tables / criteria points, so that the two rotations are independent: in driver A every criteria point g meets all
    N_FORMS x 4 (form, ordmin) combinations over the tables; in driver B (few records) over the records and class variants."""
    return (int(ti) // N_FORMS + int(g) + int(vi)) % len(ORDMIN_LABELS)


def ordmin_index_B(vi, rec, g):
    return (int(g) // N_FORMS + int(rec) + int(vi)) % len(ORDMIN_LABELS)


def ordmin_label(variant, which, ordmin):
    vals = ordmin_values(run_ordmax(variant, which))
    return "/".join(l for l, v in zip(ORDMIN_LABELS, vals) if v == ordmin) or "other"


def make_alg(variant, hc, which, form=0, ordmin=0, name="a"):
    import pyoma2.algorithms as algs

    vname, cname, kind, family, with_cov = variant
    cls = getattr(algs, cname)
    hc = _formed(_rotated(hc), form)
    # ordmin = 0 is the default: it is then left out, as in every call made before this axis existed
    okw = {} if ordmin == 0 else {"ordmin": int(ordmin)}
    if family == "ssi":
        if which == "A":
            return cls(name=name, br=2, ordmax=ORDMAX_A, hc=dict(hc), **okw)
        kw = dict(calc_unc=True, nb=B_NB) if with_cov else {}
        return cls(name=name, br=B_BR, ordmax=B_ORDMAX_SSI, hc=dict(hc), **kw, **okw)
    hcp = {k: hc[k] for k in ("conj", "xi_max", "mpc_lim", "mpd_lim")}
    if which == "A":
        return cls(name=name, ordmax=ORDMAX_PL, nxseg=8, hc=hcp, **okw)
    return cls(name=name, ordmax=B_ORDMAX_PL, nxseg=B_NXSEG, method_SD=B_PL_METHOD, hc=hcp, **okw)


_TABLES = ("Fn_poles", "Xi_poles", "Phi_poles", "Lambds", "Fn_poles_cov", "Xi_poles_cov", "Phi_poles_cov", "Lab")


def _tables_differ(first, second, keys):
    diff = []
    for k in keys:
        a, b = getattr(first, k, None), getattr(second, k, None)
        if (a is None) != (b is None) or (a is not None and not (np.shape(a) == np.shape(b) and np.array_equal(np.asarray(a), np.asarray(b), equal_nan=True))):
            diff.append(k)
    return diff


def run_one(variant, hc, seed, which, rec=None, form=0, ordmin=0, ref_ok=True):
    """Run the algorithm through its setup - twice on the same object: the second run must give the very same tables (the
    criteria given by the user are still in force, nothing is consumed by a run). _CUR['rerun'] reports the comparison.
    With ordmin > 0, on the criteria points with selector 1 (and ref_ok), a fresh object with ordmin = 0 is run on the same
    setup as a reference: _CUR['ordmin_ref'] lists the pole tables that differ (None = no reference run made)."""
    setup = get_setup(variant[2], seed, which, rec)
    alg = make_alg(variant, hc, which, form, ordmin)
    # the forms as they are held by the run parameters (what run() will read), for the vacuity monitors
    _CUR["forms"] = {k: type_name(v) for k, v in alg.run_params.hc.items()}
    _CUR["ordmin"] = alg.run_params.ordmin
    setup.add_algorithms(alg)
    setup.run_by_name("a")
    first = alg.result
    _CUR["rerun"] = None
    _CUR["ordmin_ref"] = None
    sel = (int(bool(hc.get("conj"))) + int(round(10 * hc.get("xi_max", 0))) + int(round(100 * hc.get("mpc_lim", 0))) + int(round(100 * hc.get("mpd_lim", 0)))) % 3
    if sel == 1 and ordmin != 0 and ref_ok:
        keep = _CUR.get("rec")            # driver B: the recorded unfiltered tables of the judged run stay the judged ones
        ref = make_alg(variant, hc, which, form, 0, name="r")
        setup.add_algorithms(ref)
        setup.run_by_name("r")
        if keep is not None:
            _CUR["rec"] = keep
        _CUR["ordmin_ref"] = _tables_differ(ref.result, first, _TABLES[:-1])      # everything but the labels
    if sel:
        return first                      # the second run is made on every third point of the criteria lattice
    setup.run_by_name("a")
    second = alg.result
    _CUR["rerun"] = _tables_differ(first, second, _TABLES)
    return first


# ---- driver A -------------------------------------------------------------------------------
_CFG = {}


def form_index(*idx):
    """Form of the criteria values for a case: rotates with the case indices (class variant, table / record, criteria point)."""
    return sum(int(i) for i in idx) % N_FORMS


def _ordmin_outcomes(t, drv, vname, variant, which, om, hc, case):
    """monitors of the ordmin axis + the comparison with the reference run (ordmin = 0), if one was made"""
    t.outcomes[f"{drv}:ordmin={ordmin_label(variant, which, om)}"] += 1
    ref = _CUR.get("ordmin_ref")
    if ref is None:
        return
    if ref:
        for k in ref:
            t.violation(f"ordmin-dependent:{k}:{vname}",
                        f"{vname}: {k} after a run with the run parameter ordmin={om} differs from {k} of a fresh run with the same hard "
                        f"criteria and ordmin=0 (the hard criteria hold at every model order; ordmin has no say in them); hc={hc}", case)
    else:
        t.outcomes[f"{drv}:ordmin-reference-identical"] += 1


def case_A(t, variant, vi, names, ti, hcs, seed, cat, only_g=None, form=None, ordmin=None):
    vname, cname, kind, family, with_cov = variant
    unf = designed(cat, family, with_cov, names)
    poles = analyse(unf)
    _CUR["unf"] = unf
    NG = len(hcs)
    for g, hc in enumerate(hcs):
        if only_g is not None and g != only_g:
            continue
        fm = form_index(vi, ti, g) if form is None else form
        om = ordmin_values(run_ordmax(variant, "A"))[ordmin_index(vi, ti, g)] if ordmin is None else int(ordmin)
        case = {"driver": "A", "variant": vname, "items": list(names), "hc": hc, "form": fm, "form_text": form_text(fm), "ordmin": om, "seed": seed}
        t.states += 1
        t.evaluations += 1
        try:
            # reference run with ordmin = 0 (where ordmin > 0 and the criteria point has selector 1): on every third table; always in a replay
            res = run_one(variant, hc, seed, "A", form=fm, ordmin=om, ref_ok=(ti % 3 == 0 or ordmin is not None))
        except Exception as e:
            t.violation(f"raises:{type(e).__name__}:{vname}.run", f"{vname}.run raised {type(e).__name__}: {e} on a designed population {names}; hc={hc} given as [{form_text(fm)}], ordmin={om}", case)
            continue
        forms = dict(_CUR.get("forms") or {})
        _ordmin_outcomes(t, "A", vname, variant, "A", om, hc, case)
        t.outcomes[f"A:form:conj={forms.get('conj')}"] += 1
        t.outcomes[f"A:form:limits={LIMIT_FORMS[(fm // len(FLAG_FORMS)) % len(LIMIT_FORMS)]}"] += 1
        if _CUR.get("rerun") is None:
            pass
        elif _CUR.get("rerun"):
            t.violation(f"rerun-differs:{vname}", f"{vname}: a second run of the same algorithm object gives different tables {_CUR['rerun']} "
                        f"(hard criteria no longer those given by the user?); hc={hc}", case)
        else:
            t.outcomes["rerun-identical"] += 1
        t.transitions += 1
        t.validated += 1
        n = judge(t, vname, unf, poles, res, hc, case, (vi * 10000 + ti) * 1000 + g, forms, ordmin=om)
        t.extra["poles_judged"] = t.extra.get("poles_judged", 0) + n
        if ti % 97 == 0 and g == 7 and vi < 6:
            t.sample({"driver": "A", "variant": vname, "table": list(names), "hc": hc, "given_as": forms, "ordmin": om,
                      "poles": [{"cell": [p["i"], p["o"]], "xi": round(p["xi"], 5), "MPC": round(p["mpc"], 4), "MPD": round(p["mpd"], 4),
                                 "retained": bool(not np.isnan(res.Fn_poles[p["i"], p["o"]]))} for p in poles]})


def _work_A(item):
    vi, lo, hi = item
    variant = _CFG["variants"][vi]
    with_cov = variant[4]
    tabs = _CFG["tables"][with_cov]
    hcs = _CFG["lattice"][with_cov]
    cat = _CFG["cat"]
    t = Tally()
    with Patched("replace"):
        for ti in range(lo, hi):
            case_A(t, variant, vi, tabs[ti], ti, hcs, _CFG["seed"], cat)
    return t


# ---- driver B -------------------------------------------------------------------------------
FS_B = 20.0
B_N = 600
B_BR = 5
B_ORDMAX_SSI = 8
B_NB = 10
B_ORDMAX_PL = 4
B_NXSEG = 64
B_PL_METHOD = "cor"      # the correlogram route yields full tables on short records (the periodogram route returns mostly unstable poles, which pLSCF_poles blanks itself)


def record(seed, ridx):
    """Two 3-channel datasets (references = channels 0,1; one roving channel each) of one structure."""
    from scipy import signal

    n0 = 200
    n = B_N + n0
    kinds = [
        [(2.0, 0.02), (5.5, 0.01)],
        [],                                        # pure broadband noise: only spurious poles
        [(1.5, 0.05), (4.0, 0.03), (7.0, 0.004)],
        [(3.0, 0.002), (3.4, 0.08)],
        [(0.8, 0.15), (6.0, 0.02), (8.5, 0.01)],
        [(2.5, 0.3), (9.0, 0.001)],
    ]
    modes = kinds[ridx % len(kinds)]
    shapes = [payload.cplx(seed, f"c09/B/{ridx}/phi{m}", 4, phase_spread=(0.0 if m % 2 == 0 else 0.6)) for m in range(len(modes))]
    out = []
    for j in range(2):
        chans = [0, 1, 2 + j]
        y = 0.05 * payload.normal(seed, f"c09/B/{ridx}/noise{j}", (n, 3))
        for m, (f, xi) in enumerate(modes):
            pole = np.exp(lam(f, xi) / FS_B)
            a = [1.0, -2 * pole.real, abs(pole) ** 2]
            q = signal.lfilter([1.0], a, payload.normal(seed, f"c09/B/{ridx}/exc{j}/{m}", (n,)))
            q2 = signal.lfilter([1.0], a, payload.normal(seed, f"c09/B/{ridx}/exq{j}/{m}", (n,)))
            phi = shapes[m][chans]
            y = y + np.outer(q, phi.real) + np.outer(q2, phi.imag)
        out.append(np.ascontiguousarray(y[n0:]))
    return out[0], out[1]


def lattice_B(tier, variant, seed, rec):
    """Criteria lattice on a real record; cov_max is placed inside the recorded covariance values."""
    with_cov = variant[4]
    hcs = lattice(tier, False)
    if not with_cov:
        return hcs
    neutral = dict(conj=False, xi_max=1.0, mpc_lim=0.0, mpd_lim=HALF_PI, cov_max=1e300)
    with Patched("record"):
        _CUR.pop("rec", None)
        run_one(variant, neutral, seed, "B", rec)
        u = _CUR.get("rec")
    covs = np.sort(u["Fn_cov"][np.isfinite(u["Fn_cov"])]) if u and u["Fn_cov"] is not None else np.array([])
    covs = covs[covs > 0]
    if len(covs) >= 2:
        k = len(covs) // 2
        mid = float(np.sqrt(covs[k - 1] * covs[k]))
    else:
        mid = 1e-6
    return [dict(h, cov_max=c) for h in hcs for c in (mid, 1e6)]


def case_B(t, variant, vi, rec, g, hc, seed, form=None, ordmin=None):
    vname = variant[0]
    fm = form_index(vi, rec, g) if form is None else form
    om = ordmin_values(run_ordmax(variant, "B"))[ordmin_index_B(vi, rec, g)] if ordmin is None else int(ordmin)
    case = {"driver": "B", "variant": vname, "record": rec, "hc": hc, "form": fm, "form_text": form_text(fm), "ordmin": om, "seed": seed}
    t.states += 1
    t.evaluations += 1
    with Patched("record"):
        _CUR.pop("rec", None)
        try:
            res = run_one(variant, hc, seed, "B", rec, form=fm, ordmin=om)
        except Exception as e:
            t.violation(f"raises:{type(e).__name__}:{vname}.run", f"{vname}.run raised {type(e).__name__}: {e} on record {rec}; hc={hc} given as [{form_text(fm)}], ordmin={om}", case)
            return
        forms = dict(_CUR.get("forms") or {})
        unf = _CUR.get("rec")
    if unf is None:
        t.violation(f"seam-not-reached:{vname}", f"{vname}.run did not call the pole routine through the algorithm module", case)
        return
    if _CUR.get("rerun") is None:
        pass
    elif _CUR.get("rerun"):
        t.violation(f"rerun-differs:B/{vname}", f"{vname}: a second run of the same algorithm object on record {rec} gives different tables "
                    f"{_CUR['rerun']}; hc={hc}", case)
    else:
        t.outcomes["rerun-identical"] += 1
    t.transitions += 1
    t.validated += 1
    poles = analyse(unf)
    t.outcomes[f"B:poles-in-unfiltered:{'some' if poles else 'none'}"] += 1
    t.outcomes[f"B:form:conj={forms.get('conj')}"] += 1
    t.outcomes[f"B:form:limits={LIMIT_FORMS[(fm // len(FLAG_FORMS)) % len(LIMIT_FORMS)]}"] += 1
    _ordmin_outcomes(t, "B", "B/" + vname, variant, "B", om, hc, case)
    n = judge(t, "B/" + vname, unf, poles, res, hc, case, ("B", vi, rec, g), forms, ordmin=om)
    t.extra["poles_judged"] = t.extra.get("poles_judged", 0) + n
    if g == 5 and rec == 0 and vname in ("SSIcov+cov", "pLSCF"):
        keptn = int(np.sum(~np.isnan(res.Fn_poles)))
        t.sample({"driver": "B", "variant": vname, "record": rec, "hc": hc, "given_as": forms, "ordmin": om, "poles_unfiltered": len(poles), "poles_retained": keptn,
                  "table_shape": list(unf["Fn"].shape)})


def _work_B(item):
    vi, rec = item
    variant = VARIANTS_B[vi]
    t = Tally()
    hcs = lattice_B(_CFG["tier"], variant, _CFG["seed"], rec)
    for g, hc in enumerate(hcs):
        case_B(t, variant, vi, rec, g, hc, _CFG["seed"])
    return t


# ---------------------------------------------------------------------------------------------
def explore(ctx):
    from pyoma2.functions import gen  # noqa: F401  (import before fork)
    import pyoma2.algorithms  # noqa: F401
    import pyoma2.setup  # noqa: F401

    variants = VARIANTS_T if ctx.thorough else VARIANTS_Q
    tabs = {False: tables(ctx.tier, False), True: tables(ctx.tier, True)}
    lat = {False: lattice(ctx.tier, False), True: lattice(ctx.tier, True)}
    nrec = 6 if ctx.thorough else 3
    _CFG.update(variants=variants, tables=tabs, lattice=lat, seed=ctx.seed, tier=ctx.tier, cat=catalogue(ctx.seed))
    ctx.bounds = {
        "driver_A": {
            "class_variants": [v[0] for v in variants],
            "catalogue": ITEMS, "catalogue_with_covariance": ITEMS_COV,
            "table": f"{ORDMAX_A} rows x {ORDMAX_A + 1} orders (SSI) / {ORDMAX_A} x {ORDMAX_PL} (pLSCF); the two highest orders, "
                     + ("slots: 2 pole pairs in the first order + 1 in the second (every assignment: 7^3 / 8^3 tables)" if not ctx.thorough
                        else "2 pole pairs in each of the two orders (every assignment: 7^4 / 8^4 tables)"),
            "tables": {"without_cov": len(tabs[False]), "with_cov": len(tabs[True])},
            "criteria_lattice": {"conj": [True, False], "xi_max": sorted({h["xi_max"] for h in lat[False]}),
                                 "mpc_lim": [0.0, 0.5, 0.99, "1.0 (range end)"], "mpd_lim": ["0.0 (range end)", 0.01, 0.3, HALF_PI], "xi_max range end": 1e-3, "cov_max (cov variants)": [1e-6, 1e6],
                                 "points": {"without_cov": len(lat[False]), "with_cov": len(lat[True])}},
            "criteria_value_forms": {"conj": list(FLAG_FORMS), "limits": list(LIMIT_FORMS),
                                     "rotation": f"form = (variant index + table index + criteria index) mod {N_FORMS}: every criteria point in every form "
                                                 "combination (on different tables), every table in every form combination (at different criteria points)"},
            "run_parameter_ordmin": {"values": dict(zip(ORDMIN_LABELS, ordmin_values(ORDMAX_A))), "values_pLSCF": dict(zip(ORDMIN_LABELS, ordmin_values(ORDMAX_PL))),
                                     "rotation": f"position = (table index // {N_FORMS} + criteria index + variant index) mod 4: independent of the form rotation, "
                                                 f"every criteria point in all {N_FORMS} x 4 (form, ordmin) combinations over the tables",
                                     "reference_run_ordmin_0": "cases with ordmin > 0, criteria selector 1 (mod 3), table index divisible by 3: all pole tables identical"},
        },
        "driver_B": {"records": nrec, "samples": B_N, "fs": FS_B, "ssi": {"br": B_BR, "ordmax": B_ORDMAX_SSI, "nb": B_NB},
                     "plscf": {"ordmax": B_ORDMAX_PL, "nxseg": B_NXSEG, "method_SD": B_PL_METHOD},
                     "class_variants": [v[0] for v in VARIANTS_B],
                     "criteria_lattice": "same as driver A; cov_max in {geometric middle of the recorded covariances, 1e6}",
                     "criteria_value_forms": f"as driver A, form = (variant index + record index + criteria index) mod {N_FORMS}",
                     "run_parameter_ordmin": {"values_ssi": dict(zip(ORDMIN_LABELS, ordmin_values(B_ORDMAX_SSI))), "values_pLSCF": dict(zip(ORDMIN_LABELS, ordmin_values(B_ORDMAX_PL))),
                                              "rotation": f"position = (criteria index // {N_FORMS} + record index + variant index) mod 4",
                                              "reference_run_ordmin_0": "cases with ordmin > 0 and criteria selector 1 (mod 3): all pole tables identical"}},
    }
    # driver B first (long items), then A
    items_B = [(vi, r) for r in range(nrec) for vi in range(len(VARIANTS_B))]
    ctx.pmap(_work_B, items_B, chunksize=1)
    items_A = []
    chunk = 8
    for vi, v in enumerate(variants):
        n = len(tabs[v[4]])
        items_A += [(vi, lo, min(n, lo + chunk)) for lo in range(0, n, chunk)]
    ctx.pmap(_work_A, items_A, chunksize=2)
    req = []
    for v in variants:
        for c in ("conj", "xi_low", "xi_high", "mpc", "mpd") + (("cov",) if v[4] else ()):
            req.append(f"only:{c}:{v[0]}")
    for v in VARIANTS_B:
        for c in ("xi_high", "mpc", "mpd") + (("cov",) if v[4] else ()):
            req.append(f"only:{c}:B/{v[0]}")
    # the form axis: an isolated rejection by each criterion written in each of its forms, for every class variant of driver A
    # (xi_max = 1 rejects nothing and cov_max = 10^6 rejects nothing of the catalogue, so these two have no effective integer form;
    # mpc_lim = 1 and mpd_lim = 0 are the effective integral limits); the conj flag switched off in each form keeps unpaired poles
    eff = {"conj": FLAG_FORMS, "xi_high": ("float", "numpy.float64"), "cov": ("float", "numpy.float64"),
           "mpc": ("float", "numpy.float64", "int", "numpy.int64"), "mpd": ("float", "numpy.float64", "int", "numpy.int64")}
    for v in variants:
        for c in ("conj", "xi_high", "mpc", "mpd") + (("cov",) if v[4] else ()):
            req += [f"only:{c}:{v[0]}/{f}" for f in eff[c]]
        req += [f"kept-unpaired:conj-off:{v[0]}/{f}" for f in FLAG_FORMS]
    for drv in "AB":
        req += [f"{drv}:form:conj={f}" for f in FLAG_FORMS] + [f"{drv}:form:limits={f}" for f in LIMIT_FORMS]
    # the ordmin axis: every value was run in both drivers (for the designed pLSCF tables 1 and the middle order coincide), the
    # reference comparison was made, and - the corner the axis is there for - in every class variant of both drivers a pole in a
    # column below ordmin was rejected by the MPC criterion alone and one by the MPD criterion alone (and poles were kept there)
    req += [f"{drv}:ordmin={l}" for drv in "AB" for l in ORDMIN_LABELS]
    req += ["A:ordmin=1/mid", "A:ordmin-reference-identical", "B:ordmin-reference-identical", "kept-as-required:A/below-ordmin", "kept-as-required:B/below-ordmin"]
    for c in ("mpc", "mpd"):
        req += [f"only:{c}:{v[0]}/below-ordmin" for v in variants] + [f"only:{c}:B/{v[0]}/below-ordmin" for v in VARIANTS_B]
    ctx.require("rerun-identical", "kept-as-required", "rejected-as-required", "B:poles-in-unfiltered:some", *req)


def replay(case):
    hc = dict(case["hc"])
    seed = case["seed"]
    t = Tally()
    vname = case["variant"]
    variant = next(v for v in VARIANTS_T if v[0] == vname)
    vi = [v[0] for v in VARIANTS_T].index(vname)
    if case["driver"] == "A":
        with Patched("replace"):
            case_A(t, variant, vi, tuple(case["items"]), 0, [hc], seed, catalogue(seed), form=int(case.get("form", 0)), ordmin=int(case.get("ordmin", 0)))
    else:
        case_B(t, variant, vi, case["record"], 0, hc, seed, form=int(case.get("form", 0)), ordmin=int(case.get("ordmin", 0)))
    return t
