"""C06 - FDD picks the dominant line in the band and its singular vector.

Function level: every designed spectral sequence of a stated family (every assignment of a 5-symbol
ratio alphabet to a 5-line window with a unique maximum, at every window position, payload unitary
bases, Hermitian and half-spectrum) x every selected frequency (grid lines and mid-points) x three band
half-widths, through the real `fdd.SD_svalsvec` -> `fdd.FDD_mpe`; oracle from my own SVD of the matrix. The frequency
axis handed to `FDD_mpe` is an axis of the lattice as well: zero-based, and (one for every second sequence, rotating with
the band width) starting above 0 Hz - the sequence cropped at the lower end, at both ends, at the upper end, first line a multiple of the
line spacing or not; the reference is the definition on the axis handed in.
End to end: FDD / FDD_MS / EFDD / FSDD / EFDD_MS through the setup classes on payload records, oracle
recomputed from `result.Sy`; every band is requested through both documented entry points of the extraction,
`mpe(sel_freq, DF..)` and the interactive `mpe_from_plot(freqlim, DF..)` (the Tk dialog replaced by a stand-in that
hands over the picked grid lines; the dialog itself is property C16), in three call forms, and with DF omitted; the
stored result of every FDD / FDD_MS run is also cropped to four bands of interest and handed, with its own frequency
axis, to the documented function `fdd.FDD_mpe`.
"""
import itertools

import numpy as np

from checks import _a_fdd as H
from mc import payload
from mc.core import Tally

ID = "C06"
TECHNIQUE = ("bounded-exhaustive enumeration of designed spectral-matrix sequences (all ratio profiles over a small "
             "alphabet x all window positions x all selected lines/mid-points x band widths x frequency axes {zero-based, "
             "cropped at the lower end / both ends / upper end, first line on or off the multiples of the spacing}) through the real "
             "SD_svalsvec/FDD_mpe, judged against an independent SVD; plus the full (record x algorithm x segment "
             "length x selection x band x entry point {mpe, mpe_from_plot} x call form) lattice through the setup classes")
LEVEL_TEXT = ("every element of the stated finite lattice is executed on the real code and judged; real-valued content "
              "comes from the payload alphabet of the seed")
RULE = ("a case is one peak-picking request: (spectral sequence, band half-width, selected frequency); distinct by "
        "construction of the lattice. Non-trivial = the widest admissible band holds at least two different ratio values "
        "and the line of the largest ratio is not the line nearest to the selected frequency (so neither 'return the "
        "selected line' nor 'return any line' passes). The set counts requests (one extraction call with its list of "
        "selected frequencies) that contain at least one such case; 'nontrivial_selections' counts the cases themselves")
ASSUMPTIONS = [
    "numpy.linalg.svd (my own call, per line) is the reference decomposition",
    "the band 'inside sel -/+ DF' is accepted under every reading the statement allows: limits = nearest line (all ties) "
    "or outermost line inside, upper limit inclusive or exclusive; the returned line must be the ratio maximum of one of them",
    "ratio ties (within 1e-8 relative) accept any of the tied lines; shapes are judged where sigma1/sigma2 >= 1.1",
    "designed sequences keep sigma1/sigma_n <= 1e6 so that the reference SVD resolves every ratio to 1e-9",
    "frequency axis: FDD_mpe is judged on the axis it is handed (uniform, increasing, any first line): 'a line of the grid', "
    "'inside the band' and 'largest ratio in the band' are all read on that axis and on the lines handed in, whether or not the "
    "sequence is a crop of a longer zero-based one. Function level: every designed sequence is extracted on the zero-based axis "
    "with all band widths, and every second one (k = profile index + window offset + channels + family index even) on ONE "
    "further axis with one band width, (axis, DF) = rotation over k/2, so that every (axis, DF) pair occurs in every "
    "(channels, family, Nf, offset) block of the Nf=17 plan. "
    "Non-uniform axes are not explored",
    "mpe_from_plot route: the name SelFromPlot of pyoma2.algorithms.fdd is replaced by a stand-in that returns what the "
    "real dialog can return for the 'FDD' plot (an ascending list of grid lines as numpy floats, None); which lines a click "
    "history yields is property C16, not judged here. The band judged is the DF (DF1) handed to mpe_from_plot, or the "
    "documented default 0.1 Hz when DF is omitted (only on grids whose line spacing FS/nxseg is at most 0.1 Hz)",
]

ALPHA = (1.5, 3.0, 10.0, 30.0, 100.0)
WIN = 5
DFS = (1.0, 2.0, 3.5)          # band half-widths in line spacings
DFREQ = 0.37                   # line spacing of the designed grids [Hz]
FAMS = ("herm", "half")
TOL_U = 1e-10
TOL_MAC = 1e-10
TOL_NORM = 1e-12
TOL_R = 1e-8

# Frequency axes handed to FDD_mpe besides the zero-based one: (kind, first line in line spacings, lines cut below, lines cut
# above). The designed sequence of Nf lines sits on the axis (first + arange(Nf)) * DFREQ - for an integer `first` these are
# bit for bit the lines first..first+Nf-1 of the zero-based grid arange(M) * DFREQ, i.e. a spectral sequence cropped at the
# lower end - and the slice [cut below : Nf - cut above] of the stored decomposition and of the axis is handed in.
AXES = (
    ("cropped at the lower end", 1.0, 0, 0),
    ("cropped at the lower end", 3.0, 0, 0),
    ("cropped at the lower end", 54.0, 0, 0),            # first line 19.98 Hz
    ("first line off the multiples of the spacing", 0.5, 0, 0),
    ("first line off the multiples of the spacing", 2.3, 0, 0),
    ("first line off the multiples of the spacing", 13.77, 0, 0),
    ("cropped at both ends", 0.0, 2, 1),
    ("cropped at both ends", 6.0, 1, 2),
    ("cropped at both ends", 20.3, 2, 2),
    ("cropped at the upper end", 0.0, 0, 3),             # still zero-based
)
AXIS_KINDS = tuple(dict.fromkeys(a[0] for a in AXES))


def axis_label(vi):
    kind, first, cl, ch = AXES[vi]
    return f"{kind} (first line {first:g} spacings, {cl} lines cut below, {ch} above)"


def axis_rotation(n, fam, off, pi):
    """(axis variant, DF index) of the one further extraction of a designed sequence, or None: every second sequence
    (k even, k = profile index + window offset + channels + family index) is extracted on one further axis."""
    k = pi + off + n + FAMS.index(fam)
    if k % 2:
        return None
    k //= 2
    return k % len(AXES), (k // len(AXES)) % len(DFS)


PROFILES = [p for p in itertools.product(range(len(ALPHA)), repeat=WIN) if p.count(max(p)) == 1]   # 1770
PERMS = [i for i, p in enumerate(PROFILES) if len(set(p)) == WIN]                                  # 120


# ---- designed sequences -------------------------------------------------------------------------
_BASE = {}
_BANDS = {}


def base(seed, n, fam, Nf):
    k = (seed, n, fam, Nf)
    if k not in _BASE:
        tag = f"c06/{n}/{Nf}"
        U = np.array([payload.unitary(seed, f"{tag}/U{i}", n) for i in range(Nf)])
        W = U if fam == "herm" else np.array([payload.unitary(seed, f"{tag}/W{i}", n) for i in range(Nf)])
        u = payload.uniform(seed, f"{tag}/lev", Nf)
        rank = np.argsort(np.argsort(u))
        lev = 10.0 ** (-1.0 + 2.0 * (0.6 * u + 0.4 * (rank + 0.5) / Nf))       # sigma2 per line, distinct, 0.1..10
        ub = payload.uniform(seed, f"{tag}/bg", Nf)
        bg = 1.1 + 0.3 * (np.argsort(np.argsort(ub)) + 0.5) / Nf                 # background ratios, distinct, < 1.5
        low = np.sort(payload.uniform(seed, f"{tag}/low", max(n - 2, 1), 0.1, 0.8))[::-1]
        low = low * (1 - 0.05 * np.arange(len(low)))
        _BASE[k] = (U, W, lev, bg, low[: n - 2])
    return _BASE[k]


def bands(Nf, vi=None):
    """Grid, selected frequencies (every line and mid-point) and admissible bands of the zero-based axis of Nf lines
    (vi None) or of axis variant vi of a sequence of Nf lines (then also the slice of the sequence that is handed in)."""
    if (Nf, vi) not in _BANDS:
        if vi is None:
            freq = np.arange(Nf) * DFREQ
            sl = slice(0, Nf)
        else:
            _, first, cl, ch = AXES[vi]
            sl = slice(cl, Nf - ch)
            freq = ((first + np.arange(Nf)) * DFREQ)[sl].copy()
        sels = np.concatenate([freq, freq[:-1] + DFREQ / 2])
        tab = [[H.band_candidates(freq, s, d * DFREQ) for s in sels] for d in DFS]
        K = max(len(c) for row in tab for c in row)
        pad = np.array([[[c[min(k, len(c) - 1)] for k in range(K)] for c in row] for row in tab])   # (DF, sel, K, 2)
        info = {
            "lo": pad[..., 0], "hi": pad[..., 1], "wlo": pad[..., 0].min(axis=2), "whi": pad[..., 1].max(axis=2),
            "ncand": np.array([[len(c) for c in row] for row in tab]),
            "near": np.rint((sels - freq[0]) / DFREQ - 1e-6).astype(int),
            "slice": sl,
        }
        _BANDS[(Nf, vi)] = (freq, sels, tab, info)
    return _BANDS[(Nf, vi)]


def fast_call(freq, info, dfi, r, s1, u1, Fn, Phi):
    """Vectorised form of judge_pick over one extraction call (designed grids). Returns (pass mask, line indices, stats);
    every selection that does not pass is judged again by judge_pick, which writes the finding."""
    Nf = len(freq)
    idx = np.clip(np.rint((Fn - freq[0]) / DFREQ).astype(int), 0, Nf - 1)        # freq[0] is 0.0 on the zero-based axis
    ok = np.abs(freq[idx] - Fn) <= 1e-12 * freq[-1]
    j = np.arange(Nf)
    RM = np.maximum.accumulate(np.where(j[None, :] >= j[:, None], r[None, :], -np.inf), axis=1)     # RM[lo, hi] = max r[lo..hi]
    lo, hi = info["lo"][dfi], info["hi"][dfi]
    inb = (lo <= idx[:, None]) & (idx[:, None] <= hi)
    ok &= np.any(inb & (r[idx][:, None] >= RM[lo, hi] * (1 - TOL_R)), axis=1)
    k = np.argmax(np.abs(Phi), axis=0)
    top = Phi[k, np.arange(Phi.shape[1])]
    en = np.abs(top - 1.0)
    ok &= en <= TOL_NORM
    ok &= np.all(np.isfinite(Phi), axis=0)
    c = u1[idx].conj()                                                # (sel, n)
    num = np.abs(np.einsum("is,si->s", Phi.conj(), c)) ** 2
    den = np.einsum("is,is->s", Phi.conj(), Phi).real * np.einsum("si,si->s", c.conj(), c).real
    macs = num / den
    ok &= macs >= 1 - TOL_MAC
    ok &= r[idx] >= 1.05
    wlo, whi = info["wlo"][dfi], info["whi"][dfi]
    S1 = np.maximum.accumulate(np.where(j[None, :] >= j[:, None], s1[None, :], -np.inf), axis=1)
    RMin = np.minimum.accumulate(np.where(j[None, :] >= j[:, None], r[None, :], np.inf), axis=1)
    wmax = RM[wlo, whi]
    stats = {
        "clipped": int(np.sum(ok & ((wlo == 0) | (whi == Nf - 1)))),
        "not_s1": int(np.sum(ok & (s1[idx] < S1[wlo, whi]))),
        "tie": int(np.sum(ok & (info["ncand"][dfi] > 2))),
        "nontrivial": int(np.sum(ok & (wmax > RMin[wlo, whi] * 1.001) & (r[info["near"]] < wmax))),
        "emac": float(np.max(1 - macs[ok])) if ok.any() else 0.0,
        "enorm": float(np.max(en[ok])) if ok.any() else 0.0,
    }
    return ok, idx, stats


def sequence(seed, n, fam, Nf, off, prof):
    U, W, lev, bg, low = base(seed, n, fam, Nf)
    ratio = bg.copy()
    ratio[off:off + WIN] = [ALPHA[i] for i in prof]
    s = np.empty((Nf, n))
    s[:, 0] = ratio**2 * lev
    s[:, 1] = lev
    if n > 2:
        s[:, 2:] = lev[:, None] * low[None, :]
    Sy = np.einsum("fik,fk,fjk->ijf", U, s, W.conj())
    return Sy, ratio


# ---- oracles ------------------------------------------------------------------------------------
def judge_decomposition(t, Sy, Sval, Svec, case, where):
    """S_vec unitary, S_val diagonal / non-negative / non-increasing, and conj(S_vec)^T diagonalises Sy Sy^H with the
    fourth (stored = square roots) or second (stored = singular values) powers. Returns 'sqrt' / 'plain' / 'both' / None."""
    n, nc, Nf = Sy.shape
    t.transitions += 1
    t.validated += Nf
    if np.shape(Sval) != (nc, nc, Nf) or np.shape(Svec) != (n, n, Nf) or nc > n:
        t.violation(f"svd:shape@{where}", f"S_val{np.shape(Sval)} S_vec{np.shape(Svec)} for Sy{Sy.shape}", case)
        return None
    V = np.moveaxis(np.asarray(Svec), 2, 0)                       # (Nf, n, n), rows = stored vectors
    D = np.moveaxis(np.asarray(Sval), 2, 0)
    G = V @ V.conj().transpose(0, 2, 1)
    eu = float(np.max(np.abs(G - np.eye(n))))
    t.err("svd unitarity", eu)
    ok = True
    if not eu <= TOL_U:
        t.violation(f"svd:not-unitary@{where}", f"max |S_vec S_vec^H - I| = {eu:.3g}", case)
        ok = False
    sv = np.einsum("fii->fi", D)
    off = D - np.einsum("fi,ij->fij", sv, np.eye(nc))
    if np.max(np.abs(off)) > 0 or np.any(np.iscomplex(sv)) or np.any(sv < 0) or np.any(np.diff(sv.real, axis=1) > 1e-12 * sv.real[:, :1]):
        t.violation(f"svd:values-not-sorted-nonnegative-diagonal@{where}",
                    f"min value {np.min(sv.real):.3g}, largest increase along a line {np.max(np.diff(sv.real, axis=1)):.3g}, "
                    f"largest off-diagonal {np.max(np.abs(off)):.3g}", case)
        ok = False
    sv = sv.real
    S = np.moveaxis(Sy, 2, 0)
    A = S @ S.conj().transpose(0, 2, 1)
    Uc = V.conj().transpose(0, 2, 1)                              # columns = conj of stored rows
    M = Uc.conj().transpose(0, 2, 1) @ A @ Uc
    scale = np.max(np.abs(M), axis=(1, 2))[:, None, None]
    eye = np.eye(n)[None]
    svp = np.concatenate([sv, np.zeros((Nf, n - nc))], axis=1)    # Sy Sy^H has rank <= nc
    e4 = float(np.max(np.abs(M - eye * (svp**4)[:, None, :]) / scale))
    e2 = float(np.max(np.abs(M - eye * (svp**2)[:, None, :]) / scale))
    t.err("svd reconstruction (best convention)", min(e4, e2))
    m4, m2 = e4 <= 1e-8, e2 <= 1e-8
    if not (m4 or m2):
        t.violation(f"svd:not-a-decomposition@{where}",
                    f"conj(S_vec)^T does not diagonalise Sy Sy^H with the stored values: rel. residual {e4:.3g} (as square roots), "
                    f"{e2:.3g} (as singular values)", case)
        return None
    if not ok:
        return None
    return "both" if (m4 and m2) else ("sqrt" if m4 else "plain")


def reference(Sy):
    """My own per-line SVD: ratio of stored values (sqrt(s1/s2)), dominant left vectors, conditioning flag."""
    u, s, _ = np.linalg.svd(np.moveaxis(Sy, 2, 0))
    r = np.sqrt(s[:, 0] / s[:, 1])
    return r, u[:, :, 0], s


def judge_pick(t, freq, r, u1, sel, cands, fn, phi, case, where, judge_line=True):
    """One selected frequency: line on the grid, inside an admissible band, ratio maximal there, shape = conj(u1), unit
    largest component. With judge_line=False (EFDD first stage: the line is not reported) the shape must match the
    ratio maximum of one admissible band. Returns the line index or None."""
    t.validated += 1
    idxs = []
    if judge_line:
        idx = int(np.argmin(np.abs(freq - fn)))
        if not abs(freq[idx] - fn) <= 1e-12 * freq[-1]:
            t.violation(f"mpe:not-a-grid-line@{where}", f"Fn={fn!r} for sel={sel!r}: nearest line {freq[idx]!r}", case)
            return None
        inb = [(lo, hi) for lo, hi in cands if lo <= idx <= hi]
        if not inb:
            t.violation(f"mpe:line-outside-band@{where}", f"Fn=line {idx} for sel={sel:.6g}: admissible bands {cands}", case)
            return None
        if not any(r[idx] >= r[lo:hi + 1].max() * (1 - TOL_R) for lo, hi in inb):
            lo, hi = inb[-1]
            t.violation(f"mpe:not-the-largest-ratio@{where}",
                        f"sel={sel:.6g} band lines {lo}..{hi}: returned line {idx} with s1/s2 ratio {r[idx]:.6g}, "
                        f"largest in band {r[lo:hi + 1].max():.6g} at line {lo + int(np.argmax(r[lo:hi + 1]))}", case)
            return None
        idxs = [idx]
    else:
        idxs = sorted({lo + int(np.argmax(r[lo:hi + 1])) for lo, hi in cands})
    phi = np.asarray(phi)
    if phi.shape != (u1.shape[1],) or not np.all(np.isfinite(phi)):
        t.violation(f"mpe:shape-malformed@{where}", f"Phi column {phi!r}", case)
        return None
    k = int(np.argmax(np.abs(phi)))
    en = abs(phi[k] - 1.0)
    t.err("|largest component - 1|", en)
    if not en <= TOL_NORM:
        t.violation(f"mpe:shape-not-unit-normalised@{where}", f"largest component {phi[k]!r} (sel={sel:.6g})", case)
    good = [i for i in idxs if r[i] >= 1.05]
    if not good:
        t.not_judged += 1
        t.outcomes["shape not judged (sigma1/sigma2 < 1.1 at the line)"] += 1
        return idxs[0]
    best = max(H.mac(phi, u1[i].conj()) for i in good)
    t.err("1 - MAC(Phi, conj u1)", 1 - best)
    if not best >= 1 - TOL_MAC:
        plain = max(H.mac(phi, u1[i]) for i in good)
        t.violation(f"mpe:shape-not-dominant-vector@{where}",
                    f"sel={sel:.6g} line {good[0]}: MAC(Phi, conj(u1)) = {best:.6f} (MAC with u1 itself {plain:.6f})", case)
    return idxs[0]


# ---- function level -----------------------------------------------------------------------------
def run_sequence(t, seed, n, fam, Nf, off, pi, seq_id, only=None, slow=False, axis_only=None):
    from pyoma2.functions import fdd

    prof = PROFILES[pi]
    case0 = {"level": "function", "seed": seed, "n": n, "fam": fam, "Nf": Nf, "off": off, "profile": pi}
    Sy, ratio = sequence(seed, n, fam, Nf, off, prof)
    freq, sels, tab, info = bands(Nf)
    r, u1, s = reference(Sy)
    if not np.allclose(r, ratio, rtol=1e-7):
        raise RuntimeError(f"reference SVD does not resolve the designed ratios: {case0}")
    t.states += 1
    where = fam
    try:
        t.evaluations += 1
        Sval, Svec = fdd.SD_svalsvec(Sy)
    except Exception as e:
        t.violation(f"raises:{type(e).__name__}:SD_svalsvec", f"{e!r}", case0)
        return
    mode = judge_decomposition(t, Sy, Sval, Svec, case0, where)
    t.outcomes[f"decomposition stored-values convention: {mode}"] += 1
    for dfi, d in enumerate(DFS):
        if axis_only is not None or (only is not None and dfi != only):
            continue
        nt = one_call(t, fdd, n, Sval, Svec, freq, sels, tab, info, dfi, r, s, u1, dict(case0, dfi=dfi), where,
                      "raises:{}:FDD_mpe", slow)
        if nt:
            t.nontrivial.add(seq_id * len(DFS) + dfi)
            t.extra["nontrivial_selections"] = t.extra.get("nontrivial_selections", 0) + nt
    if only is not None and axis_only is None:
        return
    # the same stored decomposition on a frequency axis that does not start at 0 Hz / is cropped: one further extraction
    rot = axis_rotation(n, fam, off, pi)
    if axis_only is not None and (rot is None or rot[0] != axis_only or (only is not None and rot[1] != only)):
        raise RuntimeError(f"harness: axis rotation {rot} does not reproduce the replayed case {(axis_only, only)}")
    if rot is None:
        return
    vi, dfi = rot
    afreq, asels, atab, ainfo = bands(Nf, vi)
    sl = ainfo["slice"]
    kind = AXES[vi][0]
    awhere = f"{fam}:axis {kind}"
    nt = one_call(t, fdd, n, Sval[:, :, sl], Svec[:, :, sl], afreq, asels, atab, ainfo, dfi, r[sl], s[sl], u1[sl],
                  dict(case0, dfi=dfi, axis=vi), awhere, "raises:{}:FDD_mpe@" + awhere, slow)
    if nt is None:
        return
    t.outcomes[f"function-level frequency axis: {axis_label(vi)}"] += 1
    t.outcomes[f"function-level frequency axis kind: {kind}, DF={DFS[dfi]} lines"] += 1
    if nt:
        t.nontrivial.add(("axis", seq_id))
        t.extra["nontrivial_selections"] = t.extra.get("nontrivial_selections", 0) + nt
        if afreq[0] > 0:
            t.outcomes["function-level non-trivial selections on an axis that does not start at 0 Hz"] += nt


def one_call(t, fdd, n, Sval, Svec, freq, sels, tab, info, dfi, r, s, u1, case, where, raise_key, slow):
    """One extraction call of the real FDD_mpe on the axis `freq` with all selected frequencies `sels` and band half-width
    DFS[dfi] lines, every selection judged. Returns the number of non-trivial selections, or None if the call failed."""
    d = DFS[dfi]
    Nf = len(freq)
    try:
        t.evaluations += 1
        Fn, Phi = fdd.FDD_mpe(Sval, Svec, freq, list(sels), DF=d * DFREQ)
        Fn = np.asarray(Fn, float).ravel()
        Phi = np.asarray(Phi)
        if Fn.shape != (len(sels),) or Phi.shape != (n, len(sels)):
            raise ValueError(f"Fn{Fn.shape} Phi{Phi.shape}")
    except Exception as e:
        t.violation(raise_key.format(type(e).__name__), f"{e!r} (DF={d} lines, axis {freq[0]:.6g}..{freq[-1]:.6g} Hz, {Nf} lines)", case)
        return None
    t.transitions += len(sels)
    if slow:
        okm = np.zeros(len(sels), bool)
        st = {"clipped": 0, "not_s1": 0, "tie": 0, "nontrivial": 0}
    else:
        okm, _, st = fast_call(freq, info, dfi, r, s[:, 0], u1, Fn, Phi)
        t.validated += int(okm.sum())
        t.err("1 - MAC(Phi, conj u1)", st["emac"])
        t.err("|largest component - 1|", st["enorm"])
    for si in np.where(~okm)[0]:
        sel = sels[si]
        cands = tab[dfi][si]
        idx = judge_pick(t, freq, r, u1, sel, cands, Fn[si], Phi[:, si], case, where)
        if idx is None:
            continue
        lo, hi = info["wlo"][dfi][si], info["whi"][dfi][si]
        seg = r[lo:hi + 1]
        st["nontrivial"] += int(seg.max() > seg.min() * 1.001 and r[info["near"][si]] < seg.max())
        st["clipped"] += int(lo == 0 or hi == Nf - 1)
        st["not_s1"] += int(s[idx, 0] < s[lo:hi + 1, 0].max())
        st["tie"] += int(len(cands) > 2)
    t.outcomes["band clipped by a grid end"] += st["clipped"]
    t.outcomes["largest ratio is not the largest sigma1 in the band"] += st["not_s1"]
    t.outcomes["band limit falls on a mid-point (tie admitted)"] += st["tie"]
    return st["nontrivial"]


def fn_item(item):
    seed, n, fam, Nf, off, lo, hi, plist, base_id = item
    t = Tally()
    for j in range(lo, hi):
        pi = plist[j]
        run_sequence(t, seed, n, fam, Nf, off, pi, base_id + j)
    if lo == 0 and off == 0:
        Sy, ratio = sequence(seed, n, fam, Nf, off, PROFILES[plist[0]])
        t.sample({"level": "function", "n": n, "family": fam, "Nf": Nf, "window_offset": off,
                  "ratio_profile": [ALPHA[i] for i in PROFILES[plist[0]]], "ratios_all_lines": np.round(ratio, 4),
                  "Sy_line0": np.round(Sy[:, :, 0], 4)})
    return t


# ---- end to end ---------------------------------------------------------------------------------
FS = 51.2          # a non-integer sampling rate
NREC = 8192


def split2(Y):
    """2-setup split of one record: two shared reference channels first (the merged spectral matrix has one column per
    reference and FDD needs two singular values), the rest dealt alternately."""
    nch = Y.shape[1]
    nref = 2
    rov = list(range(nref, nch))
    a, b = rov[0::2], rov[1::2]
    refs = list(range(nref))
    return [Y[:, refs + a].copy(), Y[:, refs + b].copy()], [list(range(nref)), list(range(nref))]


ROUTES = ("mpe", "mpe_from_plot")          # the two documented entry points of the extraction
CROP_ROUTE = "FDD_mpe on the cropped result"
# bands of interest the stored result of an FDD / FDD_MS run is cropped to before it is handed to fdd.FDD_mpe: lines [a, b)
CROPS = (
    ("0 Hz line dropped", lambda Nf: (1, Nf)),
    ("lower end", lambda Nf: (Nf // 8, Nf)),
    ("both ends", lambda Nf: (Nf // 5, Nf - Nf // 4)),
    ("upper end", lambda Nf: (0, Nf // 2)),
)
FORMS = ("setup method, keywords, freqlim given", "setup method, positional", "algorithm object, keywords")
DF_DEFAULT = 0.1                            # documented default of DF / DF1 [Hz], used when the argument is omitted


class _Dialog:
    """Stand-in for the Tk dialog behind `mpe_from_plot` (installed as `pyoma2.algorithms.fdd.SelFromPlot`): it hands over
    what the real dialog can hand over for the 'FDD' plot - an ascending list of grid lines (numpy floats) and None."""
    picks = ()
    calls = []

    def __init__(self, algo, freqlim=None, plot="FDD"):
        _Dialog.calls.append((algo, freqlim, plot))
        self.result = ([np.float64(x) for x in sorted(_Dialog.picks)], None)


def extract(ss, a, route, form, first_stage, sels, DF, DF2):
    """One extraction request on the real code. DF None = argument(s) omitted. The mpe route keeps the call form it
    always had in this check; the mpe_from_plot route takes the call form `form`. Returns how often the dialog was opened."""
    if route == "mpe":
        if DF is None:
            ss.mpe("a", sel_freq=list(sels))
        elif first_stage:
            ss.mpe("a", sel_freq=list(sels), DF1=DF, DF2=DF2)
        else:
            ss.mpe("a", sel_freq=list(sels), DF=DF)
        return None
    import pyoma2.algorithms.fdd as AF

    lim = (0.0, FS / 2)
    keep = AF.SelFromPlot
    _Dialog.picks = tuple(sels)
    _Dialog.calls = []
    AF.SelFromPlot = _Dialog
    try:
        if DF is None:
            if form == 0:
                ss.mpe_from_plot("a", freqlim=lim)
            elif form == 1:
                ss.mpe_from_plot("a")
            else:
                a.mpe_from_plot()
        elif first_stage:               # EFDD.mpe_from_plot(DF1, DF2, cm, MAClim, sppk, npmax, freqlim)
            if form == 0:
                ss.mpe_from_plot("a", DF1=DF, DF2=DF2, freqlim=lim)
            elif form == 1:
                ss.mpe_from_plot("a", DF, DF2)
            else:
                a.mpe_from_plot(DF1=DF, DF2=DF2)
        else:                           # FDD.mpe_from_plot(freqlim, DF)
            if form == 0:
                ss.mpe_from_plot("a", freqlim=lim, DF=DF)
            elif form == 1:
                ss.mpe_from_plot("a", None, DF)
            else:
                a.mpe_from_plot(DF=DF)
    finally:
        AF.SelFromPlot = keep
    if any(c[0] is not a or c[2] != "FDD" for c in _Dialog.calls):
        raise RuntimeError(f"harness: the dialog stand-in was consulted for another algorithm or plot: "
                           f"{[(type(c[0]).__name__, c[1], c[2]) for c in _Dialog.calls]}")
    return len(_Dialog.calls)


def e2e_item(item):
    seed, kind, nch, alg, msd, nxseg = item
    t = Tally()
    judge_e2e(t, seed, kind, nch, alg, msd, nxseg)
    return t


def judge_e2e(t, seed, kind, nch, alg, msd, nxseg, only=None, only_route=None):
    from pyoma2 import algorithms as A
    from pyoma2.setup import MultiSetup_PreGER, SingleSetup

    case0 = {"level": "e2e", "seed": seed, "kind": kind, "nch": nch, "alg": alg, "method_SD": msd, "nxseg": nxseg}
    Y = H.record(seed, kind, NREC, nch, tag="c06")
    ms = alg.endswith("_MS")
    cls = getattr(A, alg)
    a = cls(name="a", nxseg=nxseg, method_SD=msd)
    try:
        if ms:
            ds, ref = split2(Y)
            ss = MultiSetup_PreGER(fs=FS, ref_ind=ref, datasets=ds)
        else:
            ss = SingleSetup(Y.copy(), FS)
        ss.add_algorithms(a)
        ss.run_by_name("a")
        t.evaluations += 1
        res = a.result
        Sy = np.asarray(res.Sy)
        freq = np.asarray(res.freq, float)
    except Exception as e:
        t.violation(f"raises:{type(e).__name__}:{alg}.run", f"{e!r}", case0)
        return
    t.states += 1
    where = f"e2e:{alg}"
    Nf = Sy.shape[2]
    if freq.shape != (Nf,) or not np.allclose(np.diff(freq), freq[1] - freq[0], rtol=1e-9):
        t.violation(f"grid:malformed@{where}", f"freq{freq.shape} for Sy{Sy.shape}", case0)
        return
    mode = judge_decomposition(t, Sy, res.S_val, res.S_vec, case0, where)
    t.outcomes[f"decomposition stored-values convention: {mode}"] += 1
    r, u1, s = reference(Sy)
    df = freq[1] - freq[0]
    first_stage = alg.startswith(("EFDD", "FSDD"))
    if first_stage:
        f_true, _, _ = H.system(seed, nch)
        sels = np.array(f_true) * FS
        # the dialog hands over grid lines: the lines nearest to the true frequencies
        picks = np.unique([freq[int(np.argmin(np.abs(freq - x)))] for x in sels])
    else:
        step = max(1, Nf // 64)
        sels = np.concatenate([freq[::step], freq[:-1:step] + df / 2])
        # the dialog hands over grid lines: every (Nf//64)-th line and the lines half-way between them
        picks = np.unique(np.concatenate([freq[::step], freq[step // 2::step]]))
    sel_of = {"mpe": sels, "mpe_from_plot": picks}
    combos = [(dfi, d, 1.5) for dfi, d in enumerate(DFS)]
    if first_stage:
        # the first-stage band is DF1 whatever DF2 is: also with the (unusual but legal) DF2 < DF1
        combos.append((len(DFS), DFS[-1], 0.6 * DFS[-1] * df))
    if DF_DEFAULT >= (FS / nxseg) * (1 - 1e-9):
        # DF (DF1, DF2) omitted: the documented default band of 0.1 Hz, where that is at least one line spacing
        combos.append((len(DFS) + 1, None, None))
    rot = nch + nxseg // 256 + (msd == "cor")             # call-form rotation of the mpe_from_plot route
    picked = {}                                           # (route, selection) -> dominant lines over the requested DFs
    for dfi, d, DF2 in combos:
        if only is not None and dfi != only:
            continue
        DF = DF_DEFAULT if d is None else d * df
        dtxt = "DF omitted" if d is None else f"DF={d} lines"
        for route in ROUTES:
            if only_route is not None and route != only_route:
                continue
            via = route == "mpe_from_plot"
            form = (dfi + rot) % len(FORMS)
            wh = where + (":from-plot" if via else "")
            case = dict(case0, dfi=dfi, route=route)
            rsels = sel_of[route]
            try:
                t.evaluations += 1
                ncalls = extract(ss, a, route, form, first_stage, rsels, None if d is None else DF, DF2)
                if via and ncalls != 1:
                    t.outcomes[f"e2e mpe_from_plot consulted the dialog {ncalls} times"] += 1
                if first_stage and DF2 is not None and DF2 < DF:
                    t.outcomes["e2e first stage with DF2 < DF1" + (" via mpe_from_plot" if via else "")] += 1
                Fn = np.asarray(a.result.Fn, float).ravel()
                Phi = np.asarray(a.result.Phi)
                if Fn.shape != (len(rsels),) or Phi.shape != (Sy.shape[0], len(rsels)):
                    raise ValueError(f"Fn{Fn.shape} Phi{Phi.shape}")
            except Exception as e:
                import traceback

                if isinstance(e, RuntimeError) and str(e).startswith("harness:"):
                    raise
                frames = [fr.name for fr in traceback.extract_tb(e.__traceback__)]
                if first_stage and "EFDD_mpe" in frames and "FDD_mpe" not in frames and "SD_svalsvec" not in frames:
                    # the damping fit of the second stage may legitimately fail on a record; the first stage is then unobservable
                    t.not_judged += len(rsels)
                    t.outcomes[f"second stage raised {type(e).__name__} (first stage not observable)"] += 1
                    continue
                t.violation(f"raises:{type(e).__name__}:{alg}.{route}", f"{e!r} ({dtxt})", case)
                continue
            nt = 0
            for si, sel in enumerate(rsels):
                cands = H.band_candidates(freq, sel, DF)
                t.transitions += 1
                idx = judge_pick(t, freq, r, u1, sel, cands, Fn[si], Phi[:, si], case, wh, judge_line=not first_stage)
                if idx is None:
                    continue
                picked.setdefault((route, si), set()).add(idx)
                lo = min(c[0] for c in cands)
                hi = max(c[1] for c in cands)
                seg = r[lo:hi + 1]
                if seg.max() > seg.min() * 1.001 and lo + int(np.argmax(seg)) != int(np.argmin(np.abs(freq - sel))):
                    nt += 1
                if idx != lo + int(np.argmax(s[lo:hi + 1, 0])):
                    t.outcomes["largest ratio is not the largest sigma1 in the band"] += 1
                if lo == 0 or hi == Nf - 1:
                    t.outcomes["band clipped by a grid end"] += 1
            if via:
                t.outcomes[f"e2e {alg} judged via mpe_from_plot"] += 1
                t.outcomes[f"e2e mpe_from_plot call form: {FORMS[form]}"] += 1
            else:
                t.outcomes[f"e2e {alg} judged"] += 1
            if d is None:
                t.outcomes[f"e2e DF omitted (default {DF_DEFAULT} Hz) via {route}"] += 1
            if nt:
                t.nontrivial.add(("e2e", kind, nch, alg, msd, nxseg, dfi) + (("mpe_from_plot",) if via else ()))
                t.extra["nontrivial_selections"] = t.extra.get("nontrivial_selections", 0) + nt
    if not first_stage and (only_route is None or only_route == CROP_ROUTE):
        judge_cropped(t, a, freq, r, u1, s, sels, df, rot, case0, where, only)
    for route in ROUTES:
        # selections whose dominant line is not the same for all requested band widths: there the DF argument decides the answer
        n = sum(1 for (ro, _), v in picked.items() if ro == route and len(v) > 1)
        if n:
            t.outcomes[f"e2e {route}: the dominant line depends on the requested DF"] += n
    # the stored decomposition must still be a faithful decomposition AFTER the extractions (an extraction must not write into it)
    try:
        res2 = a.result
        mode2 = judge_decomposition(t, np.asarray(res2.Sy), res2.S_val, res2.S_vec, case0, where + ":after-mpe")
        t.outcomes[f"decomposition after mpe: {mode2}"] += 1
    except Exception as e:
        t.violation(f"raises:{type(e).__name__}:decomposition-after-mpe@{where}", f"{e!r}", case0)
    if only is None and kind == "resp" and nxseg == 256 and msd == "per":
        t.sample({"level": "e2e", "alg": alg, "record": kind, "nch": nch, "nxseg": nxseg, "method_SD": msd,
                  "n_selected": int(len(sels)), "Fn_head": np.round(np.asarray(a.result.Fn).ravel()[:4], 5)})


def judge_cropped(t, a, freq, r, u1, s, sels, df, rot, case0, where, only=None):
    """The stored result of the run (S_val, S_vec, freq) cropped to a band of interest and handed, with its own frequency
    axis, to the documented function fdd.FDD_mpe; selected = the selections of the mpe route that lie on the cropped axis;
    DF index = (crop index + rotation of the case) mod 3. The reference is the definition on the axis handed in."""
    from pyoma2.functions import fdd

    Nf = len(freq)
    res = a.result
    for ci, (label, lim) in enumerate(CROPS):
        dfi = (ci + rot) % len(DFS)
        if only is not None and dfi != only:
            continue
        lo_c, hi_c = lim(Nf)
        sl = slice(lo_c, hi_c)
        fc = freq[sl].copy()
        rsels = sels[(sels >= fc[0]) & (sels <= fc[-1])]
        DF = DFS[dfi] * df
        case = dict(case0, dfi=dfi, route=CROP_ROUTE, crop=ci)
        wh = f"{where}:cropped {label}"
        if len(rsels) == 0 or len(fc) < 8:
            raise RuntimeError(f"harness: crop {label} of a grid of {Nf} lines leaves nothing to select")
        try:
            t.evaluations += 1
            Fn, Phi = fdd.FDD_mpe(np.asarray(res.S_val)[:, :, sl], np.asarray(res.S_vec)[:, :, sl], fc, list(rsels), DF=DF)
            Fn = np.asarray(Fn, float).ravel()
            Phi = np.asarray(Phi)
            if Fn.shape != (len(rsels),) or Phi.shape != (u1.shape[1], len(rsels)):
                raise ValueError(f"Fn{Fn.shape} Phi{Phi.shape}")
        except Exception as e:
            t.violation(f"raises:{type(e).__name__}:FDD_mpe@{wh}",
                        f"{e!r} (DF={DFS[dfi]} lines, axis {fc[0]:.6g}..{fc[-1]:.6g} Hz, {len(fc)} lines)", case)
            continue
        rc, uc, sc = r[sl], u1[sl], s[sl]
        nt = 0
        for si, sel in enumerate(rsels):
            cands = H.band_candidates(fc, sel, DF)
            t.transitions += 1
            idx = judge_pick(t, fc, rc, uc, sel, cands, Fn[si], Phi[:, si], case, wh)
            if idx is None:
                continue
            lo = min(c[0] for c in cands)
            hi = max(c[1] for c in cands)
            seg = rc[lo:hi + 1]
            if seg.max() > seg.min() * 1.001 and lo + int(np.argmax(seg)) != int(np.argmin(np.abs(fc - sel))):
                nt += 1
        t.outcomes[f"e2e result cropped ({label}) and handed to FDD_mpe"] += 1
        if nt:
            t.nontrivial.add(("e2e-cropped",) + tuple(case0[k] for k in ("kind", "nch", "alg", "method_SD", "nxseg")) + (ci,))
            t.extra["nontrivial_selections"] = t.extra.get("nontrivial_selections", 0) + nt
            if fc[0] > 0:
                t.outcomes["e2e non-trivial selections on a cropped result that does not start at 0 Hz"] += nt


# ---- lattice ------------------------------------------------------------------------------------
def lattice(ctx):
    th = ctx.thorough
    ns = list(range(2, 9)) if th else [2, 3, 4]
    allp = list(range(len(PROFILES)))
    fn = []
    if th:
        plan = [(17, list(range(17 - WIN + 1)), allp), (33, [0, 1, 2, 13, 14, 15, 26, 27, 28], allp)]
    else:
        plan = [(17, [0, 1, 6, 11, 12], allp), (33, [0, 14, 28], PERMS)]
    ctx.bounds.update({
        "function level": {
            "channels": ns, "families": list(FAMS), "ratio alphabet": list(ALPHA), "window lines": WIN,
            "profiles": "every assignment with a unique maximum (1770)" if th else "Nf=17: every assignment with a unique maximum (1770); Nf=33: the 120 permutations",
            "Nf and window offsets": {str(p[0]): p[1] for p in plan},
            "selected frequencies": "every grid line and every mid-point",
            "DF (line spacings)": list(DFS), "line spacing Hz": DFREQ,
            "frequency axis handed to FDD_mpe": {
                "zero-based": "every sequence x every DF",
                "further axes (first line in spacings, lines cut below, lines cut above)": [list(a) for a in AXES],
                "use": "every second sequence (k = profile index + window offset + channels + family index even) on one "
                       "further axis with one DF: axis = (k/2) mod 10, DF index = (k/20) mod 3; selected = every line and "
                       "mid-point of the axis handed in",
            },
        }})
    base_id = 0
    chunk = 60
    for n in ns:
        for fam in FAMS:
            for Nf, offs, plist in plan:
                for off in offs:
                    for lo in range(0, len(plist), chunk):
                        fn.append((ctx.seed, n, fam, Nf, off, lo, min(lo + chunk, len(plist)), plist, base_id))
                    base_id += len(plist)
    kinds = ["resp", "decay", "white"]
    nchs = [2, 3, 4, 5, 6, 8] if th else [3, 4, 5]
    nxs = [256, 512, 1024] if th else [256, 512]
    e2e = []
    for kind in kinds:
        for nch in nchs:
            for alg in ("FDD", "FDD_MS"):
                if alg == "FDD_MS" and nch < 4:
                    continue
                for msd in ("per", "cor"):
                    for nx in nxs:
                        e2e.append((ctx.seed, kind, nch, alg, msd, nx))
            if kind != "white":
                for alg in ("EFDD", "FSDD", "EFDD_MS"):
                    if alg == "EFDD_MS" and nch < 4:
                        continue
                    for msd in ("per", "cor") if th else ("per",):
                        for nx in ([1024, 2048] if th else [1024]):
                            e2e.append((ctx.seed, kind, nch, alg, msd, nx))
    ctx.bounds["end to end"] = {
        "records": kinds, "channels": nchs, "channels (multi-setup)": [n for n in nchs if n >= 4], "samples": NREC, "fs": FS,
        "algorithms": ["FDD", "FDD_MS (2-setup split)", "EFDD", "FSDD", "EFDD_MS (first stage: Phi)"],
        "method_SD": ["per", "cor"], "nxseg": nxs, "nxseg (EFDD family)": [1024, 2048] if th else [1024],
        "selected frequencies": "FDD: every (Nf//64)-th line and the following mid-point; EFDD family: the three true frequencies",
        "DF (line spacings)": list(DFS),
        "DF omitted": f"the default {DF_DEFAULT} Hz, on the grids with FS/nxseg <= {DF_DEFAULT} Hz (nxseg >= 512), both entry points",
        "entry points": list(ROUTES),
        "cropped result (FDD, FDD_MS)": {
            "what": "result.S_val / S_vec / freq sliced to lines [a, b) and handed to fdd.FDD_mpe with the mpe-route "
                    "selections that lie on the cropped axis",
            "crops [a, b) of Nf lines": {"0 Hz line dropped": "[1, Nf)", "lower end": "[Nf//8, Nf)",
                                         "both ends": "[Nf//5, Nf - Nf//4)", "upper end": "[0, Nf//2)"},
            "DF": "(crop index + nch + nxseg//256 + [method_SD == cor]) mod 3 of the DF list",
        },
        "mpe_from_plot": {
            "classes": ["FDD", "FDD_MS (inherits FDD's method)", "EFDD", "FSDD", "EFDD_MS (EFDD's method: DF1, DF2 first)"],
            "dialog": "stand-in for pyoma2.algorithms.fdd.SelFromPlot returning an ascending list of grid lines",
            "picked lines": "FDD: every (Nf//64)-th line and the lines half-way between them; EFDD family: the lines nearest "
                            "to the three true frequencies",
            "DF": "every DF / (DF1, DF2) of the mpe route, and omitted",
            "call forms": list(FORMS), "call form of a request": "(DF index + nch + nxseg//256 + [method_SD == cor]) mod 3",
        },
    }
    return fn, e2e


def explore(ctx):
    fn, e2e = lattice(ctx)
    ctx.pmap(e2e_item, e2e, chunksize=1)
    ctx.pmap(fn_item, fn, chunksize=1)
    o = ctx.tally.outcomes
    if o.get("decomposition stored-values convention: sqrt", 0) and o.get("decomposition stored-values convention: plain", 0):
        ctx.tally.violation("svd:convention-not-consistent", "stored values are square roots of the singular values for some "
                            "spectral matrices and the singular values themselves for others", {"level": "summary"})
    ctx.require("band clipped by a grid end", "largest ratio is not the largest sigma1 in the band",
                "band limit falls on a mid-point (tie admitted)", "e2e FDD judged", "e2e FDD_MS judged",
                "e2e EFDD judged", "e2e FSDD judged", "e2e EFDD_MS judged", "e2e first stage with DF2 < DF1",
                *[f"e2e {alg} judged via mpe_from_plot" for alg in ("FDD", "FDD_MS", "EFDD", "FSDD", "EFDD_MS")],
                *[f"e2e mpe_from_plot call form: {f}" for f in FORMS],
                "e2e first stage with DF2 < DF1 via mpe_from_plot",
                *[f"e2e DF omitted (default {DF_DEFAULT} Hz) via {ro}" for ro in ROUTES],
                *[f"e2e {ro}: the dominant line depends on the requested DF" for ro in ROUTES],
                *[f"function-level frequency axis: {axis_label(vi)}" for vi in range(len(AXES))],
                *[f"function-level frequency axis kind: {k}, DF={d} lines" for k in AXIS_KINDS for d in DFS],
                "function-level non-trivial selections on an axis that does not start at 0 Hz",
                *[f"e2e result cropped ({c[0]}) and handed to FDD_mpe" for c in CROPS],
                "e2e non-trivial selections on a cropped result that does not start at 0 Hz")


def replay(case):
    t = Tally()
    if case.get("level") == "function":
        run_sequence(t, case["seed"], case["n"], case["fam"], case["Nf"], case["off"], case["profile"], 0, only=case.get("dfi"), slow=True,
                     axis_only=case.get("axis"))
    elif case.get("level") == "e2e":
        judge_e2e(t, case["seed"], case["kind"], case["nch"], case["alg"], case["method_SD"], case["nxseg"], only=case.get("dfi"),
                  only_route=case.get("route"))
    return t
