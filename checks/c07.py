"""C07 - EFDD / FSDD recover frequency and damping of an exact SDOF spectral bell.

Full lattice (segment length x f_n/fs x damping x channels x fs x band x method x scale) of analytic
single-mode spectral matrices through the real `fdd.EFDD_mpe`, and through the `EFDD` / `FSDD` classes in
a `SingleSetup` (the spectral estimator of `run()` is replaced by the designed matrix, everything after it
is the library's). Tolerances are the property's own numbers.

The sampling-frequency axis has two parts: whole numbers of Hz (1, 100; full lattice, five levels) and rates that are NOT a
whole number of Hz (0.64 ... 102.4 Hz, `FS_FRAC`; the property says "any fs"), walked on a covering sub-lattice (every
admissible (nxseg, f_n/fs, xi) x every such rate x both methods x both routes, channels and band rotating with the lattice
coordinates, level 1).

Third route, the interactive entry point: `EFDD/FSDD.mpe_from_plot` with the REAL dialog (`SelFromPlot`; only the tkinter widgets
are inert stand-ins, the figure, the Matplotlib callback registry and the handlers are the library's). The "user" holds SHIFT and
clicks with the left button on the peak of the exact bell. The frequency range the dialog is opened with (`freqlim`) is an axis:
default, (0, x) and several (lo, hi) with lo > 0 (`VIEWS`), on a covering sub-lattice (every admissible (nxseg, f_n/fs, xi) x every
view x both methods, level 1 - in the quick tier the views with lower limit 0 take one method per point, rotating; fs over all
rates of both parts of the fs axis, channels, band, call form and click abscissa rotating).

The analysis-band axis has two parts: a few bandwidths (`BANDS`, full lattice) and bands WIDER THAN THE DISTANCE FROM THE MODE TO 0 Hz
(`WIDE`: DF2 = f_n, 1.5 f_n, 2 f_n, 3 f_n and the library default - DF2 not passed - where it exceeds f_n; the lower edge f_n - DF2 is at
or below the first spectral line, the upper edge may lie beyond fs/2; the property bounds DF2 only from below), walked on a covering
sub-lattice: every admissible (nxseg, f_n/fs, xi) x every such band x both methods x both routes, level 1, fs and channels rotating.
"""
import numpy as np

from checks import _a_fdd as H
from mc import payload
from mc.core import Tally

ID = "C07"
TECHNIQUE = ("exhaustive walk of the configuration lattice (segment length x frequency x damping x channels x sampling "
             "frequency x analysis band x method x level) around payload mode shapes, ground truth = the analytic single-mode "
             "spectral density the matrix was built from; function route and setup-class route")
LEVEL_TEXT = ("every admissible point of the stated lattice is executed on the real code and judged with the tolerances "
              "written in the property (MAC 0.999, 2.5 % frequency, 15 % damping, 1e-6 between levels)")
RULE = ("a case is one admissible lattice point (nxseg, f_n/fs, xi, channels, fs, band, method), judged at three levels and, "
        "at level 1, through the setup class as well; admissible = half-power bandwidth 2 xi f_n spans >= 4 lines and the half "
        "record holds >= 30 periods, decided from (f_n, xi, nxseg, fs) only; every admissible case is non-trivial (the estimate "
        "comes from a fit of 20 correlation extrema of the inverse-transformed bell); distinct by lattice coordinates; the points at a "
        "sampling rate that is not a whole number of Hz, and the points whose analysis band is wider than the distance to 0 Hz (band = '1 fn' ... "
        "'3 fn', 'default'), are judged at level 1 only (function and setup class); the points of the "
        "interactive route (mpe_from_plot through the real dialog) are one (nxseg, f_n/fs, xi, view, method) each, level 1, distinct by "
        "these coordinates")
ASSUMPTIONS = [
    "the spectral matrix is S(f) phi phi^T + 1e-9 max(S) I with S(f) = 1/((wn^2-w^2)^2 + (2 xi wn w)^2) on the grid k fs/nxseg, "
    "k = 0..nxseg/2 (periodogram convention)",
    "tolerances are the property's calibrated numbers; a loss of accuracy inside them is not seen",
    "first-stage band DF1 = max(2 lines, 0.1 bandwidths); analysis band DF2 = 4 or 6 bandwidths (full lattice) or wider than the distance "
    "to 0 Hz (next item); default sppk/npmax/MAClim",
    "analysis band wider than the distance from the mode to 0 Hz (the property bounds DF2 from below only, 'at least four bandwidths'; "
    "DF2 = f_n is 1/(2 xi) = 10..25 bandwidths): DF2 = 1, 1.5, 2, 3 times f_n, and the library default (DF2 not passed to the call; 1.0 Hz "
    "as documented) at sampling rates where 1.0 Hz > f_n - the lower edge f_n - DF2 is then at or below 0 Hz (the band should start at the "
    "first line), and for the larger ones the upper edge is beyond fs/2. Covering sub-lattice: every admissible (nxseg, f_n/fs, xi) x every "
    "such band x both methods x both routes (fdd.EFDD_mpe, setup.mpe) at level 1; the sampling rate (all whole and non-whole rates; for the "
    "default band those with f_n < 1 Hz) and the channel count rotate with the lattice coordinates; an error that needs a particular "
    "(rate, channels, level) together with such a band can be missed; the interactive route is walked with the bands of a few bandwidths only",
    "setup route: pyoma2.functions.fdd.SD_est is replaced by a function returning the designed (freq, Sy) while run() executes",
    "sampling rates that are not a whole number of Hz (0.64, 1.6, 2.56, 6.25, 12.5, 102.4 Hz: 1/fs is not the inverse of an integer, "
    "fs differs from the nearest integer by 0.4 % ... 56 %) are walked on a covering sub-lattice, not on the full one: every admissible "
    "(nxseg, f_n/fs, xi) x every such rate x both methods x both routes at level 1, with the channel count (and, in the quick tier, the "
    "band) rotating with the lattice coordinates so that every (rate, channels) and (rate, band) pair occurs; an error that needs a "
    "particular (channels, band, level) together with a non-integer rate can be missed",
    "interactive route (EFDD/FSDD.mpe_from_plot): tkinter widgets are replaced by inert stand-ins whose mainloop() delivers the events "
    "(press SHIFT, left click, release SHIFT) through the real Matplotlib callback registry of the dialog's figure; everything else is the "
    "library's. The click is at the peak of the exact bell (abscissa f_n, or the frequency line where the designed S(f) is largest; the "
    "ordinate, in dB, must not matter), so the 'analysis band covers the bell' premise holds from the user's side. The frequency range the "
    "dialog is opened with (freqlim) is walked over the family VIEWS - default None, (0, fs/2) written out, (0, hi), and (lo, hi) with "
    "lo > 0: half a line, a quarter and a half of f_n, a window of 1.5 DF2 around the bell - all from (f_n, xi, nxseg, fs) only; the peak "
    "is inside every view. Covering sub-lattice: every admissible (nxseg, f_n/fs, xi) x every view x both methods at level 1 (quick tier: the three views with "
    "lower limit 0 take one method per point, rotating, so that every (view, method) pair still occurs); the sampling "
    "rate (all whole and non-whole rates), channels, band (quick tier), call form (setup.mpe_from_plot / algorithm.mpe_from_plot, limits as "
    "float / as int where whole) and click abscissa rotate with the lattice coordinates; an error that needs a particular combination of "
    "these with a view can be missed. One click per session (one mode in the spectrum); pan/zoom of the toolbar is not exercised",
]

NXSEG = (1024, 2048, 4096, 8192)
FREL = (0.04, 0.07, 0.11, 0.16, 0.21, 0.25)
XI = (0.02, 0.03, 0.04, 0.05)
NCH = (2, 4, 6)
BANDS = (4.0, 6.0)
METHODS = ("EFDD", "FSDD")
SCALES = (1.0, 1e-6, 1e6, 4e-16, 1e15)
# sampling rates that are not a whole number of Hz (the statement says "any fs"): decimated 100 Hz records (12.5, 6.25), the
# power-of-two rates of analysers (2.56, 102.4, 0.64), 1.6; both roundings (up: 0.64, 1.6, 2.56; down: 6.25, 12.5, 102.4)
FS_FRAC = (0.64, 1.6, 2.56, 6.25, 12.5, 102.4)
# analysis bands wider than the distance from the mode to 0 Hz: DF2 in units of f_n (lower edge f_n - DF2 <= 0), and the library
# default (DF2 is not passed; DF2_DEFAULT Hz as documented - used only to decide, from f_n, where the default is such a band)
WIDE = ("1 fn", "1.5 fn", "2 fn", "3 fn", "default")
WIDE_FACTOR = {"1 fn": 1.0, "1.5 fn": 1.5, "2 fn": 2.0, "3 fn": 3.0}
DF2_DEFAULT = 1.0
TOL_MAC, TOL_F, TOL_XI, TOL_SCALE = 0.999, 0.025, 0.15, 1e-6


def admissible(frel, xi, nxseg):
    lines = 2 * xi * frel * nxseg            # half-power bandwidth / line spacing
    periods = frel * nxseg / 2               # periods of the mode in the half record
    return lines >= 4 and periods >= 30


def band_df2(band, fn, bw):
    """(DF2 in Hz as the band reaches, keyword arguments of the call) for a value of the band axis: a number = that many half-power
    bandwidths, a key of WIDE_FACTOR = that many times f_n, "default" = DF2 left to the library."""
    if band == "default":
        return DF2_DEFAULT, {}
    DF2 = WIDE_FACTOR[band] * fn if band in WIDE_FACTOR else band * bw
    return DF2, {"DF2": DF2}


def design(seed, nxseg, frel, xi, nch, fs):
    Nf = nxseg // 2 + 1
    freq = np.arange(Nf) * fs / nxseg
    fn = frel * fs
    w, wn = 2 * np.pi * freq, 2 * np.pi * fn
    S = 1.0 / ((wn**2 - w**2) ** 2 + (2 * xi * wn * w) ** 2)
    phi = payload.entries(seed, f"c07/phi/{nch}", (nch,), 0.2, 1.0, signed=True)
    phi = phi / phi[np.argmax(np.abs(phi))]
    Sy = np.einsum("i,j,k->ijk", phi, phi, S) + 1e-9 * S.max() * np.eye(nch)[:, :, None]
    return freq, fn, phi, Sy.astype(complex)


def judge(t, route, meth, fn, xi, phi, Fn, Xi, Phi, case):
    """Truth-based verdict of one estimate; returns (fn_est, xi_est) or None."""
    t.transitions += 1
    t.validated += 1
    try:
        f_e = float(np.asarray(Fn).ravel()[0])
        x_e = float(np.asarray(Xi).ravel()[0])
        p_e = np.asarray(Phi).reshape(len(phi), -1)[:, 0]
        if np.asarray(Fn).size != 1 or np.asarray(Xi).size != 1:
            raise ValueError("more than one estimate for one selected frequency")
    except Exception as e:
        t.violation(f"malformed-output:{meth}@{route}", f"{e!r}", case)
        return None
    ef, ex, em = abs(f_e - fn) / fn, abs(x_e - xi) / xi, 1 - H.mac(p_e, phi)
    t.err(f"fn rel.err {meth}", ef)
    t.err(f"xi rel.err {meth}", ex)
    t.err(f"1-MAC {meth}", em)
    bad = False
    if not ef <= TOL_F:
        t.violation(f"accuracy:fn:{meth}@{route}", f"fn={f_e:.6g} for true {fn:.6g} ({100 * ef:.2f} % off; xi {100 * ex:.1f} % off)", case)
        bad = True
    if not ex <= TOL_XI:
        t.violation(f"accuracy:xi:{meth}@{route}", f"xi={x_e:.5g} for true {xi:.5g} ({100 * ex:.1f} % off; fn {100 * ef:.2f} % off)", case)
        bad = True
    if not 1 - em >= TOL_MAC:
        t.violation(f"accuracy:shape:{meth}@{route}", f"MAC={1 - em:.6f}", case)
        bad = True
    t.outcomes[f"{meth} {'outside' if bad else 'within'} tolerance ({route})"] += 1
    fs = case.get("fs")
    if fs is not None and fs != round(fs):          # vacuity monitor of the non-integer part of the fs axis (ground truth only)
        t.outcomes[f"{'outside' if bad else 'within'} tolerance at fs = {fs:g} Hz ({meth}, {route})"] += 1
    return f_e, x_e


def _pick(fn, sc):
    """The selected frequency as the user may write it: a list of float, or - when the value is a whole number of Hz - a list,
    tuple or array of int (the form rotates with the level)."""
    if abs(fn - round(fn)) < 1e-9:
        k = int(round(fn))
        form = SCALES.index(sc) % 4 if sc in SCALES else 3
        return [[float(k)], [k], (k,), np.array([k])][form]
    return [fn]


def run_case(t, seed, nxseg, frel, xi, nch, fs, band, meth, scales=SCALES, with_setup=True):
    from pyoma2.functions import fdd

    case = {"seed": seed, "nxseg": nxseg, "frel": frel, "xi": xi, "nch": nch, "fs": fs, "band": band, "method": meth}
    if not admissible(frel, xi, nxseg):
        t.skipped_by_guard += 1
        return
    t.states += 1
    freq, fn, phi, Sy = design(seed, nxseg, frel, xi, nch, fs)
    df = fs / nxseg
    bw = 2 * xi * fn
    DF1 = max(2 * df, 0.1 * bw)
    DF2, kw = band_df2(band, fn, bw)
    wide = band in WIDE
    if wide:
        # premises of the wide part of the band axis, from ground truth only: the lower edge is at or below 0 Hz, the band is at
        # least four bandwidths
        if not (fn - DF2 <= 0 and DF2 >= 4 * bw):
            t.violation("harness:band-not-wide", f"band {band}: DF2={DF2:.6g} Hz for f_n={fn:.6g} Hz, bandwidth {bw:.6g} Hz", case)
            return
        case["DF2_Hz"] = None if not kw else DF2
        case["lower_edge_Hz"] = fn - DF2
    n0 = sum(v[0] for v in t.violations.values())
    ests = {}
    for sc in scales:
        t.evaluations += 1
        try:
            Fn, Xi, Phi, _ = fdd.EFDD_mpe(sc * Sy, freq, 1.0 / fs, _pick(fn, sc), "per", method=meth, DF1=DF1, **kw)
        except Exception as e:
            t.violation(f"raises:{type(e).__name__}:EFDD_mpe:{meth}", f"{e!r} at level {sc:g}", dict(case, scale=sc))
            continue
        r = judge(t, "function", meth, fn, xi, phi, Fn, Xi, Phi, dict(case, scale=sc))
        if r:
            ests[sc] = r
    if len(ests) == len(scales) and len(scales) > 1:
        ref = ests[scales[0]]
        d = max(max(abs(ests[s][0] - ref[0]) / abs(ref[0]), abs(ests[s][1] - ref[1]) / abs(ref[1])) for s in scales[1:])
        t.err("change of (fn, xi) between levels", d)
        t.validated += 1
        if not d <= TOL_SCALE:
            t.violation(f"level-dependent:{meth}", "estimates at levels " + ", ".join(
                f"{s:g}: fn={ests[s][0]:.9g} xi={ests[s][1]:.9g}" for s in scales), case)
        else:
            t.outcomes["level-invariant"] += 1
    if with_setup:
        setup_route(t, seed, nxseg, fs, meth, freq, Sy, fn, xi, phi, DF1, kw, case)
    if wide:                                            # vacuity monitors of the wide part of the band axis (ground truth only)
        ok = sum(v[0] for v in t.violations.values()) == n0
        t.outcomes[f"{meth} {'within' if ok else 'outside'} tolerance on both routes, band {band} (lower edge at or below 0 Hz)"] += 1
        if fn - DF2 < 0:
            t.outcomes[f"{'within' if ok else 'outside'} tolerance, lower edge of the band below 0 Hz ({meth})"] += 1
        if DF2 >= 2 * fn:
            t.outcomes[f"{'within' if ok else 'outside'} tolerance, lower edge of the band at or below -f_n ({meth})"] += 1
        if fn + DF2 > fs / 2:
            t.outcomes[f"{'within' if ok else 'outside'} tolerance, band reaches below 0 Hz and beyond fs/2 ({meth})"] += 1
    t.nontrivial.add((nxseg, frel, xi, nch, fs, band, meth))


def setup_route(t, seed, nxseg, fs, meth, freq, Sy, fn, xi, phi, DF1, kw, case):
    from pyoma2 import algorithms as A
    from pyoma2.functions import fdd
    from pyoma2.setup import SingleSetup

    nch = len(phi)
    alg = getattr(A, meth)(name="a", nxseg=nxseg, method_SD="per")
    ss = SingleSetup(payload.normal(seed, "c07/dummy", (64, nch)), fs)
    ss.add_algorithms(alg)
    orig = fdd.SD_est
    fdd.SD_est = lambda *a, **k: (freq.copy(), Sy.copy())
    t.evaluations += 1
    try:
        try:
            ss.run_by_name("a")
        finally:
            fdd.SD_est = orig
        ss.mpe("a", sel_freq=_pick(fn, 0), DF1=DF1, **kw)
        res = alg.result
        Fn, Xi, Phi = res.Fn, res.Xi, res.Phi
    except Exception as e:
        t.violation(f"raises:{type(e).__name__}:{meth}.run/mpe", f"{e!r}", dict(case, route="setup"))
        return
    judge(t, "setup", meth, fn, xi, phi, Fn, Xi, Phi, dict(case, route="setup"))


# ---- interactive entry point: mpe_from_plot through the real dialog, head-less ------------------------------------------
# The frequency range the dialog is opened with, from ground truth only: (f_n, fs, line spacing df, analysis band DF2) -> freqlim.
# The peak of the bell lies inside every view; "lines hidden below" is what distinguishes the views with lo > 0.
VIEWS = (
    ("default", lambda fn, fs, df, DF2: None),
    ("(0, fs/2) written out", lambda fn, fs, df, DF2: (0.0, fs / 2)),
    ("(0, hi)", lambda fn, fs, df, DF2: (0.0, min(fn + 2 * DF2, fs / 2))),
    ("(half a line, fs/2)", lambda fn, fs, df, DF2: (0.5 * df, fs / 2)),
    ("(fn/4, fs/2)", lambda fn, fs, df, DF2: (0.25 * fn, fs / 2)),
    ("(fn/2, 3fn/2)", lambda fn, fs, df, DF2: (0.5 * fn, min(1.5 * fn, fs / 2))),
    ("bell -+ 1.5 DF2", lambda fn, fs, df, DF2: (fn - 1.5 * DF2, min(fn + 1.5 * DF2, fs / 2))),
)
FS_ALL = (1.0, 100.0) + FS_FRAC
CLICKS = ("at f_n", "at the line of the largest S")
FORMS = ("setup.mpe_from_plot", "algorithm.mpe_from_plot")
_DLG = {"installed": False, "script": None, "obj": None}


def install_dialog():
    """Inert stand-ins for the tkinter widgets of pyoma2.support.sel_from_plot; mainloop() hands control to the script. The canvas
    stand-in is a real FigureCanvasAgg, so the dialog's own mpl_connect registrations receive the events."""
    if _DLG["installed"]:
        return
    from matplotlib.backends.backend_agg import FigureCanvasAgg

    import pyoma2.support.sel_from_plot as sfp

    class FakeTk:
        def __init__(self, *a, **k):
            pass

        def title(self, *a):
            pass

        def config(self, **k):
            pass

        def protocol(self, *a):
            pass

        def mainloop(self):
            _DLG["script"](_DLG["obj"])

        def quit(self):
            pass

        def destroy(self):
            pass

    class FakeMenu:
        def __init__(self, *a, **k):
            pass

        def add_command(self, **k):
            pass

        def add_cascade(self, **k):
            pass

    class W:
        def pack(self, **k):
            pass

    class FakeCanvas(FigureCanvasAgg):
        def __init__(self, fig, root=None, master=None):
            super().__init__(fig)

        def get_tk_widget(self):
            return W()

        def draw_idle(self, *a, **k):
            pass

    sfp.tk.Tk = FakeTk
    sfp.tk.Menu = FakeMenu
    sfp.FigureCanvasTkAgg = FakeCanvas
    sfp.NavigationToolbar2Tk = lambda c, r: None
    orig = sfp.SelFromPlot._initialize_gui

    def wrapped(self):
        orig(self)
        _DLG["obj"] = self

    sfp.SelFromPlot._initialize_gui = wrapped
    _DLG["installed"] = True


def _session(x, y):
    """The user's session: hold SHIFT, left click at data coordinates (x, y), release SHIFT, close the window."""
    from matplotlib.backend_bases import KeyEvent, MouseEvent

    def script(o):
        c = o.fig.canvas
        c.callbacks.process("key_press_event", KeyEvent("key_press_event", c, "shift"))
        e = MouseEvent("button_press_event", c, 0, 0, button=1)
        e.xdata, e.ydata, e.inaxes = x, y, o.ax2
        c.callbacks.process("button_press_event", e)
        c.callbacks.process("key_release_event", KeyEvent("key_release_event", c, "shift"))

    return script


def _limits(fl, as_int):
    """freqlim as the user may write it: a tuple of float, or of int where the limit is a whole number."""
    if fl is None or not as_int:
        return fl
    return tuple(int(round(v)) if abs(v - round(v)) < 1e-9 else float(v) for v in fl)


def plot_case(t, seed, nxseg, frel, xi, nch, fs, band, meth, view, click, form, as_int):
    """One session of the interactive entry point on the designed matrix, judged with the accuracy oracle."""
    from pyoma2 import algorithms as A
    from pyoma2.functions import fdd
    from pyoma2.setup import SingleSetup

    case = {"seed": seed, "nxseg": nxseg, "frel": frel, "xi": xi, "nch": nch, "fs": fs, "band": band, "method": meth,
            "route": "plot", "view": view, "click": click, "form": form, "limits_as_int": as_int}
    if not admissible(frel, xi, nxseg):
        t.skipped_by_guard += 1
        return
    t.states += 1
    install_dialog()
    freq, fn, phi, Sy = design(seed, nxseg, frel, xi, nch, fs)
    df = fs / nxseg
    bw = 2 * xi * fn
    DF1, DF2 = max(2 * df, 0.1 * bw), band * bw
    fl = _limits(dict(VIEWS)[view](fn, fs, df, DF2), as_int)
    # the abscissa of the click, from the designed scalar density only
    w, wn = 2 * np.pi * freq, 2 * np.pi * fn
    S = 1.0 / ((wn**2 - w**2) ** 2 + (2 * xi * wn * w) ** 2)
    x = fn if click == CLICKS[0] else float(freq[int(np.argmax(S))])
    y = -3.0 - 7.0 * ([v for v, _ in VIEWS].index(view) % 3)           # dB, must not matter
    case["freqlim"] = None if fl is None else list(fl)
    case["click_x"] = x
    if fl is not None and not (fl[0] < x < fl[1]):
        t.violation("harness:peak-outside-view", f"view {fl} does not contain the click at {x}", case)
        return
    hidden = 0 if fl is None else int(np.sum(freq < fl[0]))            # lines the view hides below its lower limit (truth)
    alg = getattr(A, meth)(name="a", nxseg=nxseg, method_SD="per")
    ss = SingleSetup(payload.normal(seed, "c07/dummy", (64, nch)), fs)
    ss.add_algorithms(alg)
    orig = fdd.SD_est
    fdd.SD_est = lambda *a, **k: (freq.copy(), Sy.copy())
    _DLG["script"], _DLG["obj"] = _session(x, y), None
    t.evaluations += 1
    try:
        try:
            ss.run_by_name("a")
        finally:
            fdd.SD_est = orig
        if form == FORMS[0]:
            ss.mpe_from_plot("a", DF1=DF1, DF2=DF2, freqlim=fl)
        else:
            alg.mpe_from_plot(DF1=DF1, DF2=DF2, freqlim=fl)
        res = alg.result
        Fn, Xi, Phi = res.Fn, res.Xi, res.Phi
    except Exception as e:
        t.violation(f"raises:{type(e).__name__}:{meth}.run/mpe_from_plot", f"{e!r} with freqlim={fl}, click at {x:.6g}", case)
        return
    finally:
        o = _DLG["obj"]
        if o is not None:
            try:
                o.fig.clear()
            except Exception:
                pass
        _DLG["obj"] = None
    n0 = sum(v[0] for v in t.violations.values())
    r = judge(t, "plot", meth, fn, xi, phi, Fn, Xi, Phi, case)
    ok = r is not None and sum(v[0] for v in t.violations.values()) == n0
    t.outcomes[f"{meth} {'within' if ok else 'outside'} tolerance, dialog opened with {view}"] += 1
    if hidden:
        t.outcomes[f"{'within' if ok else 'outside'} tolerance, click on a view that hides lines below it ({meth})"] += 1
        if hidden >= 10:
            t.outcomes[f"{'within' if ok else 'outside'} tolerance, view hides >= 10 lines below it ({meth})"] += 1
    t.outcomes[f"{'within' if ok else 'outside'} tolerance, {form}, click {click}"] += 1
    t.nontrivial.add(("plot", nxseg, frel, xi, view, meth))


def plot_points(nxseg, frel, xi, thorough):
    """The covering sub-lattice of the interactive route at one (nxseg, f_n/fs, xi): every view x both methods; sampling rate,
    channels, band, click abscissa, call form and int/float limits rotate with the lattice coordinates only. The thorough tier
    takes both bands; the quick tier takes, for the three views whose lower limit is 0 (index k < 3), one method per point, rotating."""
    i = NXSEG.index(nxseg), FREL.index(frel), XI.index(xi)
    out = []
    for k, (view, _) in enumerate(VIEWS):
        for m, meth in enumerate(METHODS):
            if not thorough and k < 3 and m != (i[1] + i[2] + k) % 2:
                continue
            fs = FS_ALL[(i[1] + 3 * i[2] + k + 4 * m) % len(FS_ALL)]
            nch = NCH[(i[1] + i[2] + k) % len(NCH)]
            bands = BANDS if thorough else (BANDS[(sum(i) + k + m) % len(BANDS)],)
            click = CLICKS[(i[1] + k) % 2]
            form = FORMS[(i[2] + k + m) % 2]
            as_int = bool((i[0] + i[1] + k) % 2)
            out += [(nch, fs, band, meth, view, click, form, as_int) for band in bands]
    return out


def frac_points(nxseg, frel, xi, thorough):
    """The covering sub-lattice of the non-integer sampling rates at one (nxseg, f_n/fs, xi): (fs, channels, band) triples.
    Channels and band rotate with the lattice coordinates only (no payload, no hash order); the thorough tier takes both bands."""
    i = NXSEG.index(nxseg), FREL.index(frel), XI.index(xi)
    out = []
    for k, fs in enumerate(FS_FRAC):
        nch = NCH[(i[1] + i[2] + k) % len(NCH)]
        bands = BANDS if thorough else (BANDS[(sum(i) + k) % len(BANDS)],)
        out += [(fs, nch, band) for band in bands]
    return out


def wide_points(nxseg, frel, xi):
    """The covering sub-lattice of the bands wider than the distance to 0 Hz at one (nxseg, f_n/fs, xi): every band of WIDE with a
    sampling rate and a channel count that rotate with the lattice coordinates only; for the library default the rate is taken among
    those where DF2_DEFAULT > f_n (ground truth)."""
    i = NXSEG.index(nxseg), FREL.index(frel), XI.index(xi)
    out = []
    for k, band in enumerate(WIDE):
        pool = FS_ALL if band != "default" else tuple(fs for fs in FS_ALL if DF2_DEFAULT > frel * fs)
        fs = pool[(i[0] + 2 * i[1] + 3 * i[2] + 3 * k) % len(pool)]
        nch = NCH[(i[1] + i[2] + k) % len(NCH)]
        out.append((fs, nch, band))
    return out


def item(it):
    seed, nxseg, frel, xi, fss, nchs = it[:6]
    t = Tally()
    if len(it) > 7 and it[7] == "wide":              # bands wider than the distance to 0 Hz (same in both tiers)
        for fs, nch, band in wide_points(nxseg, frel, xi):
            for meth in METHODS:
                run_case(t, seed, nxseg, frel, xi, nch, fs, band, meth, scales=SCALES[:1])
        return t
    if len(it) > 7:                                  # interactive route: it[6] = thorough flag, it[7] = "dialog"
        for p in plot_points(nxseg, frel, xi, it[6]):
            plot_case(t, seed, nxseg, frel, xi, *p)
        return t
    if len(it) > 6:                                  # non-integer sampling rates: it[6] = thorough flag
        for fs, nch, band in frac_points(nxseg, frel, xi, it[6]):
            for meth in METHODS:
                run_case(t, seed, nxseg, frel, xi, nch, fs, band, meth, scales=SCALES[:1])
        return t
    for nch in nchs:
        for fs in fss:
            for band in BANDS:
                for meth in METHODS:
                    run_case(t, seed, nxseg, frel, xi, nch, fs, band, meth)
    if admissible(frel, xi, nxseg) and xi == XI[0]:
        freq, fn, phi, Sy = design(seed, nxseg, frel, xi, nchs[0], fss[0])
        t.sample({"nxseg": nxseg, "fn/fs": frel, "xi": xi, "channels": nchs[0], "fs": fss[0], "phi": np.round(phi, 4),
                  "bandwidth_lines": round(2 * xi * frel * nxseg, 2), "periods_in_half_record": frel * nxseg / 2})
    return t


def explore(ctx):
    nxs = NXSEG if ctx.thorough else NXSEG[:2]
    fss = (1.0, 100.0, 12.8) if ctx.thorough else (1.0, 100.0)
    ctx.bounds.update({"nxseg": list(nxs), "fn/fs": list(FREL), "xi": list(XI), "channels": list(NCH), "fs": list(fss),
                       "fs, not a whole number of Hz": list(FS_FRAC),
                       "sub-lattice of the non-integer fs": "every (nxseg, fn/fs, xi) x fs x method x both routes, level 1; channels = "
                       "NCH[(i_f + i_xi + k) mod 3], band = " + ("both" if ctx.thorough else "BANDS[(i_nxseg + i_f + i_xi + k) mod 2]")
                       + " with i_* the indices on the axes and k the index of fs",
                       "DF2 (bandwidths)": list(BANDS),
                       "DF2 wider than the distance to 0 Hz": list(WIDE) + [f"default = DF2 not passed ({DF2_DEFAULT:g} Hz), at rates with f_n < {DF2_DEFAULT:g} Hz"],
                       "sub-lattice of the wide bands": "every (nxseg, fn/fs, xi) x band of WIDE x method x both routes, level 1; fs = POOL[(i_nxseg + "
                       "2 i_f + 3 i_xi + 3 k) mod len(POOL)] with POOL = " + str(list(FS_ALL)) + " (for the default band: the rates with fn/fs x fs < "
                       f"{DF2_DEFAULT:g} Hz), channels = NCH[(i_f + i_xi + k) mod 3]; k the index of the band",
                       "method": list(METHODS), "level (factor on Sy)": list(SCALES),
                       "routes": ["fdd.EFDD_mpe", "EFDD/FSDD class in SingleSetup (level 1)",
                                  "EFDD/FSDD.mpe_from_plot through the real dialog, head-less (level 1)"],
                       "dialog opened with freqlim (views)": [v for v, _ in VIEWS],
                       "views, written out": "None; (0, fs/2); (0, min(fn + 2 DF2, fs/2)); (df/2, fs/2); (fn/4, fs/2); (fn/2, min(3fn/2, fs/2)); "
                       "(fn - 1.5 DF2, min(fn + 1.5 DF2, fs/2))",
                       "click (SHIFT + left button)": list(CLICKS), "call forms of the interactive route": list(FORMS),
                       "sub-lattice of the interactive route": "every (nxseg, fn/fs, xi) x view x method" + ("" if ctx.thorough else " (the three views with lower "
                       "limit 0: method METHODS[(i_f + i_xi + k) mod 2] only)") + ", level 1; fs = FS_ALL[(i_f + 3 i_xi + k + 4 m) "
                       "mod 8] over " + str(list(FS_ALL)) + ", channels = NCH[(i_f + i_xi + k) mod 3], band = "
                       + ("both" if ctx.thorough else "BANDS[(i_nxseg + i_f + i_xi + k + m) mod 2]") + ", click = CLICKS[(i_f + k) mod 2], "
                       "call form = FORMS[(i_xi + k + m) mod 2], limits as int where whole iff (i_nxseg + i_f + k) odd; k, m the indices of view and method",
                       "admissible": "2 xi f_n nxseg/fs >= 4 and f_n nxseg/(2 fs) >= 30"})
    items = []
    # longest segments first (they cost most), one (nxseg, f, xi, channels) slice per item
    for nxseg in sorted(nxs, reverse=True):
        for frel in FREL:
            for xi in XI:
                if nxseg >= 4096:
                    items += [(ctx.seed, nxseg, frel, xi, (fs,), (nch,)) for nch in NCH for fs in fss]
                else:
                    items += [(ctx.seed, nxseg, frel, xi, fss, (nch,)) for nch in NCH]
                items.append((ctx.seed, nxseg, frel, xi, FS_FRAC, None, bool(ctx.thorough)))
                items.append((ctx.seed, nxseg, frel, xi, None, None, bool(ctx.thorough), "dialog"))
                items.append((ctx.seed, nxseg, frel, xi, None, None, bool(ctx.thorough), "wide"))
    ctx.guard_share_limit = 0.5
    ctx.pmap(item, items, chunksize=1)
    ctx.require("EFDD within tolerance (function)", "FSDD within tolerance (function)", "EFDD within tolerance (setup)",
                "FSDD within tolerance (setup)", "level-invariant")
    ctx.require(*[f"within tolerance at fs = {fs:g} Hz ({meth}, {route})"
                  for fs in FS_FRAC for meth in METHODS for route in ("function", "setup")])
    # bands wider than the distance to 0 Hz: every such band with both methods; lower edge strictly below 0, at or below -f_n, and
    # bands that also reach beyond fs/2
    ctx.require(*[f"{meth} within tolerance on both routes, band {band} (lower edge at or below 0 Hz)" for band in WIDE for meth in METHODS])
    ctx.require(*[f"within tolerance, {what} ({meth})" for meth in METHODS for what in (
        "lower edge of the band below 0 Hz", "lower edge of the band at or below -f_n", "band reaches below 0 Hz and beyond fs/2")])
    # the interactive route: every view with both methods, views that hide lines below the click, both call forms and clicks
    ctx.require(*[f"{meth} within tolerance, dialog opened with {view}" for view, _ in VIEWS for meth in METHODS])
    ctx.require(*[f"within tolerance, click on a view that hides lines below it ({meth})" for meth in METHODS])
    ctx.require(*[f"within tolerance, view hides >= 10 lines below it ({meth})" for meth in METHODS])
    ctx.require(*[f"within tolerance, {form}, click {click}" for form in FORMS for click in CLICKS])


def replay(case):
    t = Tally()
    if case.get("route") == "plot":
        plot_case(t, case["seed"], case["nxseg"], case["frel"], case["xi"], case["nch"], case["fs"], case["band"], case["method"],
                  case["view"], case["click"], case["form"], case["limits_as_int"])
        return t
    scales = SCALES if "scale" not in case else (case["scale"],)
    run_case(t, case["seed"], case["nxseg"], case["frel"], case["xi"], case["nch"], case["fs"], case["band"], case["method"],
             scales=scales, with_setup=("scale" not in case))
    return t
