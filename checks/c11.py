"""C11 - modal parameter extraction returns the requested pole, whole, and only if it is close.

Bounded-exhaustive enumeration of pole tables whose cells carry unique damping / shape / covariance tags
(any mixture of two poles is visible), over explicit orders (int, per-mode list) and order='find_min',
through ssi.SSI_mpe, plscf.pLSCF_mpe and the mpe methods of SSIcov and pLSCF on result objects assigned
directly.  The oracle is a small extractor written from the property statement.
"""
import numpy as np

from mc import payload
from mc.core import Tally

ID = "C11"
TECHNIQUE = ("bounded-exhaustive enumeration of tagged pole tables x requested frequencies x orders (int, per-mode list, "
             "'find_min') x rtol x with/without covariance tables, every call compared with a reference extractor written "
             "from the statement; routes ssi.SSI_mpe, plscf.pLSCF_mpe, SSIcov.mpe, pLSCF.mpe")
LEVEL_TEXT = ("small-scope exhaustive: every table of the stated shapes over the stated cell catalogue is extracted from on "
              "every route and the whole returned record is judged; nothing is sampled")
RULE = ("a case is one pole table, executed over its whole grid of (requested frequencies, order, rtol, route, covariance); "
        "non-trivial = explicit order: for some request a column that is read holds two or more retained poles and the "
        "nearest one is outside the tolerance, or is not the first retained row, or has an equidistant twin; find_min: the "
        "lowest qualifying column is not column 0, or a column has a retained pole within tolerance of every requested "
        "frequency and still does not qualify (an unstable or a second stable pole decides); distinct by (space, table index)")
ASSUMPTIONS = [
    "the reference extractor (nearest retained pole per requested frequency, |fn-f| <= rtol*f; lowest column with exactly "
    "one stable pole per requested frequency) is about 40 lines written from the statement",
    "equidistant poles: either may be returned, but whole; distances within 1e-9 (relative) of the tolerance are not judged",
    "mode shapes of the returned record may be stored as columns or as rows",
    "find_min tables for pLSCF_mpe use poles that are inside both its absolute band (deltaf = 0.05 Hz) and the relative "
    "tolerance, or outside both, so that 'within tolerance' has one meaning",
    "pLSCF_mpe(order='find_min') not finding an existing qualifying column is a listed known finding (pinned by "
    "test_pLSCF_mpe[find_min-1]); its cases without a qualifying column are judged normally",
    "tables with a column without retained poles are outside the quantifier and are skipped",
]

NCH = 3
RTOLS = [0.02, 0.05]
F1, F2 = 10.0, 20.0
REQS = [(F1, F2), (F1,), (F2,)]
# explicit-order cell catalogue
# 10.51 and 10.202 sit just OUTSIDE the relative band of 10.0 (5.1 % for rtol 0.05, 2.02 % for rtol 0.02) on the upper side, where a
# tolerance taken relative to the larger of the two values instead of the requested frequency would still accept them
ESYMS = ["10.0", "10.3", "11.0", "20.0", "19.2", "15.0", "nan", "twin", "10.51", "10.202"]
EVAL = [10.0, 10.3, 11.0, 20.0, 19.2, 15.0, None, "twin", 10.51, 10.202]
E_NAN, E_TWIN = 6, 7
EL_SUB_Q = [0, 3, 1, 6]          # 10.0, 20.0, 10.3, nan
EL_SUB_T = [0, 3, 1, 4, 6]       # + 19.2
# find_min cell catalogue
FSYMS = ["nan", "f1-stable", "f1-unstable", "f2-stable", "spurious-stable"]
ROUTES = ("SSI_mpe", "SSI_mpe+cov", "SSIcov.mpe", "SSIcov.mpe+cov", "pLSCF_mpe", "pLSCF.mpe")
KNOWN_KEY = "find_min:pLSCF_mpe:qualifying-column-not-found"

_TAGS = {}


def tags(seed):
    if seed not in _TAGS:
        phi = payload.cplx(seed, "c11/phi", (4, 4, NCH))
        pcov = np.abs(payload.entries(seed, "c11/phicov", (4, 4, NCH))) * 1e-3
        _TAGS[seed] = (phi, pcov)
    return _TAGS[seed]


def digits(idx, base, n):
    out = []
    for _ in range(n):
        out.append(idx % base)
        idx //= base
    return out[::-1]


# ---- tables -----------------------------------------------------------------------------------------
def empty(R, C):
    return {"Fn": np.full((R, C), np.nan), "Xi": np.full((R, C), np.nan), "Phi": np.full((R, C, NCH), np.nan, complex),
            "Fc": np.full((R, C), np.nan), "Xc": np.full((R, C), np.nan), "Pc": np.full((R, C, NCH), np.nan),
            "Lab": np.zeros((R, C), int)}


def put(T, seed, r, c, fn, conj_of=None):
    phi, pcov = tags(seed)
    C = T["Fn"].shape[1]
    k = r * C + c
    T["Fn"][r, c] = fn
    T["Xi"][r, c] = 0.01 + 0.001 * k
    T["Phi"][r, c] = phi[r, c]
    if conj_of is not None:
        T["Fn"][r, c] = T["Fn"][conj_of, c]
        T["Xi"][r, c] = T["Xi"][conj_of, c]
        T["Phi"][r, c] = np.conj(T["Phi"][conj_of, c])
    T["Fc"][r, c] = 1e-4 * (1 + k)
    T["Xc"][r, c] = 1e-6 * (1 + k)
    T["Pc"][r, c] = pcov[r, c]


def fill_column(T, seed, c, syms):
    for r, s in enumerate(syms):
        v = EVAL[s]
        if v is None:
            continue
        if v == "twin":
            above = [q for q in range(r) if not np.isnan(T["Fn"][q, c])]
            if above:
                put(T, seed, r, c, None, conj_of=above[-1])
            else:
                put(T, seed, r, c, 10.0)
        else:
            put(T, seed, r, c, v)


def el_columns(sub):
    """Non-empty 2-cell columns over the sub-catalogue."""
    return [(a, b) for a in sub for b in sub if not (a == E_NAN and b == E_NAN)]


def space_size(sp):
    kind = sp[0]
    if kind == "EI":           # ("EI", R): every R-cell column over the catalogue, at each of the 3 column positions
        return len(ESYMS) ** sp[1] * 3
    if kind == "EL":           # ("EL", sub): every 2-row x 3-column table with non-empty columns over the sub-catalogue
        return len(el_columns(sp[1])) ** 3
    if kind == "FM":           # ("FM", R, full_grid): every R-row x 3-column table over the find_min catalogue
        return len(FSYMS) ** (sp[1] * 3)
    raise ValueError(sp)


def build(sp, idx, seed, family="ssi"):
    """(table dict, symbol listing) or (None, listing) when a column has no retained pole."""
    kind = sp[0]
    if kind == "EI":
        R = sp[1]
        pos = idx % 3
        col = digits(idx // 3, len(ESYMS), R)
        T = empty(R, 3)
        for c in range(3):
            if c == pos:
                fill_column(T, seed, c, col)
            else:
                fill_column(T, seed, c, [0, 3] + [E_NAN] * (R - 2))     # filler: exact 10.0 and 20.0 with other tags
        names = [ESYMS[s] for s in col]
        if all(s == E_NAN for s in col):
            return None, names
        T["Lab"][:] = 1
        return T, {"column": names, "position": pos}
    if kind == "EL":
        cols = el_columns(sp[1])
        d = digits(idx, len(cols), 3)
        T = empty(2, 3)
        for c in range(3):
            fill_column(T, seed, c, list(cols[d[c]]))
        T["Lab"][:] = 1
        return T, {"columns": [[ESYMS[s] for s in cols[x]] for x in d]}
    if kind == "FM":
        R = sp[1]
        d = np.array(digits(idx, len(FSYMS), R * 3)).reshape(R, 3)
        names = [[FSYMS[x] for x in row] for row in d.tolist()]
        if (d == 0).all(axis=0).any():
            return None, names
        T = empty(R, 3)
        for r in range(R):
            for c in range(3):
                s = d[r, c]
                if s == 0:
                    continue
                if family == "ssi":
                    v = {1: F1 + 0.03 * (r + 1) + 0.004 * c, 2: F1 + 0.03 * (r + 1) + 0.004 * c,
                         3: F2 + 0.06 * (r + 1) + 0.004 * c, 4: 15.0 + 0.1 * r + 0.01 * c}[s]
                else:
                    v = {1: F1 + 0.01 * (r + 1) + 0.001 * c, 2: F1 + 0.01 * (r + 1) + 0.001 * c,
                         3: F2 + 0.01 * (r + 1) + 0.001 * c, 4: 15.0 + 0.1 * r + 0.01 * c}[s]
                put(T, seed, r, c, v)
                T["Lab"][r, c] = 0 if s == 2 else 1
        return T, names
    raise ValueError(sp)


def grid(sp):
    """[(request index, order, rtol index)] executed for every table of the space (on every route of routes_for)."""
    kind = sp[0]
    out = []
    if kind == "EI":
        for q in range(len(REQS)):
            for ri in range(len(RTOLS)):
                out.append((q, "pos", ri))
    elif kind == "EL":
        for ri in range(len(RTOLS)):
            for c1 in range(3):
                for c2 in range(3):
                    out.append((0, [c1, c2], ri))
                out.append((1, [c1], ri))
                out.append((2, [c1], ri))
    else:
        reqs = range(len(REQS)) if sp[2] else [0]
        for q in reqs:
            for ri in range(len(RTOLS)):
                out.append((q, "find_min", ri))
    return out


def routes_for(sp):
    if sp[0] == "FM" and not sp[2]:
        return ("SSI_mpe+cov", "pLSCF_mpe")
    return ROUTES


# ---- reference extractor (from the statement) -------------------------------------------------------
def ref_explicit(T, freqs, cols, rtol):
    """Per requested frequency: list of admissible cells [(r, c)] (empty = nothing may be returned); None if undecidable.
    Also the non-trivial flag."""
    Fn = T["Fn"]
    out = []
    nontrivial = False
    for f, c in zip(freqs, cols):
        rows = [r for r in range(Fn.shape[0]) if not np.isnan(Fn[r, c])]
        d = [abs(Fn[r, c] - f) for r in rows]
        dmin = min(d)
        cands = [r for r, dd in zip(rows, d) if dd <= dmin + 1e-12 * f]
        if abs(dmin - rtol * f) <= 1e-9 * f:
            return None, False
        inside = dmin <= rtol * f
        out.append([(r, c) for r in cands] if inside else [])
        if len(rows) >= 2 and (not inside or len(cands) > 1 or cands[0] != rows[0]):
            nontrivial = True
    return out, nontrivial


def ref_find_min(T, freqs, rtol):
    """(c* or None, admissible cells per frequency, non-trivial flag); None if undecidable."""
    Fn, Lab = T["Fn"], T["Lab"]
    R, C = Fn.shape
    cstar, cells = None, None
    nontrivial = False
    for c in range(C):
        per_f = []
        near_any = True
        for f in freqs:
            within = []
            near = False
            for r in range(R):
                if np.isnan(Fn[r, c]):
                    continue
                d = abs(Fn[r, c] - f)
                if abs(d - rtol * f) <= 1e-9 * f:
                    return None
                if d <= rtol * f:
                    near = True
                    if Lab[r, c] == 1:
                        within.append((r, c))
            per_f.append(within)
            near_any = near_any and near
        ok = all(len(w) == 1 for w in per_f)
        if ok and cstar is None:
            cstar, cells = c, per_f
            if c > 0:
                nontrivial = True
        if near_any and not ok and cstar is None:
            nontrivial = True
    return cstar, cells, nontrivial


# ---- implementation side ----------------------------------------------------------------------------
class Out:
    pass


def _mpe_form(alg, freqs, order, rtol):
    """The documented signature is mpe(sel_freq, order, rtol): keyword and positional calls mean the same. The form rotates with
    the tolerance (0.02 -> positional, 0.05 = the default value -> keywords), so every table meets both."""
    if int(round(rtol * 100)) % 2 == 0:
        alg.mpe(freqs, order, rtol)
    else:
        alg.mpe(sel_freq=freqs, order=order, rtol=rtol)


def call(route, T, freqs, order, rtol):
    """Execute one extraction; returns an Out record (or raises what the library raises)."""
    cov = route.endswith("+cov")
    base = route.split("+")[0]
    freqs = list(freqs)
    order = list(order) if isinstance(order, list) else order
    a = {k: v.copy() for k, v in T.items()}
    o = Out()
    o.cov = cov
    if base == "SSI_mpe":
        from pyoma2.functions import ssi

        kw = dict(Fn_cov=a["Fc"], Xi_cov=a["Xc"], Phi_cov=a["Pc"]) if cov else {}
        r = ssi.SSI_mpe(freqs, a["Fn"], a["Xi"], a["Phi"], order, Lab=a["Lab"], rtol=rtol, **kw)
        o.Fn, o.Xi, o.Phi, o.order_out, o.Fc, o.Xc, o.Pc = r
    elif base == "pLSCF_mpe":
        from pyoma2.functions import plscf

        r = plscf.pLSCF_mpe(freqs, a["Fn"], a["Xi"], a["Phi"], order, Lab=a["Lab"], rtol=rtol)
        o.Fn, o.Xi, o.Phi, o.order_out = r
        o.Fc = o.Xc = o.Pc = None
    elif base == "SSIcov.mpe":
        from pyoma2.algorithms.data.result import SSIResult
        from pyoma2.algorithms.ssi import SSIcov

        alg = SSIcov(name="c11", br=2)
        kw = dict(Fn_poles_cov=a["Fc"], Xi_poles_cov=a["Xc"], Phi_poles_cov=a["Pc"]) if cov else {}
        alg.result = SSIResult(Fn_poles=a["Fn"], Xi_poles=a["Xi"], Phi_poles=a["Phi"], Lab=a["Lab"], **kw)
        _mpe_form(alg, freqs, order, rtol)
        res = alg.result
        o.Fn, o.Xi, o.Phi, o.order_out, o.Fc, o.Xc, o.Pc = res.Fn, res.Xi, res.Phi, res.order_out, res.Fn_cov, res.Xi_cov, res.Phi_cov
    elif base == "pLSCF.mpe":
        from pyoma2.algorithms.data.result import pLSCFResult
        from pyoma2.algorithms.plscf import pLSCF

        alg = pLSCF(name="c11", ordmax=3)
        alg.result = pLSCFResult(Fn_poles=a["Fn"], Xi_poles=a["Xi"], Phi_poles=a["Phi"], Lab=a["Lab"])
        _mpe_form(alg, freqs, order, rtol)
        res = alg.result
        o.Fn, o.Xi, o.Phi, o.order_out = res.Fn, res.Xi, res.Phi, res.order_out
        o.Fc = o.Xc = o.Pc = None
    else:
        raise ValueError(route)
    return o


def modes_of(o):
    """Returned record as a list of per-mode dicts, or a string describing why it cannot be read."""
    Fn = np.asarray(o.Fn, float).ravel()
    n = Fn.size
    Xi = np.asarray(o.Xi, float).ravel()
    if Xi.size != n:
        return f"{n} frequencies but {Xi.size} damping ratios"

    def shapes(P, what):
        P = np.asarray(P)
        if n == 0:
            return [] if P.size == 0 else f"no frequency but {what} of shape {P.shape}"
        if P.shape == (NCH, n):
            return [P[:, i] for i in range(n)]
        if P.shape == (n, NCH):
            return [P[i, :] for i in range(n)]
        return f"{n} frequencies but {what} of shape {P.shape}"

    ph = shapes(o.Phi, "mode shapes")
    if isinstance(ph, str):
        return ph
    modes = [{"Fn": Fn[i], "Xi": Xi[i], "Phi": ph[i]} for i in range(n)]
    if o.cov:
        if o.Fc is None or o.Xc is None or o.Pc is None:
            return "covariance tables were supplied but no covariances are returned"
        Fc = np.asarray(o.Fc, float).ravel()
        Xc = np.asarray(o.Xc, float).ravel()
        if Fc.size != n or Xc.size != n:
            return f"{n} frequencies but {Fc.size}/{Xc.size} covariances"
        pc = shapes(o.Pc, "shape covariances")
        if isinstance(pc, str):
            return pc
        for i in range(n):
            modes[i].update(Fc=Fc[i], Xc=Xc[i], Pc=pc[i])
    return modes


def is_cell(m, T, r, c, cov):
    ok = m["Fn"] == T["Fn"][r, c] and m["Xi"] == T["Xi"][r, c] and np.array_equal(m["Phi"], T["Phi"][r, c])
    if ok and cov:
        ok = m["Fc"] == T["Fc"][r, c] and m["Xc"] == T["Xc"][r, c] and np.array_equal(m["Pc"], T["Pc"][r, c])
    return bool(ok)


def whole_cell(m, T, cov):
    R, C = T["Fn"].shape
    for r in range(R):
        for c in range(C):
            if not np.isnan(T["Fn"][r, c]) and is_cell(m, T, r, c, cov):
                return (r, c)
    return None


def brief(modes):
    return [(round(float(m["Fn"]), 4), round(float(m["Xi"]), 5)) for m in modes]


def judge_modes(t, pre, route, modes, expected, T, cov, case, ctx_txt):
    """modes: returned; expected: list (one per mode that must be returned) of admissible cells."""
    if len(modes) > len(expected):
        t.violation(f"{pre}:{route}:returned-pole-outside-tolerance",
                    f"{route} {ctx_txt}: {len(modes)} mode(s) returned {brief(modes)} but only {len(expected)} requested "
                    f"frequency(ies) have a retained pole of that order within the tolerance", case)
        return False
    if len(modes) < len(expected):
        t.violation(f"{pre}:{route}:pole-within-tolerance-not-returned",
                    f"{route} {ctx_txt}: {len(modes)} mode(s) returned {brief(modes)} although {len(expected)} requested "
                    f"frequency(ies) have a retained pole within the tolerance (cells {expected})", case)
        return False
    good = True
    for m, cells in zip(modes, expected):
        if any(is_cell(m, T, r, c, cov) for r, c in cells):
            continue
        good = False
        w = whole_cell(m, T, cov)
        if w is None:
            t.violation(f"{pre}:{route}:mixture-of-different-poles",
                        f"{route} {ctx_txt}: returned mode fn={m['Fn']} xi={m['Xi']} is not one pole of the table "
                        f"(frequency, damping, shape{', covariances' if cov else ''} come from different cells); admissible cells {cells}", case)
        else:
            t.violation(f"{pre}:{route}:not-the-admissible-pole",
                        f"{route} {ctx_txt}: returned the pole of cell {w} (fn={m['Fn']}), admissible cells {cells}", case)
    return good


def one_call(t, sp, idx, seed, route, q, order, ri, Tcache, count=True):
    """Execute and judge one extraction. Returns the non-trivial flag."""
    family = "plscf" if route.startswith("pLSCF") else "ssi"
    if family not in Tcache:
        Tcache[family] = build(sp, idx, seed, family if sp[0] == "FM" else "ssi")
    T, listing = Tcache[family]
    freqs = REQS[q]
    rtol = RTOLS[ri]
    if order == "pos":
        order = int(listing["position"])
    kind = "find_min" if order == "find_min" else "explicit-int" if isinstance(order, int) else "explicit-list"
    case = {"space": list(sp), "index": int(idx), "seed": seed, "route": route, "request": q, "order": order, "rtol": ri,
            "table": listing, "requested": list(freqs)}
    cov = route.endswith("+cov")
    full_route, route = route, route.split("+")[0]      # violation classes do not distinguish with / without covariances
    ctx_txt = f"f={list(freqs)} order={order!r} rtol={rtol}{' with covariance tables' if cov else ''}"
    # ---- reference
    if kind == "find_min":
        ref = ref_find_min(T, freqs, rtol)
        if ref is None:
            t.not_judged += 1
            return False
        cstar, cells, nontrivial = ref
    else:
        cols = [order] * len(freqs) if isinstance(order, int) else list(order)
        cells, nontrivial = ref_explicit(T, freqs, cols, rtol)
        if cells is None:
            t.not_judged += 1
            return False
    # ---- implementation
    t.evaluations += 1
    t.transitions += 1
    try:
        o = call(full_route, T, freqs, order, rtol)
    except Exception as e:
        t.violation(f"{kind}:{route}:raises:{type(e).__name__}", f"{route} {ctx_txt} raised {type(e).__name__}: {e}", case)
        return nontrivial
    t.validated += 1
    modes = modes_of(o)
    if isinstance(modes, str):
        t.violation(f"{kind}:{route}:unreadable-record", f"{route} {ctx_txt}: {modes}", case)
        return nontrivial
    if kind == "find_min":
        if cstar is None:
            if modes:
                t.violation(f"{kind}:{route}:modes-returned-although-no-order-qualifies",
                            f"{route} {ctx_txt}: returned {brief(modes)} (order_out={o.order_out!r}) although no column has exactly one "
                            f"stable pole within tolerance of every requested frequency", case)
            elif count:
                t.outcomes[f"{full_route}:find_min:nothing-qualifies-nothing-returned"] += 1
            return nontrivial
        if not modes:
            key = KNOWN_KEY if family == "plscf" else f"{kind}:{route}:qualifying-column-not-found"
            t.violation(key, f"{full_route} {ctx_txt}: nothing returned (order_out={o.order_out!r}) although column {cstar} has exactly one stable "
                             f"pole within tolerance of every requested frequency (cells {cells})", case)
            if count:
                t.outcomes[f"{full_route}:find_min:qualifying-column-exists"] += 1
            return nontrivial
        try:
            oo = int(o.order_out)
        except Exception:
            oo = None
        if oo != cstar:
            t.violation(f"{kind}:{route}:not-the-lowest-qualifying-order",
                        f"{route} {ctx_txt}: order_out={o.order_out!r}, lowest qualifying column is {cstar}; returned {brief(modes)}", case)
            return nontrivial
        if judge_modes(t, kind, route, modes, cells, T, cov, case, ctx_txt) and count:
            t.outcomes[f"{full_route}:find_min:found@column{cstar}"] += 1
            t.outcomes[f"{full_route}:find_min:qualifying-column-exists"] += 1
        return nontrivial
    # explicit order
    expected = [c for c in cells if c]
    good = judge_modes(t, kind, route, modes, expected, T, cov, case, ctx_txt)
    want = np.asarray(order, float)
    try:
        got = np.asarray(o.order_out, float)
        same = got.shape == want.shape and np.array_equal(got, want)
    except Exception:
        same = False
    if not same:
        good = False
        t.violation(f"{kind}:{route}:order_out-differs-from-request", f"{route} {ctx_txt}: order_out={o.order_out!r}", case)
    if good and count:
        nf = len(expected)
        t.outcomes[f"{full_route}:{kind}:" + ("all-found" if nf == len(freqs) else "none-found" if nf == 0 else "some-found")] += 1
        if any(len(c) > 1 for c in cells):
            t.outcomes[f"{full_route}:{kind}:equidistant-either"] += 1
    return nontrivial


SPACE_CODES = {}


def space_code(sp):
    key = repr(sp)
    if key not in SPACE_CODES:
        SPACE_CODES[key] = len(SPACE_CODES)
    return SPACE_CODES[key]


def work(item):
    sp, code, lo, hi, seed = item
    t = Tally()
    g = grid(sp)
    routes = routes_for(sp)
    for idx in range(lo, hi):
        cache = {}
        T, listing = build(sp, idx, seed, "ssi")
        t.states += 1
        if T is None:
            t.skipped_by_guard += 1
            continue
        cache["ssi"] = (T, listing)
        if sp[0] != "FM":
            cache["plscf"] = cache["ssi"]
        nt = False
        for route in routes:
            for q, order, ri in g:
                nt = one_call(t, sp, idx, seed, route, q, order, ri, cache) or nt
        if nt:
            t.nontrivial.add(code * 10**7 + idx)
        if idx == lo and lo % 4000 < (hi - lo):
            t.sample({"space": list(sp), "index": idx, "table": listing, "Fn": T["Fn"], "Lab": T["Lab"],
                      "grid_elements_per_route": len(g), "routes": list(routes)})
    return t


def plan(tier):
    if tier == "quick":
        return [(("EI", 3), 96), (("EL", EL_SUB_Q), 75), (("FM", 2, True), 125)]
    return [(("EI", 3), 96), (("EI", 4), 256), (("EL", EL_SUB_T), 128), (("FM", 2, True), 125), (("FM", 3, False), 3125)]


def describe(sp):
    if sp[0] == "EI":
        return (f"EI: every {sp[1]}-cell column over {ESYMS} placed at column 0, 1 and 2 of a 3-column table (other columns: exact "
                f"10.0 and 20.0 with other tags); int order = that column; requests {REQS}; rtol {RTOLS}")
    if sp[0] == "EL":
        return (f"EL: every 2-row x 3-column table with non-empty columns over {[ESYMS[s] for s in sp[1]]}; every per-mode order list "
                f"over the 3 columns for (10, 20) and for the singletons; rtol {RTOLS}")
    return (f"FM: every {sp[1]}-row x 3-column table over {FSYMS} without an empty column, order='find_min', "
            f"requests {REQS if sp[2] else REQS[:1]}, rtol {RTOLS}, routes {list(routes_for(sp))}")


def warm(seed):
    t = Tally()
    for sp in (("EI", 3), ("FM", 2, True)):
        work((sp, 0, 30, 32, seed))
    return t


def explore(ctx):
    items = []
    bounds = {"cell_catalogue_explicit": ESYMS, "cell_catalogue_find_min": FSYMS, "requests": REQS, "rtol": RTOLS,
              "routes": list(ROUTES), "shape_components": NCH, "spaces": []}
    per_space = []
    for sp, step in plan(ctx.tier):
        n = space_size(sp)
        code = space_code(sp)
        bounds["spaces"].append({"space": describe(sp), "tables": n, "grid_elements": len(grid(sp)), "routes": len(routes_for(sp))})
        per_space.append([(sp, code, lo, min(n, lo + step), ctx.seed) for lo in range(0, n, step)])
    # spaces interleaved (round robin), so that violation classes of every kind of order are merged early
    for k in range(max(len(x) for x in per_space)):
        items += [x[k] for x in per_space if k < len(x)]
    ctx.bounds = bounds
    warm(ctx.seed)
    ctx.pmap(work, items, chunksize=1)
    req = []
    for r in ROUTES:
        for k in ("explicit-int", "explicit-list"):
            req += [f"{r}:{k}:all-found", f"{r}:{k}:some-found", f"{r}:{k}:none-found"]
        req += [f"{r}:explicit-int:equidistant-either", f"{r}:find_min:nothing-qualifies-nothing-returned",
                f"{r}:find_min:qualifying-column-exists"]
    for r in ROUTES[:4]:
        req += [f"{r}:find_min:found@column{c}" for c in range(3)]
    ctx.require(*req)


def replay(case):
    t = Tally()
    sp = tuple(case["space"])
    order = case["order"]
    if isinstance(order, int) and sp[0] == "EI":
        order = "pos"
    one_call(t, sp, case["index"], case["seed"], case["route"], case["request"], order, case["rtol"], {})
    return t
