"""C11 - modal parameter extraction returns the requested pole, whole, and only if it is close.

Bounded-exhaustive enumeration of pole tables whose cells carry unique damping / shape / covariance tags
(any mixture of two poles is visible), over explicit orders (int, per-mode list) and order='find_min',
through ssi.SSI_mpe, plscf.pLSCF_mpe and the mpe methods of SSIcov and pLSCF on result objects assigned
directly.  The oracle is a small extractor written from the property statement.

Every call is also judged on "what was handed in is unchanged by the call" (bytes before / after of every table,
the request list and the order list; on the class routes also the tables stored in the result object), and space
CH repeats / chains extractions on the SAME table objects (function routes) or the SAME algorithm object (class
routes): every extraction of a chain is judged against the reference computed from the pristine table.

Class routes are also executed on algorithm objects configured with a non-default minimum order of the analysis
(run parameter ``ordmin`` = 1 .. last column): an order names a column of the pole table whatever ordmin is; ordmin only
decides which columns can carry the label 'stable' (the designed label table is 0 below ordmin, as a run would leave it).
"""
import numpy as np

from mc import payload
from mc.core import Tally

ID = "C11"
TECHNIQUE = ("bounded-exhaustive enumeration of tagged pole tables x requested frequencies x orders (int, per-mode list, "
             "'find_min') x rtol x with/without covariance tables, every call compared with a reference extractor written "
             "from the statement; routes ssi.SSI_mpe, plscf.pLSCF_mpe, SSIcov.mpe, pLSCF.mpe; every call also judged on 'what "
             "was handed in is unchanged'; plus every chain of two (thorough: also three) extractions over a 6-operation "
             "alphabet executed on the same table objects / the same algorithm object, each judged against the pristine table; "
             "class routes additionally with every non-default ordmin of the algorithm object (1 .. last column), all three kinds of order")
LEVEL_TEXT = ("small-scope exhaustive: every table of the stated shapes over the stated cell catalogue is extracted from on "
              "every route and the whole returned record is judged; nothing is sampled. Chained space CH: every 2-row x 2-column "
              "find_min-catalogue table x every ordered pair (thorough: also every ordered triple) of the 6 operations "
              "{find_min for (10,20) / (10); int order 0, 1 and order lists [0,1], [1,0] for (10,20)} x 4 routes (SSI_mpe and "
              "SSIcov.mpe with covariance tables, pLSCF_mpe, pLSCF.mpe), on objects that are kept between the extractions. Axis ordmin (class routes): every table of every "
              "space x every ordmin in 1..last column x class route (SSIcov.mpe, with / without covariance tables rotating with "
              "table index + ordmin; pLSCF.mpe except for find_min tables; per-mode order lists: one of the three per table, "
              "rotating) x every request and order of the space's grid, tolerance rotating with the next bit of table index + "
              "ordmin; chained space: every chain on an object with ordmin 1, route rotating with the table index")
RULE = ("a case is one pole table, executed over its whole grid of (requested frequencies, order, rtol, route, covariance); "
        "non-trivial = explicit order: for some request a column that is read holds two or more retained poles and the "
        "nearest one is outside the tolerance, or is not the first retained row, or has an equidistant twin; find_min: the "
        "lowest qualifying column is not column 0, or a column has a retained pole within tolerance of every requested "
        "frequency and still does not qualify (an unstable or a second stable pole decides); chained space: the same criteria "
        "on any extraction of any chain of the table; distinct by (space, table index)")
ASSUMPTIONS = [
    "the reference extractor (nearest retained pole per requested frequency, |fn-f| <= rtol*f; lowest column with exactly "
    "one stable pole per requested frequency) is about 40 lines written from the statement",
    "equidistant poles: either may be returned, but whole; distances within 1e-9 (relative) of the tolerance are not judged",
    "mode shapes of the returned record may be stored as columns or as rows",
    "find_min tables for pLSCF_mpe use poles that are inside both its absolute band (deltaf = 0.05 Hz) and the relative "
    "tolerance, or outside both, so that 'within tolerance' has one meaning",
    "pLSCF_mpe(order='find_min') not finding an existing qualifying column is a listed known finding (pinned by "
    "test_pLSCF_mpe[find_min-1]); its cases without a qualifying column are judged normally",
    "tables with a column without retained poles are outside the quantifier and are skipped",
    "the pole table the statement speaks of is the one the user handed in (function routes) or the one stored in the result "
    "object when the first extraction starts (class routes): a later extraction on the same objects is judged against that "
    "pristine table, and a call that alters a table, the request list or the order list it was given is reported "
    "(bytes compared before / after; class key ...:input-changed:<names>)",
    "chained space CH: the tables are of the find_min kind (every pole far inside or far outside both tolerances), so the "
    "tolerance does not decide there; the k-th extraction of chain j on table i uses rtol index ((i + j) >> k) & 1, i.e. all "
    "combinations of the two tolerances (and of the positional / keyword call form bound to them) occur along the chains, "
    "rotating with the table and the chain; the request list and the order list are written anew for every extraction",
    "axis ordmin (run parameter of the algorithm classes, default 0): an explicit order names the column of the stored pole table "
    "whatever ordmin is (also an order below ordmin: that column exists and holds retained poles), and order_out reports the orders "
    "that were read; ordmin only concerns the labels: a run leaves label 0 in the columns below ordmin, so the designed label table "
    "handed to an object with ordmin = k has its columns < k set to 0 (reference extractor unchanged, applied to that table); "
    "values 1 .. last column (ordmin <= ordmax); SSIcov objects with ordmin > 0 are created with ordmax = last column",
    "axis ordmin is crossed with every table, every request and every order of each space on the class routes; the tolerance and "
    "with / without covariance tables rotate with the table index and ordmin (all four combinations over four consecutive tables); "
    "pLSCF.mpe(order='find_min') is not repeated with ordmin > 0 (known-finding route, its mpe does not read ordmin); in the "
    "per-mode-list space EL one class route per (table, ordmin) (SSIcov.mpe with / without covariances, pLSCF.mpe on every other "
    "table; every route x tolerance within 8 consecutive tables); in the chained space the route (SSIcov.mpe with covariances / "
    "pLSCF.mpe) rotates with the table index",
]

NCH = 3
RTOLS = [0.02, 0.05]
F1, F2 = 10.0, 20.0
REQS = [(F1, F2), (F1,), (F2,)]
# explicit-order cell catalogue
# 10.51 and 10.202 sit just OUTSIDE the relative band of 10.0 (5.1 % for rtol 0.05, 2.02 % for rtol 0.02) on the upper side, where a
# tolerance taken relative to the larger of the two values instead of the requested frequency would still accept them
ESYMS = ["10.0", "10.3", "11.0", "20.0", "19.2", "15.0", "nan", "twin", "10.51", "10.202"]
EVAL = [10.0, 10.3, 11.0, 20.0, 19.2, 15.0, None, "twin", 10.51, 10.202]
E_NAN, E_TWIN = 6, 7
EL_SUB_Q = [0, 3, 1, 6]          # 10.0, 20.0, 10.3, nan
EL_SUB_T = [0, 3, 1, 4, 6]       # + 19.2
# find_min cell catalogue
FSYMS = ["nan", "f1-stable", "f1-unstable", "f2-stable", "spurious-stable"]
ROUTES = ("SSI_mpe", "SSI_mpe+cov", "SSIcov.mpe", "SSIcov.mpe+cov", "pLSCF_mpe", "pLSCF.mpe")
KNOWN_KEY = "find_min:pLSCF_mpe:qualifying-column-not-found"
# a route is written <base>[+cov][@ordmin<k>]: class routes on an algorithm object whose run parameter ordmin is k (default 0)
OM_TAG = "@ordmin"
# chained space: operation alphabet (request index, order) for 2-column tables; a chain is a tuple of operations executed one
# after the other on the same objects
CH_OPS = [(0, "find_min"), (1, "find_min"), (0, 0), (0, 1), (0, [0, 1]), (0, [1, 0])]
# names under which the tables are handed in
ARG_NAMES = {"Fn": "Fn_pol", "Xi": "Xi_pol", "Phi": "Phi_pol", "Lab": "Lab", "Fc": "Fn_cov", "Xc": "Xi_cov", "Pc": "Phi_cov"}
RES_NAMES = {"Fn": "Fn_poles", "Xi": "Xi_poles", "Phi": "Phi_poles", "Lab": "Lab", "Fc": "Fn_poles_cov", "Xc": "Xi_poles_cov",
             "Pc": "Phi_poles_cov"}

_TAGS = {}


def tags(seed):
    if seed not in _TAGS:
        phi = payload.cplx(seed, "c11/phi", (4, 4, NCH))
        pcov = np.abs(payload.entries(seed, "c11/phicov", (4, 4, NCH))) * 1e-3
        _TAGS[seed] = (phi, pcov)
    return _TAGS[seed]


def digits(idx, base, n):
    out = []
    for _ in range(n):
        out.append(idx % base)
        idx //= base
    return out[::-1]


# ---- tables -----------------------------------------------------------------------------------------
def empty(R, C):
    return {"Fn": np.full((R, C), np.nan), "Xi": np.full((R, C), np.nan), "Phi": np.full((R, C, NCH), np.nan, complex),
            "Fc": np.full((R, C), np.nan), "Xc": np.full((R, C), np.nan), "Pc": np.full((R, C, NCH), np.nan),
            "Lab": np.zeros((R, C), int)}


def put(T, seed, r, c, fn, conj_of=None):
    phi, pcov = tags(seed)
    C = T["Fn"].shape[1]
    k = r * C + c
    T["Fn"][r, c] = fn
    T["Xi"][r, c] = 0.01 + 0.001 * k
    T["Phi"][r, c] = phi[r, c]
    if conj_of is not None:
        T["Fn"][r, c] = T["Fn"][conj_of, c]
        T["Xi"][r, c] = T["Xi"][conj_of, c]
        T["Phi"][r, c] = np.conj(T["Phi"][conj_of, c])
    T["Fc"][r, c] = 1e-4 * (1 + k)
    T["Xc"][r, c] = 1e-6 * (1 + k)
    T["Pc"][r, c] = pcov[r, c]


def fill_column(T, seed, c, syms):
    for r, s in enumerate(syms):
        v = EVAL[s]
        if v is None:
            continue
        if v == "twin":
            above = [q for q in range(r) if not np.isnan(T["Fn"][q, c])]
            if above:
                put(T, seed, r, c, None, conj_of=above[-1])
            else:
                put(T, seed, r, c, 10.0)
        else:
            put(T, seed, r, c, v)


def el_columns(sub):
    """Non-empty 2-cell columns over the sub-catalogue."""
    return [(a, b) for a in sub for b in sub if not (a == E_NAN and b == E_NAN)]


def space_size(sp):
    kind = sp[0]
    if kind == "EI":           # ("EI", R): every R-cell column over the catalogue, at each of the 3 column positions
        return len(ESYMS) ** sp[1] * 3
    if kind == "EL":           # ("EL", sub): every 2-row x 3-column table with non-empty columns over the sub-catalogue
        return len(el_columns(sp[1])) ** 3
    if kind == "FM":           # ("FM", R, full_grid): every R-row x 3-column table over the find_min catalogue
        return len(FSYMS) ** (sp[1] * 3)
    if kind == "CH":           # ("CH", R, C, L): every R-row x C-column table over the find_min catalogue, chains of length L
        return len(FSYMS) ** (sp[1] * sp[2])
    raise ValueError(sp)


def build(sp, idx, seed, family="ssi"):
    """(table dict, symbol listing) or (None, listing) when a column has no retained pole."""
    kind = sp[0]
    if kind == "EI":
        R = sp[1]
        pos = idx % 3
        col = digits(idx // 3, len(ESYMS), R)
        T = empty(R, 3)
        for c in range(3):
            if c == pos:
                fill_column(T, seed, c, col)
            else:
                fill_column(T, seed, c, [0, 3] + [E_NAN] * (R - 2))     # filler: exact 10.0 and 20.0 with other tags
        names = [ESYMS[s] for s in col]
        if all(s == E_NAN for s in col):
            return None, names
        T["Lab"][:] = 1
        return T, {"column": names, "position": pos}
    if kind == "EL":
        cols = el_columns(sp[1])
        d = digits(idx, len(cols), 3)
        T = empty(2, 3)
        for c in range(3):
            fill_column(T, seed, c, list(cols[d[c]]))
        T["Lab"][:] = 1
        return T, {"columns": [[ESYMS[s] for s in cols[x]] for x in d]}
    if kind in ("FM", "CH"):
        R = sp[1]
        NC = 3 if kind == "FM" else sp[2]
        d = np.array(digits(idx, len(FSYMS), R * NC)).reshape(R, NC)
        names = [[FSYMS[x] for x in row] for row in d.tolist()]
        if (d == 0).all(axis=0).any():
            return None, names
        T = empty(R, NC)
        for r in range(R):
            for c in range(NC):
                s = d[r, c]
                if s == 0:
                    continue
                if family == "ssi":
                    v = {1: F1 + 0.03 * (r + 1) + 0.004 * c, 2: F1 + 0.03 * (r + 1) + 0.004 * c,
                         3: F2 + 0.06 * (r + 1) + 0.004 * c, 4: 15.0 + 0.1 * r + 0.01 * c}[s]
                else:
                    v = {1: F1 + 0.01 * (r + 1) + 0.001 * c, 2: F1 + 0.01 * (r + 1) + 0.001 * c,
                         3: F2 + 0.01 * (r + 1) + 0.001 * c, 4: 15.0 + 0.1 * r + 0.01 * c}[s]
                put(T, seed, r, c, v)
                T["Lab"][r, c] = 0 if s == 2 else 1
        return T, names
    raise ValueError(sp)


def grid(sp):
    """[(request index, order, rtol index)] executed for every table of the space (on every route of routes_for)."""
    kind = sp[0]
    out = []
    if kind == "EI":
        for q in range(len(REQS)):
            for ri in range(len(RTOLS)):
                out.append((q, "pos", ri))
    elif kind == "EL":
        for ri in range(len(RTOLS)):
            for c1 in range(3):
                for c2 in range(3):
                    out.append((0, [c1, c2], ri))
                out.append((1, [c1], ri))
                out.append((2, [c1], ri))
    elif kind == "CH":
        return chains(sp)
    else:
        reqs = range(len(REQS)) if sp[2] else [0]
        for q in reqs:
            for ri in range(len(RTOLS)):
                out.append((q, "find_min", ri))
    return out


def chains(sp):
    """Every tuple of sp[3] operations of the alphabet (ordered, repetition allowed)."""
    assert sp[2] == 2, "the operation alphabet is written for 2-column tables"
    out = [()]
    for _ in range(sp[3]):
        out = [ch + (op,) for ch in out for op in range(len(CH_OPS))]
    return out


def chain_ops(idx, j, ch):
    """[(request index, order, rtol index)] of chain number j on table idx."""
    return [(CH_OPS[op][0], CH_OPS[op][1], ((idx + j) >> k) & 1) for k, op in enumerate(ch)]


CH_ROUTES = ("SSI_mpe+cov", "SSIcov.mpe+cov", "pLSCF_mpe", "pLSCF.mpe")


def routes_for(sp):
    if sp[0] == "CH":       # the SSI routes with covariance tables: every table is handed in and the whole record is judged
        return CH_ROUTES
    if sp[0] == "FM" and not sp[2]:
        return ("SSI_mpe+cov", "pLSCF_mpe")
    return ROUTES


def parse_route(route):
    """(base, covariance tables handed in, ordmin of the algorithm object, route without the ordmin tag)."""
    r, _, om = route.partition(OM_TAG)
    return r.split("+")[0], r.endswith("+cov"), int(om) if om else 0, r


def ncols(sp):
    return sp[2] if sp[0] == "CH" else 3


def ordmins(sp):
    """Non-default values of the algorithm's ordmin: 1 .. last column of the table."""
    return list(range(1, ncols(sp)))


def ordmin_routes(sp, idx):
    """Class routes with a non-default ordmin executed on table idx (in addition to routes_for), k = idx + ordmin:
    EI: every ordmin x {SSIcov.mpe (with covariance tables iff k is even), pLSCF.mpe};
    FM: every ordmin x SSIcov.mpe (with covariance tables iff k is even; pLSCF.mpe's find_min is the known-finding route);
    EL: every ordmin x one route, k mod 4 = 0: SSIcov.mpe+cov, 2: SSIcov.mpe, odd: pLSCF.mpe;
    CH: ordmin 1 x one route (SSIcov.mpe+cov iff k is even, else pLSCF.mpe)."""
    if sp[0] == "FM" and not sp[2]:
        return ()
    out = []
    for om in ordmins(sp):
        k = idx + om
        if sp[0] == "CH":
            r = ["SSIcov.mpe+cov" if k % 2 == 0 else "pLSCF.mpe"]
        elif sp[0] == "EL":
            r = [("SSIcov.mpe+cov", "pLSCF.mpe", "SSIcov.mpe", "pLSCF.mpe")[k % 4]]
        else:
            r = ["SSIcov.mpe+cov" if k % 2 == 0 else "SSIcov.mpe"] + (["pLSCF.mpe"] if sp[0] != "FM" else [])
        out += [f"{x}{OM_TAG}{om}" for x in r]
    return tuple(out)


def ordmin_rtol(sp, idx, om):
    """Tolerance index used on table idx by the routes with ordmin = om > 0 (spaces EI, EL, FM): the bit of idx + ordmin above
    the bits that choose the route, so that every (route, tolerance) pair occurs within 4 (EL: 8) consecutive tables."""
    return ((idx + om) >> (2 if sp[0] == "EL" else 1)) & 1


def with_ordmin(T, om):
    """The table as a run with ordmin = om leaves it: no pole of a column below ordmin is labelled stable."""
    if not om:
        return T
    T = dict(T)
    T["Lab"] = T["Lab"].copy()
    T["Lab"][:, :om] = 0
    return T


def table_for(Tcache, sp, idx, seed, family, om):
    """(table, listing, pristine bytes) for the route family and the ordmin of the algorithm object."""
    if family not in Tcache:
        Tcache[family] = build(sp, idx, seed, family if sp[0] in ("FM", "CH") else "ssi")
    T, listing = Tcache[family]
    if (family, om) not in Tcache:
        To = with_ordmin(T, om)
        Tcache[(family, om)] = (To, table_bytes(To))
    To, Tb = Tcache[(family, om)]
    return To, listing, Tb


# ---- reference extractor (from the statement) -------------------------------------------------------
def ref_explicit(T, freqs, cols, rtol):
    """Per requested frequency: list of admissible cells [(r, c)] (empty = nothing may be returned); None if undecidable.
    Also the non-trivial flag."""
    Fn = T["Fn"]
    out = []
    nontrivial = False
    for f, c in zip(freqs, cols):
        rows = [r for r in range(Fn.shape[0]) if not np.isnan(Fn[r, c])]
        d = [abs(Fn[r, c] - f) for r in rows]
        dmin = min(d)
        cands = [r for r, dd in zip(rows, d) if dd <= dmin + 1e-12 * f]
        if abs(dmin - rtol * f) <= 1e-9 * f:
            return None, False
        inside = dmin <= rtol * f
        out.append([(r, c) for r in cands] if inside else [])
        if len(rows) >= 2 and (not inside or len(cands) > 1 or cands[0] != rows[0]):
            nontrivial = True
    return out, nontrivial


def ref_find_min(T, freqs, rtol):
    """(c* or None, admissible cells per frequency, non-trivial flag); None if undecidable."""
    Fn, Lab = T["Fn"], T["Lab"]
    R, C = Fn.shape
    cstar, cells = None, None
    nontrivial = False
    for c in range(C):
        per_f = []
        near_any = True
        for f in freqs:
            within = []
            near = False
            for r in range(R):
                if np.isnan(Fn[r, c]):
                    continue
                d = abs(Fn[r, c] - f)
                if abs(d - rtol * f) <= 1e-9 * f:
                    return None
                if d <= rtol * f:
                    near = True
                    if Lab[r, c] == 1:
                        within.append((r, c))
            per_f.append(within)
            near_any = near_any and near
        ok = all(len(w) == 1 for w in per_f)
        if ok and cstar is None:
            cstar, cells = c, per_f
            if c > 0:
                nontrivial = True
        if near_any and not ok and cstar is None:
            nontrivial = True
    return cstar, cells, nontrivial


# ---- implementation side ----------------------------------------------------------------------------
class Out:
    pass


def _mpe_form(alg, freqs, order, rtol):
    """The documented signature is mpe(sel_freq, order, rtol): keyword and positional calls mean the same. The form rotates with
    the tolerance (0.02 -> positional, 0.05 = the default value -> keywords), so every table meets both."""
    if int(round(rtol * 100)) % 2 == 0:
        alg.mpe(freqs, order, rtol)
    else:
        alg.mpe(sel_freq=freqs, order=order, rtol=rtol)


class Holder:
    """What a user keeps between two extractions: the table objects (function routes), the algorithm object with the result
    object the tables were assigned to (class routes). A fresh Holder per call = the independent extractions of the other
    spaces; one Holder per chain = extraction repeated on the same objects."""

    def __init__(self, T):
        self.a = {k: v.copy() for k, v in T.items()}
        self.alg = None
        self.reported = set()      # names already reported as changed by an earlier extraction of the same chain


def table_bytes(T):
    return {k: (v.tobytes(), v.shape, v.dtype) for k, v in T.items()}


def _differs(x, ref):
    return not (isinstance(x, np.ndarray) and x.tobytes() == ref[0] and x.shape == ref[1] and x.dtype == ref[2])


def call(route, T, freqs, order, rtol, holder=None, Tb=None):
    """Execute one extraction; returns an Out record (or raises what the library raises). o.changed lists what was handed in
    (or is stored in the result object) and is not, after the call, what it was: pristine bytes Tb of table T."""
    base, cov, om, _ = parse_route(route)
    freqs0, order0 = list(freqs), (list(order) if isinstance(order, list) else order)
    freqs = list(freqs)
    order = list(order) if isinstance(order, list) else order
    h = holder if holder is not None else Holder(T)
    a = h.a
    Tb = Tb if Tb is not None else table_bytes(T)
    o = Out()
    o.cov = cov
    handed = ("Fn", "Xi", "Phi", "Lab") + (("Fc", "Xc", "Pc") if cov else ())
    if base == "SSI_mpe":
        from pyoma2.functions import ssi

        kw = dict(Fn_cov=a["Fc"], Xi_cov=a["Xc"], Phi_cov=a["Pc"]) if cov else {}
        r = ssi.SSI_mpe(freqs, a["Fn"], a["Xi"], a["Phi"], order, Lab=a["Lab"], rtol=rtol, **kw)
        o.Fn, o.Xi, o.Phi, o.order_out, o.Fc, o.Xc, o.Pc = r
    elif base == "pLSCF_mpe":
        from pyoma2.functions import plscf

        r = plscf.pLSCF_mpe(freqs, a["Fn"], a["Xi"], a["Phi"], order, Lab=a["Lab"], rtol=rtol)
        o.Fn, o.Xi, o.Phi, o.order_out = r
        o.Fc = o.Xc = o.Pc = None
    elif base == "SSIcov.mpe":
        from pyoma2.algorithms.data.result import SSIResult
        from pyoma2.algorithms.ssi import SSIcov

        if h.alg is None:
            h.alg = SSIcov(name="c11", br=2, ordmin=om, ordmax=a["Fn"].shape[1] - 1) if om else SSIcov(name="c11", br=2)
            kw = dict(Fn_poles_cov=a["Fc"], Xi_poles_cov=a["Xc"], Phi_poles_cov=a["Pc"]) if cov else {}
            h.alg.result = SSIResult(Fn_poles=a["Fn"], Xi_poles=a["Xi"], Phi_poles=a["Phi"], Lab=a["Lab"], **kw)
        alg = h.alg
        _mpe_form(alg, freqs, order, rtol)
        res = alg.result
        o.Fn, o.Xi, o.Phi, o.order_out, o.Fc, o.Xc, o.Pc = res.Fn, res.Xi, res.Phi, res.order_out, res.Fn_cov, res.Xi_cov, res.Phi_cov
    elif base == "pLSCF.mpe":
        from pyoma2.algorithms.data.result import pLSCFResult
        from pyoma2.algorithms.plscf import pLSCF

        if h.alg is None:
            h.alg = pLSCF(name="c11", ordmax=3, ordmin=om) if om else pLSCF(name="c11", ordmax=3)
            h.alg.result = pLSCFResult(Fn_poles=a["Fn"], Xi_poles=a["Xi"], Phi_poles=a["Phi"], Lab=a["Lab"])
        alg = h.alg
        _mpe_form(alg, freqs, order, rtol)
        res = alg.result
        o.Fn, o.Xi, o.Phi, o.order_out = res.Fn, res.Xi, res.Phi, res.order_out
        o.Fc = o.Xc = o.Pc = None
    else:
        raise ValueError(route)
    # ---- what was handed in must be what it was
    ch = []
    res = h.alg.result if h.alg is not None else None
    for k in handed:
        x, ref = a[k], Tb[k]
        if x.tobytes() != ref[0] or x.shape != ref[1] or x.dtype != ref[2]:
            ch.append(ARG_NAMES[k] + (" (array handed to the result object)" if res is not None else ""))
        if res is not None:
            y = getattr(res, RES_NAMES[k], None)
            if (y is not x and _differs(y, ref)) or (y is x and ch and ch[-1].startswith(ARG_NAMES[k] + " ")):
                ch.append("result." + RES_NAMES[k])
    if freqs != freqs0:
        ch.append("sel_freq")
    if type(order) is not type(order0) or order != order0:
        ch.append("order")
    if ch or h.reported:
        o.changed = [n for n in ch if n not in h.reported]
        h.reported.update(ch)
    else:
        o.changed = ch
    return o


def modes_of(o):
    """Returned record as a list of per-mode dicts, or a string describing why it cannot be read."""
    Fn = np.asarray(o.Fn, float).ravel()
    n = Fn.size
    Xi = np.asarray(o.Xi, float).ravel()
    if Xi.size != n:
        return f"{n} frequencies but {Xi.size} damping ratios"

    def shapes(P, what):
        P = np.asarray(P)
        if n == 0:
            return [] if P.size == 0 else f"no frequency but {what} of shape {P.shape}"
        if P.shape == (NCH, n):
            return [P[:, i] for i in range(n)]
        if P.shape == (n, NCH):
            return [P[i, :] for i in range(n)]
        return f"{n} frequencies but {what} of shape {P.shape}"

    ph = shapes(o.Phi, "mode shapes")
    if isinstance(ph, str):
        return ph
    modes = [{"Fn": Fn[i], "Xi": Xi[i], "Phi": ph[i]} for i in range(n)]
    if o.cov:
        if o.Fc is None or o.Xc is None or o.Pc is None:
            return "covariance tables were supplied but no covariances are returned"
        Fc = np.asarray(o.Fc, float).ravel()
        Xc = np.asarray(o.Xc, float).ravel()
        if Fc.size != n or Xc.size != n:
            return f"{n} frequencies but {Fc.size}/{Xc.size} covariances"
        pc = shapes(o.Pc, "shape covariances")
        if isinstance(pc, str):
            return pc
        for i in range(n):
            modes[i].update(Fc=Fc[i], Xc=Xc[i], Pc=pc[i])
    return modes


def is_cell(m, T, r, c, cov):
    ok = m["Fn"] == T["Fn"][r, c] and m["Xi"] == T["Xi"][r, c] and np.array_equal(m["Phi"], T["Phi"][r, c])
    if ok and cov:
        ok = m["Fc"] == T["Fc"][r, c] and m["Xc"] == T["Xc"][r, c] and np.array_equal(m["Pc"], T["Pc"][r, c])
    return bool(ok)


def whole_cell(m, T, cov):
    R, C = T["Fn"].shape
    for r in range(R):
        for c in range(C):
            if not np.isnan(T["Fn"][r, c]) and is_cell(m, T, r, c, cov):
                return (r, c)
    return None


def brief(modes):
    return [(round(float(m["Fn"]), 4), round(float(m["Xi"]), 5)) for m in modes]


def judge_modes(t, pre, route, modes, expected, T, cov, case, ctx_txt):
    """modes: returned; expected: list (one per mode that must be returned) of admissible cells."""
    if len(modes) > len(expected):
        t.violation(f"{pre}:{route}:returned-pole-outside-tolerance",
                    f"{route} {ctx_txt}: {len(modes)} mode(s) returned {brief(modes)} but only {len(expected)} requested "
                    f"frequency(ies) have a retained pole of that order within the tolerance", case)
        return False
    if len(modes) < len(expected):
        t.violation(f"{pre}:{route}:pole-within-tolerance-not-returned",
                    f"{route} {ctx_txt}: {len(modes)} mode(s) returned {brief(modes)} although {len(expected)} requested "
                    f"frequency(ies) have a retained pole within the tolerance (cells {expected})", case)
        return False
    good = True
    for m, cells in zip(modes, expected):
        if any(is_cell(m, T, r, c, cov) for r, c in cells):
            continue
        good = False
        w = whole_cell(m, T, cov)
        if w is None:
            t.violation(f"{pre}:{route}:mixture-of-different-poles",
                        f"{route} {ctx_txt}: returned mode fn={m['Fn']} xi={m['Xi']} is not one pole of the table "
                        f"(frequency, damping, shape{', covariances' if cov else ''} come from different cells); admissible cells {cells}", case)
        else:
            t.violation(f"{pre}:{route}:not-the-admissible-pole",
                        f"{route} {ctx_txt}: returned the pole of cell {w} (fn={m['Fn']}), admissible cells {cells}", case)
    return good


class _Lazy:
    """Text that is only needed when a violation is written."""

    def __init__(self, f):
        self.f = f

    def __str__(self):
        return self.f()

    def __format__(self, spec):
        return self.f()


def kind_of(order):
    return "find_min" if order == "find_min" else "explicit-int" if isinstance(order, int) else "explicit-list"


def one_call(t, sp, idx, seed, route, q, order, ri, Tcache, count=True, holder=None, before=None):
    """Execute and judge one extraction. Returns the non-trivial flag.
    holder / before: the objects kept from, and the operations [(q, order, ri)] already executed in, the same chain (before=[]
    for the first extraction of a chain; None outside the chained space: fresh objects)."""
    family = "plscf" if route.startswith("pLSCF") else "ssi"
    base, cov, om, _ = parse_route(route)
    T, listing, Tb = table_for(Tcache, sp, idx, seed, family, om)
    freqs = REQS[q]
    rtol = RTOLS[ri]
    if order == "pos":
        order = int(listing["position"])
    kind = kind_of(order)
    case = {"space": list(sp), "index": int(idx), "seed": seed, "route": route, "request": q, "order": order, "rtol": ri,
            "table": listing, "requested": list(freqs)}
    full_route, route = route, base      # violation classes do not distinguish with / without covariances
    ctx_txt = f"f={list(freqs)} order={order!r} rtol={rtol}{' with covariance tables' if cov else ''}"
    # pre: prefix of the violation class; okey: prefix of the outcome counters
    pre, okey = kind, f"{full_route}:{kind}"
    if om:
        case["ordmin"] = om
        case["labels_handed_in"] = T["Lab"]
        pre = f"{kind}@ordmin{om}"
        ctx_txt += f" on an algorithm object with ordmin={om}"
    if before is not None:
        case["executed_before_on_the_same_objects"] = [[b[0], b[1], b[2]] for b in before]
        if before:
            hist = "+".join(kind_of(b[1]) for b in before)
            pre, okey = f"after-{hist}:{pre}", f"{full_route}:chain:{hist}->{kind}"
            ctx_txt = _Lazy(lambda head=ctx_txt: head + (" as extraction no. %d on the same %s, after %s" % (
                len(before) + 1, "algorithm object" if ".mpe" in route else "table objects",
                "; ".join(f"f={list(REQS[b[0]])} order={b[1]!r} rtol={RTOLS[b[2]]}" for b in before))))
    # ---- reference
    if kind == "find_min":
        ref = ref_find_min(T, freqs, rtol)
        if ref is None:
            t.not_judged += 1
            return False
        cstar, cells, nontrivial = ref
    else:
        cols = [order] * len(freqs) if isinstance(order, int) else list(order)
        cells, nontrivial = ref_explicit(T, freqs, cols, rtol)
        if cells is None:
            t.not_judged += 1
            return False
    # ---- implementation
    t.evaluations += 1
    t.transitions += 1
    try:
        o = call(full_route, T, freqs, order, rtol, holder, Tb)
    except Exception as e:
        t.violation(f"{pre}:{route}:raises:{type(e).__name__}", f"{route} {ctx_txt} raised {type(e).__name__}: {e}", case)
        return nontrivial
    t.validated += 1
    if o.changed:
        t.violation(f"{pre}:{route}:input-changed:" + "+".join(n.split()[0] for n in o.changed),
                    f"{route} {ctx_txt}: after the call {o.changed} differ(s) from what was handed in / stored before the first "
                    f"extraction (bytes compared with the pristine table)", case)
    elif count:
        t.outcomes[f"{okey}:inputs-unchanged"] += 1
    modes = modes_of(o)
    if isinstance(modes, str):
        t.violation(f"{pre}:{route}:unreadable-record", f"{route} {ctx_txt}: {modes}", case)
        return nontrivial
    if kind == "find_min":
        if cstar is None:
            if modes:
                t.violation(f"{pre}:{route}:modes-returned-although-no-order-qualifies",
                            f"{route} {ctx_txt}: returned {brief(modes)} (order_out={o.order_out!r}) although no column has exactly one "
                            f"stable pole within tolerance of every requested frequency", case)
            elif count:
                t.outcomes[f"{okey}:nothing-qualifies-nothing-returned"] += 1
            return nontrivial
        if not modes:
            key = KNOWN_KEY if family == "plscf" else f"{pre}:{route}:qualifying-column-not-found"
            t.violation(key, f"{full_route} {ctx_txt}: nothing returned (order_out={o.order_out!r}) although column {cstar} has exactly one stable "
                             f"pole within tolerance of every requested frequency (cells {cells})", case)
            if count:
                t.outcomes[f"{okey}:qualifying-column-exists"] += 1
            return nontrivial
        try:
            oo = int(o.order_out)
        except Exception:
            oo = None
        if oo != cstar:
            t.violation(f"{pre}:{route}:not-the-lowest-qualifying-order",
                        f"{route} {ctx_txt}: order_out={o.order_out!r}, lowest qualifying column is {cstar}; returned {brief(modes)}", case)
            return nontrivial
        if judge_modes(t, pre, route, modes, cells, T, cov, case, ctx_txt) and count:
            t.outcomes[f"{okey}:found@column{cstar}"] += 1
            t.outcomes[f"{okey}:qualifying-column-exists"] += 1
        return nontrivial
    # explicit order
    expected = [c for c in cells if c]
    good = judge_modes(t, pre, route, modes, expected, T, cov, case, ctx_txt)
    want = np.asarray(order, float)
    try:
        got = np.asarray(o.order_out, float)
        same = got.shape == want.shape and np.array_equal(got, want)
    except Exception:
        same = False
    if not same:
        good = False
        t.violation(f"{pre}:{route}:order_out-differs-from-request", f"{route} {ctx_txt}: order_out={o.order_out!r}", case)
    if good and count:
        nf = len(expected)
        t.outcomes[f"{okey}:" + ("all-found" if nf == len(freqs) else "none-found" if nf == 0 else "some-found")] += 1
        if any(len(c) > 1 for c in cells):
            t.outcomes[f"{okey}:equidistant-either"] += 1
        if om:
            # where the columns that had to be (and were) returned from lie relative to the algorithm's ordmin
            for rel in sorted({"below" if cc[0][1] < om else "at" if cc[0][1] == om else "above" for cc in expected}):
                t.outcomes[f"{okey}:pole-returned-from-order-{rel}-ordmin"] += 1
            if nf == 0:
                for rel in sorted({"below" if c < om else "at" if c == om else "above" for c in cols}):
                    t.outcomes[f"{okey}:nothing-returned-at-order-{rel}-ordmin"] += 1
        if before and any(T["Lab"][r, c] != 1 for cc in expected for r, c in cc):
            # the corner of the chained space: the pole that must be returned is retained but not labelled stable, i.e. it is not
            # one of the poles an automatic extraction executed before on the same objects was interested in
            t.outcomes[f"{okey}:returns-retained-pole-not-labelled-stable"] += 1
    return nontrivial


def one_chain(t, sp, idx, seed, route, ops, Tcache, count=True):
    """Execute the operations [(q, order, ri)] one after the other on the same objects; every extraction is judged against the
    pristine table. The first one is an extraction on fresh objects (judged; its outcomes are not counted again)."""
    family = "plscf" if route.startswith("pLSCF") else "ssi"
    holder = Holder(table_for(Tcache, sp, idx, seed, family, parse_route(route)[2])[0])
    nt = False
    for k, (q, order, ri) in enumerate(ops):
        nt = one_call(t, sp, idx, seed, route, q, order, ri, Tcache, count and k > 0, holder, list(ops[:k])) or nt
    return nt


SPACE_CODES = {}


def space_code(sp):
    key = repr(sp)
    if key not in SPACE_CODES:
        SPACE_CODES[key] = len(SPACE_CODES)
    return SPACE_CODES[key]


def work(item):
    sp, code, lo, hi, seed = item
    t = Tally()
    g = grid(sp)
    routes = routes_for(sp)
    for idx in range(lo, hi):
        cache = {}
        T, listing = build(sp, idx, seed, "ssi")
        t.states += 1
        if T is None:
            t.skipped_by_guard += 1
            continue
        cache["ssi"] = (T, listing)
        if sp[0] not in ("FM", "CH"):
            cache["plscf"] = cache["ssi"]
        nt = False
        for route in routes:
            if sp[0] == "CH":
                for j, ch in enumerate(g):
                    nt = one_chain(t, sp, idx, seed, route, chain_ops(idx, j, ch), cache) or nt
                continue
            for q, order, ri in g:
                nt = one_call(t, sp, idx, seed, route, q, order, ri, cache) or nt
        # axis ordmin: class routes on an algorithm object with a non-default ordmin
        for route in ordmin_routes(sp, idx):
            om = parse_route(route)[2]
            if sp[0] == "CH":
                for j, ch in enumerate(g):
                    nt = one_chain(t, sp, idx, seed, route, chain_ops(idx, j, ch), cache) or nt
                continue
            for q, order, ri in g:
                if ri == ordmin_rtol(sp, idx, om):
                    nt = one_call(t, sp, idx, seed, route, q, order, ri, cache) or nt
        if nt:
            t.nontrivial.add(code * 10**7 + idx)
        if idx == lo and lo % 4000 < (hi - lo):
            t.sample({"space": list(sp), "index": idx, "table": listing, "Fn": T["Fn"], "Lab": T["Lab"],
                      "grid_elements_per_route": len(g), "routes": list(routes), "routes_with_ordmin": list(ordmin_routes(sp, idx))})
    return t


def plan(tier):
    if tier == "quick":
        return [(("EI", 3), 96), (("EL", EL_SUB_Q), 75), (("FM", 2, True), 125), (("CH", 2, 2, 2), 12)]
    return [(("EI", 3), 96), (("EI", 4), 256), (("EL", EL_SUB_T), 128), (("FM", 2, True), 125), (("FM", 3, False), 3125),
            (("CH", 2, 2, 2), 12), (("CH", 2, 2, 3), 2)]


def describe(sp):
    if sp[0] == "EI":
        return (f"EI: every {sp[1]}-cell column over {ESYMS} placed at column 0, 1 and 2 of a 3-column table (other columns: exact "
                f"10.0 and 20.0 with other tags); int order = that column; requests {REQS}; rtol {RTOLS}")
    if sp[0] == "EL":
        return (f"EL: every 2-row x 3-column table with non-empty columns over {[ESYMS[s] for s in sp[1]]}; every per-mode order list "
                f"over the 3 columns for (10, 20) and for the singletons; rtol {RTOLS}")
    if sp[0] == "CH":
        return (f"CH: every {sp[1]}-row x {sp[2]}-column table over {FSYMS} without an empty column; every ordered {sp[3]}-tuple "
                f"(repetition allowed) of the operations {[(list(REQS[q]), o) for q, o in CH_OPS]} executed one after the other on "
                f"the same table objects (SSI_mpe, pLSCF_mpe) or the same algorithm object (SSIcov.mpe, pLSCF.mpe), routes "
                f"{list(CH_ROUTES)}; every "
                f"extraction judged against the pristine table; rtol index of extraction k of chain j on table i: ((i+j)>>k)&1")
    return (f"FM: every {sp[1]}-row x 3-column table over {FSYMS} without an empty column, order='find_min', "
            f"requests {REQS if sp[2] else REQS[:1]}, rtol {RTOLS}, routes {list(routes_for(sp))}")


def warm(seed):
    t = Tally()
    for sp in (("EI", 3), ("FM", 2, True), ("CH", 2, 2, 2)):
        work((sp, 0, 30, 32, seed))
    return t


def explore(ctx):
    items = []
    bounds = {"cell_catalogue_explicit": ESYMS, "cell_catalogue_find_min": FSYMS, "requests": REQS, "rtol": RTOLS,
              "routes": list(ROUTES), "shape_components": NCH, "spaces": [],
              "judged_on_every_call": "returned record against the reference extractor; every table handed in (and, class routes, "
                                      "stored in the result object), the request list and the order list byte-identical after the call",
              "chain_operations": [[list(REQS[q]), o] for q, o in CH_OPS],
              "ordmin_of_the_algorithm_object": {
                  "values": "0 (all class routes, as before) and 1 .. last column (2 for the 3-column spaces, 1 for the chained space)",
                  "routes": "k = table index + ordmin; EI: SSIcov.mpe (+cov iff k even) and pLSCF.mpe; FM: SSIcov.mpe (+cov iff k "
                            "even); EL: k mod 4 -> SSIcov.mpe+cov, pLSCF.mpe, SSIcov.mpe, pLSCF.mpe; CH: SSIcov.mpe+cov iff k even, "
                            "else pLSCF.mpe",
                  "grid": "every request and order of the space; tolerance index (k >> 1) & 1 (EL: (k >> 2) & 1); CH: every chain",
                  "labels": "label table handed in = designed table with the columns below ordmin set to 0"}}
    per_space = []
    for sp, step in plan(ctx.tier):
        n = space_size(sp)
        code = space_code(sp)
        bounds["spaces"].append({"space": describe(sp), "tables": n, "grid_elements": len(grid(sp)), "routes": len(routes_for(sp)),
                                 "ordmin_values_on_class_routes": [0] + (ordmins(sp) if ordmin_routes(sp, 0) else [])})
        per_space.append([(sp, code, lo, min(n, lo + step), ctx.seed) for lo in range(0, n, step)])
    # spaces interleaved (round robin), so that violation classes of every kind of order are merged early
    for k in range(max(len(x) for x in per_space)):
        items += [x[k] for x in per_space if k < len(x)]
    ctx.bounds = bounds
    warm(ctx.seed)
    ctx.pmap(work, items, chunksize=1)
    req = []
    for r in ROUTES:
        for k in ("explicit-int", "explicit-list"):
            req += [f"{r}:{k}:all-found", f"{r}:{k}:some-found", f"{r}:{k}:none-found"]
        req += [f"{r}:explicit-int:equidistant-either", f"{r}:find_min:nothing-qualifies-nothing-returned",
                f"{r}:find_min:qualifying-column-exists"]
    for r in ROUTES[:4]:
        req += [f"{r}:find_min:found@column{c}" for c in range(3)]
    # every call form leaves what it was given unchanged; chained space: every (kinds before -> kind) on every route was judged
    # as on fresh objects, and explicit orders executed after an automatic extraction had to return retained poles that are
    # not labelled stable
    kinds = ("find_min", "explicit-int", "explicit-list")
    req += [f"{r}:{k}:inputs-unchanged" for r in ROUTES for k in kinds]
    for r in CH_ROUTES:
        for k1 in kinds:
            req += [f"{r}:chain:{k1}->{k2}:inputs-unchanged" for k2 in kinds]
            req += [f"{r}:chain:{k1}->{k2}:all-found" for k2 in kinds[1:]]
            req += [f"{r}:chain:{k1}->{k2}:returns-retained-pole-not-labelled-stable" for k2 in kinds[1:]]
            req += [f"{r}:chain:{k1}->find_min:nothing-qualifies-nothing-returned", f"{r}:chain:{k1}->find_min:qualifying-column-exists"]
    for r in CH_ROUTES[:2]:
        req += [f"{r}:chain:{k1}->find_min:found@column{c}" for k1 in kinds for c in range(2)]
    # axis ordmin: every kind of order was judged as on the default objects, on every class route, for every ordmin; explicit
    # orders below, at and above ordmin returned their pole; find_min found every column that can qualify
    last = 2
    for om in (1, 2):
        for r in ("SSIcov.mpe", "SSIcov.mpe+cov", "pLSCF.mpe"):
            ro = f"{r}{OM_TAG}{om}"
            rels = ["below", "at"] + (["above"] if om < last else [])
            for k in ("explicit-int", "explicit-list"):
                req += [f"{ro}:{k}:{x}" for x in ("all-found", "some-found", "none-found", "inputs-unchanged")]
                req += [f"{ro}:{k}:pole-returned-from-order-{x}-ordmin" for x in rels]
                req += [f"{ro}:{k}:nothing-returned-at-order-{x}-ordmin" for x in rels]
            if r != "pLSCF.mpe":
                req += [f"{ro}:find_min:found@column{c}" for c in range(om, last + 1)]
                req += [f"{ro}:find_min:nothing-qualifies-nothing-returned", f"{ro}:find_min:inputs-unchanged"]
    for r in ("SSIcov.mpe+cov", "pLSCF.mpe"):
        ro = f"{r}{OM_TAG}1"
        for k1 in kinds:
            req += [f"{ro}:chain:{k1}->{k2}:inputs-unchanged" for k2 in kinds]
            req += [f"{ro}:chain:{k1}->{k2}:all-found" for k2 in kinds[1:]]
            req += [f"{ro}:chain:{k1}->{k2}:pole-returned-from-order-{x}-ordmin" for k2 in kinds[1:] for x in ("below", "at")]
            req += [f"{ro}:chain:{k1}->find_min:nothing-qualifies-nothing-returned"]
    req += [f"SSIcov.mpe+cov{OM_TAG}1:chain:{k1}->find_min:found@column1" for k1 in kinds]
    ctx.require(*req)


def replay(case):
    t = Tally()
    sp = tuple(case["space"])
    order = case["order"]
    if isinstance(order, int) and sp[0] == "EI":
        order = "pos"
    before = case.get("executed_before_on_the_same_objects")
    if before is not None:
        ops = [tuple(b) for b in before] + [(case["request"], order, case["rtol"])]
        one_chain(t, sp, case["index"], case["seed"], case["route"], ops, {})
        return t
    one_call(t, sp, case["index"], case["seed"], case["route"], case["request"], order, case["rtol"], {})
    return t
