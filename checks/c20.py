"""C20 - diagrams show exactly the identified poles at their frequency, order and damping.

Every assignment of {NaN, stable, unstable} to the cells of small pole tables (tagged, pairwise distinct
frequencies / dampings / shapes) x hide_poles x freqlim x covariance table, through plot.stab_plot,
plot.cluster_plot and the plot_stab / plot_cluster methods of the SSI and pLSCF classes; a banded family
up to 60 orders; every singular-value array over a 3-symbol alphabet per spectral line x every admissible
number of curves through plot.CMIF_plot and FDD.plot_CMIF. The data handed to the artists of the returned
axes is read back (Agg backend) and compared with what the statement requires.

Drawing history is an axis of its own: a "history" case draws a chart A, discards it, and then draws and judges a
chart B of tables of the SAME shape (the same chart twice; the same tables with the other hide_poles value, from the
same arrays / the same algorithm object; the same tables drawn first WITH a frequency window that leaves poles outside
and then without one; another table of that shape; the same tables scanned with another order step), for order steps
1, 2, 3. Each history case is executed in a child process forked from a process that has not
drawn any chart, so its verdict is that of the replay file in a fresh process and no case sees another case's state.

Two charts alive at once is one more history axis: a "two-alive" case draws a chart A and KEEPS it (nothing is closed), draws a
chart B (another table through the same route / through the function resp. the class method / through an algorithm object of another
class; or the same arrays resp. the same algorithm object as the other chart kind), and then judges what A's returned axes carry
NOW against A's tables and B's against B's; the two figures and axes must be distinct objects. Every table route and both
singular-value routes are the first chart; same forked-child harness.
"""
import itertools
import os
import pickle
import traceback

import numpy as np

from mc.core import Tally

ID = "C20"
TECHNIQUE = ("bounded-exhaustive enumeration of pole/label tables (all assignments of NaN/stable/unstable to the cells) x the "
             "full lattice of drawing options (including where the chart is drawn: own figure, or axes supplied by the caller that are / are "
             "not pyplot's current ones, or belong to a figure pyplot does not manage), through the plot functions and the algorithm "
             "classes' plot methods; artist data read back from the returned resp. supplied axes and compared with a reference written from the statement; the order "
             "coordinate of a marker is bound behaviourally to SSI_mpe / pLSCF_mpe (extraction at int(y) must return that pole)")
LEVEL_TEXT = ("every table of the stated shapes over the 3-symbol cell alphabet and every option combination stated in the bounds "
              "is drawn with the real code and every marker / error bar / curve of the returned axes (of the supplied axes where the caller "
              "supplies them) is judged, and every other axes of the caller / of pyplot must carry no artist; in the two-alive cases the chart "
              "returned FIRST is judged again after a second chart was drawn without closing anything")
RULE = ("one case = (route, table, hide_poles, freqlim, covariance, where the chart is drawn, call form) resp. (route, singular-value "
        "array, nSv, freqlim, where the chart is drawn, call form), one chart each, or a history case (route, table, hide_poles, covariance, order step, kind of prior drawing): two figures drawn one "
        "after the other in one fresh process, the second one judged, or a two-alive case (route of the first chart, kind of second chart, table resp. "
        "singular-value array, options of both, where each is drawn): two charts drawn in one fresh process with nothing closed in between, both judged after "
        "the second drawing; a table, history or two-alive table case is non-trivial if the table holds at least one stable, one unstable and one NaN cell (every branch "
        "of the marker selection is exercised in the same figure); a CMIF case is non-trivial if at least two curves are "
        "requested and the first singular value peaks at a different line than another requested one; distinct by the case tuple")
ASSUMPTIONS = [
    "Matplotlib artist accessors (Line2D.get_xydata, PathCollection.get_offsets, LineCollection.get_segments of error-bar containers, Axes.get_xlim/get_ylim) report what would be drawn",
    "stable markers are the green marker artists, unstable markers the red ones (any other marker artist is reported)",
    "with frequency limits only the markers inside the window are judged and the x-limits of the axes must equal the window; without limits every required marker must lie inside the view limits",
    "model-order coordinate: a marker at (x, y) is at an admissible order iff y is a non-negative integer and SSI_mpe / pLSCF_mpe([x], tables, order=int(y), rtol=1e-9) returns exactly that pole (frequency, damping and tagged shape)",
    "order step: 1 in the single-drawing cases; 1, 2, 3 in the history cases. With step s the column c of the tables holds model order c*s (the table "
    "width int(ordmax/s + 1) of SSI_poles and the column index int(order/s) of SC_apply), while extraction addresses a column by its index: there a "
    "marker at (x, y) is at an admissible order iff y is a non-negative integer multiple of s and extraction at column y/s returns exactly that pole, "
    "or (literal reading of the statement) extraction at order int(y) itself returns exactly that pole; for s = 1 both are the rule above. (On the "
    "unchanged tree SSI_poles raises IndexError for step > 1, so such tables reach the plot routines only through the functions or a result "
    "assigned by hand.)",
    "history cases judge the SECOND drawing only; the first one is discarded unseen (it is judged as a single drawing elsewhere in the lattice); an "
    "exception raised by the first drawing is reported",
    "two charts alive at once: what a plot function / plot method returned is the chart of the tables it was given for as long as the caller keeps "
    "it: after a second chart was drawn (no plt.close in between) the axes returned first must still carry exactly the first table's markers / "
    "curves and still belong to the figure returned with them, the second call must return another Figure and another Axes object (the caller "
    "supplies either a fresh figure of his own or none), and no third axes may carry an artist. The first chart is also judged before the second "
    "is drawn. Order step 1, ordmin 0, no frequency window on the first chart",
    "ordmin = 0 except for a sub-lattice with ordmin 1 and 2 (labels of lower orders are 0 there, all retained poles are still drawn; the order axis of the stabilisation diagram starts at ordmin, so markers of lower orders are drawn below the view)",
    "where the chart is drawn: plot.stab_plot and plot.CMIF_plot document fig= / ax= ('an existing axes object to plot on'; the selection "
    "dialog uses them with the axes of a Figure it embeds itself). With supplied axes the chart judged is what the SUPPLIED axes carry, the "
    "returned axes must be the supplied object, and no other axes the caller made or pyplot manages may carry a line, collection, patch, "
    "image, text, container or legend afterwards (an empty figure that pyplot creates on the side is not reported). Call forms: fig= and "
    "ax=, or ax= alone (the returned figure is then None; fig= alone raises AttributeError on the unchanged tree and is not part of the space). "
    "plot.cluster_plot and the class methods take no axes: for them the only variation is that a two-panel figure of the caller exists "
    "while they make their own figure",
    "tables handed to a plot function / stored in the result of an algorithm object are compared byte-wise before and after every drawing; a "
    "change alone is recorded as an outcome and not reported (the statement speaks of what is drawn): it is reported in the history cases "
    "that draw the same arrays / the same algorithm object a second time, when that second chart does not show the ORIGINAL tables (the "
    "reference of the second drawing is always built from the original tables)",
    "error bars: every bar must be centred (relative 1e-9) on a drawn marker and every drawn marker with a finite covariance must carry exactly one bar; bar lengths are not judged",
]

SYM = "NSU"
LO_HI = (6.5, 12.5)      # window cutting row 0 (5.x Hz) off; rows 1.. (8.x, 11.x) stay inside


# ---------------------------------------------------------------------------------------------
# tables
def build(R, C, cells, df=0.1):
    Fn = np.full((R, C), np.nan)
    Xi = np.full((R, C), np.nan)
    Lab = np.zeros((R, C), dtype=int)
    Phi = np.full((R, C, 2), np.nan, dtype=complex)
    cov = np.full((R, C), np.nan)
    for k, s in enumerate(cells):
        r, c = divmod(k, C)
        if s == "N":
            continue
        Fn[r, c] = 5.0 + 3.0 * r + df * c
        Xi[r, c] = 0.001 * (1 + k)
        Lab[r, c] = 1 if s == "S" else 0
        Phi[r, c] = [1.0, (r + 1) + 1j * (c + 1)]
        cov[r, c] = 0.001 if (r + c) % 2 == 0 else 0.2     # |cov*Fn| below / above the 0.5 split of the drawing code
    return Fn, Xi, Phi, Lab, cov


def banded_cells(R, C, pat):
    """column c is the pattern rotated by c"""
    return "".join(pat[(r + c) % len(pat)] for r in range(R) for c in range(C))


def single_cells(R, C):
    out = []
    for k in range(R * C):
        for s in "SU":
            out.append("N" * k + s + "N" * (R * C - k - 1))
    return out


# ---------------------------------------------------------------------------------------------
# reading artists
def _rgb(c):
    from matplotlib.colors import to_rgba

    try:
        return to_rgba(c)
    except Exception:
        return None


def _kind(rgba):
    if rgba is None:
        return "other"
    r, g, b = rgba[:3]
    if g > r and g > b:
        return "stable"
    if r > g and r > b:
        return "unstable"
    return "other"


def read_axes(ax):
    from matplotlib.collections import PathCollection
    from matplotlib.container import ErrorbarContainer

    owned = set()
    bars = []
    for ct in ax.containers:
        if isinstance(ct, ErrorbarContainer):
            _data, caps, cols = ct.lines
            for c in caps:
                owned.add(id(c))
            for lc in cols:
                owned.add(id(lc))
                for seg in lc.get_segments():
                    seg = np.asarray(seg, dtype=float)
                    if seg.shape == (2, 2) and np.isfinite(seg).all():
                        bars.append(seg)
    marks = {"stable": [], "unstable": [], "other": []}
    curves = []
    for ln in ax.get_lines():
        if id(ln) in owned:
            continue
        xy = np.asarray(ln.get_xydata(), dtype=float)
        mk = ln.get_marker()
        if mk in (None, "None", "none", "", " "):
            curves.append(xy)
            continue
        pts = [(float(a), float(b)) for a, b in xy if np.isfinite(a) and np.isfinite(b)]
        marks[_kind(_rgb(ln.get_markerfacecolor()))] += pts
        if ln.get_linestyle() not in (None, "None", "none", "", " "):
            curves.append(xy)
    for co in ax.collections:
        if id(co) in owned:
            continue
        if isinstance(co, PathCollection):
            off = np.ma.filled(np.ma.asarray(co.get_offsets(), dtype=float), np.nan).reshape(-1, 2)
            pts = [(float(a), float(b)) for a, b in off if np.isfinite(a) and np.isfinite(b)]
            fc = co.get_facecolor()
            rgba = tuple(fc[0]) if len(fc) else None
            marks[_kind(rgba)] += pts
        else:
            marks["other"] += [("collection", type(co).__name__)]
    return marks, bars, curves


# ---------------------------------------------------------------------------------------------
# routes
TABLE_ROUTES = ("stab", "cluster", "ssi.stab", "ssi.cluster", "pl.stab", "pl.cluster",
                "ssidatms.stab", "ssidatms.cluster", "plms.stab", "plms.cluster")
_CLS = {"ssi": "SSIcov", "pl": "pLSCF", "ssidatms": "SSIdat_MS", "plms": "pLSCF_MS"}
NAME = {"stab": "plot.stab_plot", "cluster": "plot.cluster_plot", "cmif": "plot.CMIF_plot", "fdd.cmif": "FDD.plot_CMIF"}
for _f, _c in _CLS.items():
    NAME[_f + ".stab"] = _c + ".plot_stab"
    NAME[_f + ".cluster"] = _c + ".plot_cluster"


def has_cov(route):
    return route in ("stab", "ssi.stab", "ssidatms.stab")


# where the chart is drawn
WHERES = ("own", "beside", "current", "left-of-two", "older-figure", "unmanaged")
SUPPLIED = WHERES[2:]
FORMS = ("fig+ax", "ax")
WHERE_TEXT = {"own": "the function makes its own figure (fig=None, ax=None); no other figure exists",
              "beside": "the function makes its own figure while a two-panel pyplot figure of the caller exists (its panels must stay empty)",
              "current": "axes supplied by the caller that are pyplot's current axes (fig, ax = plt.subplots())",
              "left-of-two": "the LEFT panel of plt.subplots(1, 2) supplied; pyplot's current axes are the right panel, which must stay empty",
              "older-figure": "axes of a pyplot figure supplied after a newer pyplot figure was made; the newer axes are current and must stay empty",
              "unmanaged": "axes of a matplotlib.figure.Figure that pyplot does not manage (the way the selection dialog embeds the chart)"}
FORM_TEXT = {"fig+ax": "fig=<figure>, ax=<axes>", "ax": "ax=<axes> only"}


def takes_axes(route):
    """the plot functions with documented fig= / ax= arguments (cluster_plot and the class methods always make their own figure)"""
    return route in ("stab", "cmif")


def stage(where):
    """The caller's figures before the library is called: (fig, ax) to be supplied (None, None = let the function make its own)
    and the caller's other axes."""
    import matplotlib.pyplot as plt

    if where == "own":
        return None, None, []
    if where == "beside":
        _f, (left, right) = plt.subplots(1, 2)
        return None, None, [left, right]
    if where == "current":
        f, a = plt.subplots()
        return f, a, []
    if where == "left-of-two":
        f, (left, right) = plt.subplots(1, 2)
        return f, left, [right]
    if where == "older-figure":
        f, a = plt.subplots()
        _g, b = plt.subplots()
        return f, a, [b]
    if where == "unmanaged":
        from matplotlib.figure import Figure

        f = Figure(figsize=(8, 6))
        return f, f.add_subplot(111), []
    raise ValueError(where)


def supply_kw(where, form):
    """-> (keyword arguments for the plot function, supplied axes or None, the caller's other axes)"""
    fig_s, ax_s, others = stage(where)
    if ax_s is None:
        return {}, None, others
    return ({"ax": ax_s} if form == "ax" else {"fig": fig_s, "ax": ax_s}), ax_s, others


def other_axes(judged, staged):
    """every axes the caller made or pyplot manages, except the judged ones"""
    import matplotlib.pyplot as plt

    seen, out = {id(judged)}, []
    managed = [a for n in plt.get_fignums() for a in plt.figure(n).axes]
    for a in list(staged) + managed:
        if id(a) not in seen:
            seen.add(id(a))
            out.append(a)
    return out


def artists_on(ax):
    n = {"lines": len(ax.lines), "collections": len(ax.collections), "patches": len(ax.patches), "images": len(ax.images),
         "texts": len(ax.texts), "containers": len(ax.containers), "legend": int(ax.get_legend() is not None)}
    return {k: v for k, v in n.items() if v}


def judge_place(t, case, route, where, form, ax_ret, ax_s, staged, sfx="", pre=""):
    """the returned axes are the supplied ones and no other axes carries an artist; -> (axes to judge, ok)"""
    ok = True
    judged = ax_ret if ax_s is None else ax_s
    if ax_s is not None and ax_ret is not ax_s:
        ok = False
        t.violation(f"{NAME[route]}:returned-axes-not-the-supplied:axes={where}{sfx}",
                    f"{pre}{NAME[route]}({FORM_TEXT[form]}) returned axes that are not the supplied ones ({WHERE_TEXT[where]})", case)
    stray = [(i, artists_on(a)) for i, a in enumerate(other_axes(judged, staged))]
    stray = [(i, n) for i, n in stray if n]
    if stray:
        ok = False
        t.violation(f"{NAME[route]}:artists-on-other-axes:axes={where}{sfx}",
                    f"{pre}{NAME[route]}: artists were drawn on axes other than the {'supplied' if ax_s is not None else 'returned'} ones "
                    f"({WHERE_TEXT[where]}): {stray[:3]}", case)
    elif where != "own":
        t.outcomes["other-axes-stay-empty"] += 1
    return judged, ok


_RESULT_TABLES = ("Fn_poles", "Xi_poles", "Phi_poles", "Lab", "Fn_poles_cov", "Xi_poles_cov")


def snapshot(draw):
    """bytes of the tables handed to the plot function resp. stored in the result of the algorithm object"""
    items = dict(draw.handed)
    if draw.alg is not None:
        for n in _RESULT_TABLES:
            items["result." + n] = getattr(draw.alg.result, n, None)
    return {k: (v.dtype.str, v.shape, v.tobytes()) for k, v in items.items() if isinstance(v, np.ndarray)}


def changed_tables(before, draw):
    now = snapshot(draw)
    return sorted(k for k in before if now.get(k) != before[k])


def make_drawer(route, Fn, Xi, Phi, Lab, cov, ordmin=0, step=1, where="own", form="fig+ax"):
    """draw(hide, freqlim) -> (fig, ax). Every call of the returned function hands the SAME array objects to the plot function,
    resp. calls the plot method of the SAME algorithm object. With order step s the C columns are the orders 0, s, .., (C-1)*s.
    draw.handed: the arrays handed in; draw.alg: the algorithm object (class routes); draw.supplied: (supplied axes or None,
    other axes of the caller) of the last call."""
    from pyoma2.functions import plot

    if where in SUPPLIED and not takes_axes(route):
        raise ValueError(f"{route} takes no axes")
    R, C = Fn.shape

    def finish(call, handed, alg=None):
        def draw(hide, freqlim):
            kw, ax_s, others = supply_kw(where, form)
            draw.supplied = (ax_s, others)
            return call(hide, freqlim, **kw)

        draw.handed, draw.alg, draw.supplied = handed, alg, (None, [])
        return draw

    if route == "stab":
        return finish(lambda hide, freqlim, **kw: plot.stab_plot(Fn, Lab, step, (C - 1) * step, ordmin=ordmin, freqlim=freqlim,
                                                                 hide_poles=hide, Fn_cov=cov, **kw),
                      {"Fn": Fn, "Lab": Lab, "Fn_cov": cov})
    if route == "cluster":
        return finish(lambda hide, freqlim: plot.cluster_plot(Fn, Xi, Lab, ordmin=ordmin, freqlim=freqlim, hide_poles=hide),
                      {"Fn": Fn, "Xi": Xi, "Lab": Lab})
    import pyoma2.algorithms as algs
    from pyoma2.algorithms.data.result import SSIResult, pLSCFResult

    fam, what = route.split(".")
    cls = getattr(algs, _CLS[fam])
    handed = {"Fn": Fn, "Xi": Xi, "Phi": Phi, "Lab": Lab, "Fn_cov": cov}
    if fam in ("ssi", "ssidatms"):
        kw = {"step": step} if step != 1 else {}
        a = cls(name="a", br=3, ordmax=(C - 1) * step, ordmin=ordmin, **kw)
        a._set_data(np.zeros((10, 2)), 20.0)
        a.result = SSIResult(Fn_poles=Fn, Xi_poles=Xi, Phi_poles=Phi, Lab=Lab, Fn_poles_cov=cov,
                             Xi_poles_cov=None if cov is None else cov.copy())
    else:
        if step != 1:
            raise ValueError("the pLSCF classes have no order step")
        a = cls(name="a", ordmax=C, nxseg=64, ordmin=ordmin)
        a._set_data(np.zeros((10, 2)), 20.0)
        a.result = pLSCFResult(Fn_poles=Fn, Xi_poles=Xi, Phi_poles=Phi, Lab=Lab)
    if what == "stab":
        return finish(lambda hide, freqlim: a.plot_stab(freqlim=freqlim, hide_poles=hide), handed, a)
    return finish(lambda hide, freqlim: a.plot_cluster(freqlim=freqlim, hide_poles=hide), handed, a)


def admissible_order(route, x, y, Fn, Xi, Phi, cell, step=1):
    """The statement's 'model-order value accepted by modal-parameter extraction for that pole' (order step s: the value y
    stands for the column y/s, see ASSUMPTIONS)."""
    if not (y == int(y) and y >= 0):
        return False
    o = int(y)
    if step != 1:
        # two readings of the statement are admissible for an order step s > 1: y is the model order c*s of column c (the
        # formula of stab_plot and the table width of SSI_poles), or y is literally the value `order` that extraction accepts
        # for that pole (the column index). A marker satisfying either is not reported.
        if _extracts(route, x, o, Fn, Xi, Phi, cell):
            return True
        if o % step:
            return False
        o //= step
    return _extracts(route, x, o, Fn, Xi, Phi, cell)


def _extracts(route, x, o, Fn, Xi, Phi, cell):
    try:
        if route.startswith("pl"):
            from pyoma2.functions import plscf

            out = plscf.pLSCF_mpe([x], Fn, Xi, Phi, o, rtol=1e-9)
        else:
            from pyoma2.functions import ssi

            out = ssi.SSI_mpe([x], Fn, Xi, Phi, o, rtol=1e-9)
        f, xi, phi = np.asarray(out[0]).reshape(-1), np.asarray(out[1]).reshape(-1), np.asarray(out[2])
        if len(f) != 1 or f[0] != x or xi[0] != Xi[cell]:
            return False
        return bool(np.array_equal(phi.reshape(-1), Phi[cell]))
    except Exception:
        return False


def inside(v, lim):
    lo, hi = min(lim), max(lim)
    return lo <= v <= hi


def judge_table(t, case, route, Fn, Xi, Phi, Lab, cov, hide, freqlim, fig, ax, step=1, sfx="", pre=""):
    """sfx / pre: suffix of the violation class keys and prefix of the messages (history cases); returns (marks, ok)"""
    marks, bars, _curves = read_axes(ax)

    class _T:                                      # same tally, class keys / messages marked
        @staticmethod
        def violation(k, msg, c):
            t.violation(k + sfx, pre + msg, c)

    tv = _T
    what = route.split(".")[-1]
    key = NAME[route]
    rname = NAME[route]
    cells = {}
    for r, c in zip(*np.nonzero(np.isfinite(Fn))):
        cells[float(Fn[r, c])] = (int(r), int(c))
    win = (lambda x: True) if freqlim is None else (lambda x: inside(x, freqlim))
    exp = {"stable": sorted(f for f, rc in cells.items() if Lab[rc] == 1 and win(f)),
           "unstable": sorted(f for f, rc in cells.items() if Lab[rc] != 1 and win(f)) if not hide else []}
    ok = True
    drawn = []
    n_eval = 0
    for kind in ("stable", "unstable"):
        obs = [(x, y) for x, y in marks[kind] if win(x)]
        xs = sorted(x for x, _ in obs)
        if xs != exp[kind]:
            ok = False
            missing = sorted(set(exp[kind]) - set(xs))
            extra = [x for x in xs if x not in exp[kind]] + [x for x in set(xs) if xs.count(x) > 1 and x in exp[kind]]
            role = ("rejected (NaN) or foreign value" if any(x not in cells for x in extra) else
                    ("pole of the other label class" if extra else ""))
            tv.violation(f"{key}:{kind}-markers:{'missing' if missing else 'extra'}{':hide' if hide else ''}",
                        f"{rname} hide_poles={hide} freqlim={freqlim} cov={'yes' if cov is not None else 'no'}: {kind} markers at frequencies {xs}, "
                        f"required {exp[kind]} (missing {missing}, extra {extra} {role}); table cells={case['cells']} {case['R']}x{case['C']}", case)
            continue
        for x, y in obs:
            rc = cells[x]
            drawn.append((x, y))
            if what == "stab":
                n_eval += 1
                if not admissible_order(route, x, y, Fn, Xi, Phi, rc, step):
                    ok = False
                    tv.violation(f"{key}:{kind}-marker-order",
                                f"{rname} hide_poles={hide}: {kind} marker of the pole in cell {list(rc)} (f={x}) is at y={y}, but extraction at order "
                                f"int(y){'' if step == 1 else f' / step {step}'} does not return that pole (it is stored at order index {rc[1]}); table {case['R']}x{case['C']} cells={case['cells']}", case)
            else:
                if y != Xi[rc]:
                    ok = False
                    tv.violation(f"{key}:{kind}-marker-damping",
                                f"{rname} hide_poles={hide}: {kind} marker of the pole in cell {list(rc)} (f={x}) is at damping {y}, the table has {Xi[rc]}; "
                                f"table {case['R']}x{case['C']} cells={case['cells']}", case)
    if marks["other"]:
        ok = False
        tv.violation(f"{key}:unclassified-marker-artist", f"{rname}: marker artists that are neither green (stable) nor red (unstable): {marks['other'][:4]}", case)
    if hide and [m for m in marks["unstable"] if win(m[0])]:
        pass  # already reported through exp['unstable'] == []
    # ---- view
    xlim = tuple(float(v) for v in ax.get_xlim())
    ylim = tuple(float(v) for v in ax.get_ylim())
    if freqlim is not None:
        if xlim != tuple(float(v) for v in freqlim):
            ok = False
            tv.violation(f"{key}:xlim", f"{rname}: x-limits {xlim} differ from the requested frequency limits {freqlim}", case)
    elif ok:
        om = case.get("ordmin", 0)
        # the order axis of the stabilisation diagram starts at ordmin by design; markers of lower orders are drawn, below the view
        out = [(x, y) for x, y in drawn if not (inside(x, xlim) and (inside(y, ylim) or (what == "stab" and y < om)))]
        if out:
            ok = False
            tv.violation(f"{key}:marker-outside-view", f"{rname} hide_poles={hide}: required markers {out[:3]} lie outside the view limits x{xlim} y{ylim}", case)
    # ---- error bars
    if ok:
        nb = [b for b in bars if win(0.5 * (b[0, 0] + b[1, 0]))]
        if cov is None or not has_cov(route):
            if nb:
                ok = False
                tv.violation(f"{key}:errorbar-without-covariance", f"{rname}: {len(nb)} error bars drawn although no covariance table was given", case)
        else:
            need = {p: 0 for p in drawn if np.isfinite(cov[cells[p[0]]])}
            for b in nb:
                mx, my = 0.5 * (b[0, 0] + b[1, 0]), b[0, 1]
                hit = [p for p in drawn if abs(p[0] - mx) <= 1e-9 * abs(p[0]) and p[1] == my and b[1, 1] == my]
                if not hit:
                    ok = False
                    tv.violation(f"{key}:errorbar-orphan{':hide' if hide else ''}",
                                f"{rname} hide_poles={hide}: error bar centred at ({mx}, {my}) where no marker is drawn (markers {drawn}); cells={case['cells']}", case)
                    break
                if hit[0] in need:
                    need[hit[0]] += 1
            bad = {p: n for p, n in need.items() if n != 1}
            if ok and bad:
                ok = False
                tv.violation(f"{key}:errorbar-count", f"{rname} hide_poles={hide}: drawn poles with a number of error bars other than one: {bad}; cells={case['cells']}", case)
            if ok:
                t.outcomes["errorbars-agree"] += 1
    t.evaluations += n_eval
    t.extra["mpe_bindings"] = t.extra.get("mpe_bindings", 0) + n_eval
    if ok:
        t.outcomes[f"agree:{route}"] += 1
        if exp["stable"]:
            t.outcomes["stable-markers-drawn"] += 1
        if exp["unstable"]:
            t.outcomes["unstable-markers-drawn"] += 1
        if hide and any(Lab[rc] != 1 for rc in cells.values()):
            t.outcomes["unstable-poles-hidden"] += 1
        if freqlim is not None and any(not win(f) for f in cells):
            t.outcomes["window-cuts-poles"] += 1
    return marks, ok


def run_table_case(t, case):
    import matplotlib.pyplot as plt

    R, C, cellstr = case["R"], case["C"], case["cells"]
    route, hide, freqlim, with_cov = case["route"], case["hide"], case["freqlim"], case["cov"]
    where, form = case.get("where", "own"), case.get("form", "fig+ax")
    freqlim = None if freqlim is None else tuple(freqlim)
    Fn, Xi, Phi, Lab, cov = build(R, C, cellstr, df=case.get("df", 0.1))
    om = case.get("ordmin", 0)
    if om:
        Lab = Lab.copy()
        Lab[:, :om] = 0            # labels obey ordmin: poles of lower orders are retained but never labelled stable
        t.outcomes["ordmin>0"] += 1
    if not with_cov:
        cov = None
    t.states += 1
    t.evaluations += 1
    fig = None
    plt.close("all")
    sfx = "" if where == "own" else f":axes={where}"
    pre = "" if where == "own" else f"[{WHERE_TEXT[where]}; {FORM_TEXT[form] if where in SUPPLIED else 'fig=None, ax=None'}] "
    try:
        draw = make_drawer(route, Fn.copy(), Xi.copy(), Phi.copy(), Lab.copy(), None if cov is None else cov.copy(), om, 1, where, form)
        before = snapshot(draw)
        fig, ax = draw(hide, freqlim)
    except Exception as e:
        plt.close("all")
        t.violation(f"raises:{type(e).__name__}:{NAME[route]}{sfx}", f"{pre}{NAME[route]}(hide_poles={hide}, freqlim={freqlim}) raised {type(e).__name__}: {e}; table {R}x{C} cells={cellstr}", case)
        return
    try:
        t.transitions += 1
        t.validated += 1
        ax_s, staged = draw.supplied
        judged, ok_place = judge_place(t, case, route, where, form, ax, ax_s, staged, pre=pre)
        marks, ok = judge_table(t, case, route, Fn, Xi, Phi, Lab, cov, hide, freqlim, fig, judged, sfx=sfx, pre=pre)
        if ok and ok_place:
            t.outcomes[f"axes={where}:agree"] += 1
            if where in SUPPLIED:
                t.outcomes[f"axes-supplied-as:{form}"] += 1
                if not hide and (Lab != 1)[np.isfinite(Fn)].any():
                    t.outcomes[f"axes={where}:unstable-markers-on-supplied-axes"] += 1
        # the tables handed in / stored in the result after the drawing: not a statement of this property by itself (the history
        # cases judge a second drawing of the same arrays / the same algorithm object against the ORIGINAL tables)
        ch = changed_tables(before, draw)
        t.outcomes["tables-changed-by-a-single-drawing(recorded, judged in the history cases)" if ch else "tables-unchanged-after-drawing"] += 1
        if set(cellstr) == set(SYM):
            t.nontrivial.add((route, R, C, cellstr, hide, freqlim is not None, bool(with_cov)) + (() if where == "own" else (where, form)))
        if case.get("sample"):
            t.sample({"case": {k: v for k, v in case.items() if k != "sample"},
                      "stable_markers": marks["stable"], "unstable_markers": marks["unstable"]})
    finally:
        if fig is not None:
            plt.close(fig)
        plt.close("all")


# ---------------------------------------------------------------------------------------------
# drawing history: chart A (discarded), then chart B of tables of the same shape (judged)
STEPS = (1, 2, 3)
PRIORS = ("same", "hide", "band", "table", "step")
_ROT = str.maketrans("NSU", "SUN")          # another table of the same shape: every cell changes its symbol
PRIOR_TEXT = {"same": "the same chart drawn before (same arrays / same algorithm object)",
              "hide": "the same tables drawn before with the other hide_poles value (same arrays / same algorithm object)",
              "band": "the same tables drawn before WITH a frequency window that leaves poles outside (same arrays / same algorithm object); the "
                      "judged drawing has no window and must show every pole of the original tables",
              "table": "another table of the same shape (every cell another symbol, other frequencies) drawn before with the same options",
              "step": "the same tables drawn before as scanned with another order step"}


def has_step(route):
    return route in ("stab", "ssi.stab", "ssidatms.stab")


def prior_of(case):
    """(cells, hide, step, df, shared, freqlim) of the discarded first drawing"""
    cells, hide, step, df, p = case["cells"], case["hide"], case["step"], case["df"], case["prior"]
    if p == "same":
        return cells, hide, step, df, True, None
    if p == "hide":
        return cells, not hide, step, df, True, None
    if p == "band":
        return cells, hide, step, df, True, LO_HI
    if p == "table":
        return cells.translate(_ROT), hide, step, 2 * df, False, None
    if p == "step":
        return cells, hide, STEPS[(STEPS.index(step) + 1) % len(STEPS)], df, False, None
    raise ValueError(p)


def run_history_case(t, case):
    import matplotlib.pyplot as plt

    R, C, cellstr = case["R"], case["C"], case["cells"]
    route, hide, with_cov, step, prior = case["route"], case["hide"], case["cov"], case["step"], case["prior"]
    Fn, Xi, Phi, Lab, cov = build(R, C, cellstr, df=case["df"])
    if not with_cov:
        cov = None
    cells_a, hide_a, step_a, df_a, shared, fl_a = prior_of(case)
    t.states += 1
    t.evaluations += 2
    cp = lambda v: None if v is None else v.copy()  # noqa: E731
    what = f"{NAME[route]}(hide_poles={hide}, step={step}) after {PRIOR_TEXT[prior]}"
    pre = f"[second of two drawings in one process: {PRIOR_TEXT[prior]}; order step {step}] "
    stage = "first"
    try:
        draw_b = make_drawer(route, Fn.copy(), Xi.copy(), Phi.copy(), Lab.copy(), cp(cov), 0, step)
        if shared:
            draw_a = draw_b
        else:
            Fa, Xa, Pa, La, ca = build(R, C, cells_a, df=df_a)
            draw_a = make_drawer(route, Fa, Xa, Pa, La, ca if with_cov else None, 0, step_a)
        before = snapshot(draw_b)
        fig_a, _ax_a = draw_a(hide_a, fl_a)
        plt.close(fig_a)
        plt.close("all")
        changed = changed_tables(before, draw_b)
        stage = "second"
        fig, ax = draw_b(hide, None)
    except Exception as e:
        plt.close("all")
        t.violation(f"raises:{type(e).__name__}:{NAME[route]}:history", f"{what}: the {stage} drawing raised {type(e).__name__}: {e}; "
                    f"table {R}x{C} cells={cellstr}", case)
        return
    try:
        t.transitions += 1
        t.validated += 1
        marks, ok = judge_table(t, case, route, Fn, Xi, Phi, Lab, cov, hide, None, fig, ax, step=step, sfx=":2nd-drawing", pre=pre)
        if shared:
            if changed and not ok:
                t.violation(f"{NAME[route]}:tables-changed-by-first-drawing:2nd-drawing",
                            f"{pre}{what}: the first drawing changed {changed} (the tables handed in / stored in the result are not byte-identical "
                            f"to what they were), and the second drawing does not show the original tables; table {R}x{C} cells={cellstr}", case)
            t.outcomes["history:tables-changed-by-first-drawing(second drawing right)" if changed and ok else
                       ("history:tables-changed-by-first-drawing" if changed else "history:tables-unchanged-by-first-drawing")] += 1
        if ok:
            if fl_a is not None and any(not inside(f, fl_a) for f in Fn[np.isfinite(Fn)]):
                t.outcomes["history:first-window-left-poles-outside"] += 1
            t.outcomes[f"history:agree:{route}"] += 1
            t.outcomes[f"history:prior={prior}"] += 1
            t.outcomes["history:step>1" if step > 1 else "history:step=1"] += 1
            if shared and "." in route:
                t.outcomes["history:same-algorithm-object"] += 1
            if step > 1 and any(y > C - 1 for _x, y in marks["stable"] + marks["unstable"]):
                t.outcomes["history:marker-above-column-count"] += 1      # an order value that is not a column index
        if set(cellstr) == set(SYM):
            t.nontrivial.add(("history", route, R, C, cellstr, hide, bool(with_cov), step, prior))
        if case.get("sample"):
            t.sample({"case": {k: v for k, v in case.items() if k != "sample"},
                      "stable_markers": marks["stable"], "unstable_markers": marks["unstable"]})
    finally:
        plt.close(fig)
        plt.close("all")


def isolated(func, case):
    """Run func(Tally, case) in a child forked from this process and return the child's Tally. The calling process must not have
    drawn anything with the library (the history cases are explored before every other case, and the workers only fork)."""
    r, w = os.pipe()
    pid = os.fork()
    if pid == 0:
        try:
            os.close(r)
            try:
                t = Tally()
                func(t, case)
                out = ("ok", t)
            except BaseException:
                out = ("exc", traceback.format_exc())
            with os.fdopen(w, "wb") as f:
                pickle.dump(out, f)
        finally:
            os._exit(0)
    os.close(w)
    with os.fdopen(r, "rb") as f:
        data = f.read()
    os.waitpid(pid, 0)
    if not data:
        raise RuntimeError(f"child process of history case {case} died without an answer")
    out = pickle.loads(data)
    if out[0] != "ok":
        raise RuntimeError(f"history case {case} failed in its child process:\n{out[1]}")
    return out[1]


# ---------------------------------------------------------------------------------------------
# CMIF
class _Marked:
    """the same tally; violation class keys get a suffix and messages a prefix (where the chart was drawn)"""

    def __init__(self, t, sfx, pre):
        self.__dict__["_t"], self.__dict__["_sfx"], self.__dict__["_pre"] = t, sfx, pre

    def __getattr__(self, k):
        return getattr(self._t, k)

    def __setattr__(self, k, v):
        setattr(self._t, k, v)

    def violation(self, key, msg, case):
        self._t.violation(key + self._sfx, self._pre + msg, case)


LEVELS = {"a": (4.0, 1.0, 0.5, 0.2), "b": (1.0, 0.6, 0.3, 0.05), "c": (9.0, 0.7, 0.65, 0.1),
          # rank-deficient line: a (near-)null singular value is still drawn at its own decibel level (-inf for exactly zero)
          "d": (2.0, 0.5, 3e-17, 0.0)}


def build_sv(nch, syms):
    L = len(syms)
    S = np.zeros((nch, nch, L))
    for j, s in enumerate(syms):
        S[:, :, j] = np.diag(np.array(LEVELS[s][:nch]) * (1 + 0.01 * j))
    return S, 0.5 * np.arange(L)


def judge_cmif(t, case, route, S, freq, nch, syms, nSv, freqlim, ax, ok=True):
    """one curve per requested singular value over the whole grid at its decibel level, nothing else; t: the tally with the class-key
    suffix / message prefix already applied (_Marked). -> (curves, number of curves required, ok)"""
    marks, bars, curves = read_axes(ax)
    n = nch if nSv == "all" else int(nSv)
    ref = S[0, 0, :].max()
    want = [10 * np.log10(S[k, k, :] / ref) for k in range(n)]
    if len(curves) != n:
        ok = False
        t.violation(f"{NAME[route]}:curve-count", f"{NAME[route]}: {len(curves)} curves drawn for nSv={nSv} on {nch} channels (required {n}); lines {syms}", case)
    else:
        free = list(range(len(curves)))
        for k, w in enumerate(want):
            hit = [j for j in free if curves[j].shape == (len(freq), 2) and np.array_equal(curves[j][:, 0], freq)
                   and np.allclose(curves[j][:, 1], w, rtol=1e-12, atol=1e-12)]
            if not hit:
                ok = False
                got = [np.round(curves[j][:, 1], 4).tolist() for j in free][:2]
                t.violation(f"{NAME[route]}:curve-values:{'first' if k == 0 else 'higher'}",
                            f"{NAME[route]}: no curve over the whole grid equals 10*log10(S_{k}/max S_0) = {np.round(w, 4).tolist()} "
                            f"(nSv={nSv}, {nch} channels, lines {syms}); unmatched curves start {got}", case)
                break
            free.remove(hit[0])
            t.err("cmif_dB", np.max(np.abs(curves[hit[0]][:, 1] - w)))
    if marks["stable"] or marks["unstable"] or marks["other"]:
        ok = False
        t.violation(f"{NAME[route]}:unexpected-markers", f"{NAME[route]}: marker artists on a singular-value plot", case)
    if freqlim is not None and tuple(float(v) for v in ax.get_xlim()) != tuple(float(v) for v in freqlim):
        ok = False
        t.violation(f"{NAME[route]}:xlim", f"{NAME[route]}: x-limits {ax.get_xlim()} differ from the requested {freqlim}", case)
    return curves, n, ok


def run_cmif_case(t, case):
    import matplotlib.pyplot as plt
    from pyoma2.functions import plot

    nch, syms, nSv, route, freqlim = case["nch"], case["syms"], case["nSv"], case["route"], case["freqlim"]
    freqlim = None if freqlim is None else tuple(freqlim)
    where, form = case.get("where", "own"), case.get("form", "fig+ax")
    if where in SUPPLIED and not takes_axes(route):
        raise ValueError(f"{route} takes no axes")
    sfx = "" if where == "own" else f":axes={where}"
    pre = "" if where == "own" else f"[{WHERE_TEXT[where]}; {FORM_TEXT[form] if where in SUPPLIED else 'fig=None, ax=None'}] "
    S, freq = build_sv(nch, syms)
    t.states += 1
    t.evaluations += 1
    plt.close("all")
    fig = None
    try:
        kw, ax_s, staged = supply_kw(where, form)
        if route == "cmif":
            fig, ax = plot.CMIF_plot(S.copy(), freq.copy(), freqlim=freqlim, nSv=nSv, **kw)
        else:
            from pyoma2.algorithms import FDD
            from pyoma2.algorithms.data.result import FDDResult

            a = FDD(name="f", nxseg=64)
            a._set_data(np.zeros((10, nch)), 20.0)
            a.result = FDDResult(freq=freq.copy(), Sy=np.zeros((nch, nch, len(freq))), S_val=S.copy(), S_vec=np.zeros((nch, nch, len(freq))))
            fig, ax = a.plot_CMIF(freqlim=freqlim, nSv=nSv)
    except Exception as e:
        plt.close("all")
        t.violation(f"raises:{type(e).__name__}:{NAME[route]}{sfx}", f"{pre}{NAME[route]}(nSv={nSv}) raised {type(e).__name__}: {e} for {nch} channels, lines {syms}", case)
        return
    try:
        t.transitions += 1
        t.validated += 1
        ax, ok = judge_place(t, case, route, where, form, ax, ax_s, staged, pre=pre)      # the supplied axes are the judged ones
        t = _Marked(t, sfx, pre)
        curves, n, ok = judge_cmif(t, case, route, S, freq, nch, syms, nSv, freqlim, ax, ok)
        if ok:
            t.outcomes[f"agree:{route}"] += 1
            t.outcomes["cmif:all" if nSv == "all" else "cmif:subset"] += 1
            t.outcomes[f"axes={where}:agree"] += 1
            if where in SUPPLIED:
                t.outcomes[f"axes-supplied-as:{form}"] += 1
                t.outcomes[f"axes={where}:curves-on-supplied-axes"] += 1
        pk0 = int(np.argmax(S[0, 0, :]))
        if n >= 2 and any(int(np.argmax(S[k, k, :])) != pk0 for k in range(1, n)):
            t.nontrivial.add((route, nch, syms, str(nSv), freqlim is not None) + (() if where == "own" else (where, form)))
        if case.get("sample"):
            t.sample({"case": {k: v for k, v in case.items() if k != "sample"}, "curves_dB": [np.round(c[:, 1], 3).tolist() for c in curves]})
    finally:
        if fig is not None:
            plt.close(fig)
        plt.close("all")


# ---------------------------------------------------------------------------------------------
# two charts alive at once: chart A drawn and KEPT (nothing closed), chart B drawn, then both judged against their own tables
PARTNERS = ("same-route", "other-side", "other-class", "other-chart")
PARTNER_TEXT = {"same-route": "another table / singular-value array through the same route (class routes: another algorithm object of the same class)",
                "other-side": "another table / singular-value array through the other side of the same chart kind (plot function <-> class method)",
                "other-class": "another table through the plot method of an algorithm object of another class (same chart kind)",
                "other-chart": "the same tables (same arrays / same algorithm object) as the other chart kind (stabilisation <-> frequency-damping)"}
_CLASS_RING = ("ssi", "pl", "ssidatms", "plms")
ALIVE_WHERES = ("own", "current", "unmanaged")        # fig= and ax= supplied (call form 'fig+ax') where a route takes axes
CMIF_ROUTES = ("cmif", "fdd.cmif")


def partner_route(route, partner):
    """the route of the second chart; None where the family has no such partner (singular-value plots: one class, one chart kind)"""
    if partner == "same-route":
        return route
    if route in CMIF_ROUTES:
        return {"cmif": "fdd.cmif", "fdd.cmif": "cmif"}[route] if partner == "other-side" else None
    fam, _dot, what = route.rpartition(".")
    if partner == "other-side":
        return what if fam else "ssi." + what
    if partner == "other-class":
        return ("plms" if not fam else _CLASS_RING[(_CLASS_RING.index(fam) + 1) % len(_CLASS_RING)]) + "." + what
    if partner == "other-chart":
        other = "cluster" if what == "stab" else "stab"
        return fam + "." + other if fam else other
    raise ValueError(partner)


class _Recase(_Marked):
    """_Marked, and every violation carries the whole two-chart case (the judging routines are handed a view of one chart)"""

    def __init__(self, t, case, sfx="", pre=""):
        super().__init__(t, sfx, pre)
        self.__dict__["_case"] = case

    def violation(self, key, msg, _view):
        self._t.violation(key + self._sfx, self._pre + msg, self._case)


class _Chart:
    """one of the two charts: what is drawn (route, data, options), and after draw(): what came back"""

    fig = ax = ax_s = None
    staged = ()

    def draw(self):
        self.fig, self.ax = self._draw()
        return self

    @property
    def judged(self):
        return self.ax if self.ax_s is None else self.ax_s


def _table_chart(route, R, C, cells, df, hide, freqlim, with_cov, where, share=None):
    """share: a chart already set up; this one draws the SAME arrays / the SAME algorithm object (as the other chart kind)"""
    ch = _Chart()
    ch.kind, ch.route, ch.where, ch.hide, ch.freqlim = "table", route, where, hide, freqlim
    ch.view = {"R": R, "C": C, "cells": cells}
    Fn, Xi, Phi, Lab, cov = build(R, C, cells, df=df)
    ch.ref = (Fn, Xi, Phi, Lab, cov if with_cov else None)
    if share is None:
        ch.arrays = (Fn.copy(), Xi.copy(), Phi.copy(), Lab.copy(), cov.copy() if with_cov else None)
        ch.drawer = make_drawer(route, *ch.arrays, 0, 1, where, "fig+ax")
    elif share.drawer.alg is None:
        ch.arrays = share.arrays
        ch.drawer = make_drawer(route, *ch.arrays, 0, 1, where, "fig+ax")
    else:
        ch.arrays = share.arrays
        a = share.drawer.alg
        meth = a.plot_stab if route.endswith(".stab") else a.plot_cluster

        def drawer(hide, freqlim):
            return meth(freqlim=freqlim, hide_poles=hide)

        drawer.handed, drawer.alg, drawer.supplied = share.drawer.handed, a, (None, [])
        ch.drawer = drawer

    def _draw():
        out = ch.drawer(hide, freqlim)
        ch.ax_s, ch.staged = ch.drawer.supplied
        return out

    ch._draw = _draw
    ch.text = f"{NAME[route]}(hide_poles={hide}, freqlim={freqlim}) of the {R}x{C} table cells={cells}"
    return ch


def _cmif_chart(route, nch, syms, nSv, freqlim, where):
    from pyoma2.functions import plot

    ch = _Chart()
    ch.kind, ch.route, ch.where, ch.freqlim = "cmif", route, where, freqlim
    ch.nch, ch.syms, ch.nSv = nch, syms, nSv
    S, freq = build_sv(nch, syms)
    ch.ref = (S, freq)
    if route == "fdd.cmif":
        from pyoma2.algorithms import FDD
        from pyoma2.algorithms.data.result import FDDResult

        a = FDD(name="f", nxseg=64)
        a._set_data(np.zeros((10, nch)), 20.0)
        a.result = FDDResult(freq=freq.copy(), Sy=np.zeros((nch, nch, len(freq))), S_val=S.copy(), S_vec=np.zeros((nch, nch, len(freq))))

    def _draw():
        kw, ch.ax_s, ch.staged = supply_kw(where, "fig+ax")
        if route == "cmif":
            return plot.CMIF_plot(S.copy(), freq.copy(), freqlim=freqlim, nSv=nSv, **kw)
        return a.plot_CMIF(freqlim=freqlim, nSv=nSv)

    ch._draw = _draw
    ch.text = f"{NAME[route]}(nSv={nSv}, freqlim={freqlim}) of {nch} channels, lines {syms}"
    return ch


def _judge_chart(t, case, ch, sfx, pre):
    """the chart's own tables / singular values against what its axes carry now; -> ok"""
    if ch.kind == "table":
        Fn, Xi, Phi, Lab, cov = ch.ref
        _marks, ok = judge_table(_Recase(t, case), ch.view, ch.route, Fn, Xi, Phi, Lab, cov, ch.hide, ch.freqlim, ch.fig, ch.judged,
                                 sfx=sfx, pre=pre)
        return ok
    S, freq = ch.ref
    _curves, _n, ok = judge_cmif(_Recase(t, case, sfx, pre), {}, ch.route, S, freq, ch.nch, ch.syms, ch.nSv, ch.freqlim, ch.judged)
    return ok


def alive_charts(case):
    """(chart A, chart B) of a two-alive case, set up and not yet drawn"""
    route, partner = case["route"], case["partner"]
    route_b = partner_route(route, partner)
    fl = lambda v: None if v is None else tuple(v)  # noqa: E731
    wa, wb = case.get("where", "own"), case.get("where_b", "own")
    for r, w in ((route, wa), (route_b, wb)):
        if w != "own" and not takes_axes(r):
            raise ValueError(f"{r} takes no axes")
    if route in CMIF_ROUTES:
        A = _cmif_chart(route, case["nch"], case["syms"], case["nSv"], fl(case["freqlim"]), wa)
        B = _cmif_chart(route_b, case["nch_b"], case["syms_b"], case["nSv_b"], fl(case["freqlim_b"]), wb)
        return A, B
    A = _table_chart(route, case["R"], case["C"], case["cells"], case["df"], case["hide"], fl(case["freqlim"]), case["cov"], wa)
    if partner == "other-chart":
        B = _table_chart(route_b, case["R"], case["C"], case["cells"], case["df"], case["hide_b"], fl(case["freqlim_b"]), case["cov"], wb, share=A)
    else:
        B = _table_chart(route_b, case["R_b"], case["C_b"], case["cells_b"], case["df_b"], case["hide_b"], fl(case["freqlim_b"]), case["cov"], wb)
    return A, B


def run_alive_case(t, case):
    import matplotlib.pyplot as plt

    route, partner = case["route"], case["partner"]
    route_b = partner_route(route, partner)
    t.states += 1
    t.evaluations += 2
    head = f"[two charts alive in one process, nothing closed in between; the second chart: {PARTNER_TEXT[partner]}] "
    stage = "first"
    A = B = None
    try:
        A, B = alive_charts(case)
        before = snapshot(A.drawer) if A.kind == "table" else None
        A.draw()
        ok_a0 = _judge_chart(t, case, A, ":two-alive:first-before-second", head + f"FIRST chart, {A.text}, judged before the second one is drawn: ")
        stage = "second"
        B.draw()
    except Exception as e:
        plt.close("all")
        t.violation(f"raises:{type(e).__name__}:{NAME[route if stage == 'first' else route_b]}:two-alive",
                    f"{head}the {stage} drawing raised {type(e).__name__}: {e}; first chart {A.text if A else route}, second chart {B.text if B else route_b}", case)
        return
    try:
        t.transitions += 1
        t.validated += 1
        ok = ok_a0
        after = f"after the second chart, {B.text}, was drawn"
        # ---- what was returned: two charts, two figures, two axes, each axes still part of its figure; supplied axes returned
        for tag, ch in (("first", A), ("second", B)):
            if ch.ax_s is not None and ch.ax is not ch.ax_s:
                ok = False
                t.violation(f"{NAME[ch.route]}:returned-axes-not-the-supplied:two-alive:{tag}",
                            f"{head}{tag.upper()} chart, {ch.text}: the returned axes are not the supplied ones ({WHERE_TEXT[ch.where]})", case)
        if A.fig is B.fig or A.judged is B.judged:
            ok = False
            t.violation(f"{NAME[route_b]}:second-chart-returned-on-{'figure' if A.judged is not B.judged else 'axes'}-of-the-first:two-alive",
                        f"{head}the second chart, {B.text}, was returned on the same {'Figure' if A.judged is not B.judged else 'Axes'} object as the first "
                        f"chart, {A.text}, which is still alive (first: {WHERE_TEXT[A.where]}; second: {WHERE_TEXT[B.where]})", case)
        else:
            t.outcomes["alive:two-figures-two-axes"] += 1
        for tag, ch in (("first", A), ("second", B)):
            if ch.judged.figure is not ch.fig or ch.judged not in ch.fig.axes:
                ok = False
                t.violation(f"{NAME[ch.route]}:returned-axes-no-longer-on-returned-figure:two-alive:{tag}",
                            f"{head}{tag.upper()} chart, {ch.text}, {after}: its axes are not (any more) among the axes of its figure "
                            f"(the figure has {len(ch.fig.axes)} axes)", case)
            extra = [(i, artists_on(a)) for i, a in enumerate(ch.fig.axes) if a is not ch.judged and artists_on(a)]
            if extra:
                ok = False
                t.violation(f"{NAME[ch.route]}:foreign-artists-on-returned-figure:two-alive:{tag}",
                            f"{head}{tag.upper()} chart, {ch.text}, {after}: its figure carries other axes with artists {extra[:3]}", case)
        # ---- the charts themselves
        ok_a = _judge_chart(t, case, A, ":two-alive:first-after-second", head + f"FIRST chart, {A.text}, judged again {after}"
                            f"{' (it was right before)' if ok_a0 else ''}: ")
        ok_b = _judge_chart(t, case, B, ":two-alive:second", head + f"SECOND chart, {B.text}, drawn while the first one, {A.text}, is alive: ")
        ok = ok and ok_a and ok_b
        # ---- nothing anywhere else
        keep = {id(A.judged), id(B.judged)}
        seen, stray = set(keep), []
        managed = [a for n in plt.get_fignums() for a in plt.figure(n).axes]
        for a in list(A.staged) + list(B.staged) + managed:
            if id(a) not in seen:
                seen.add(id(a))
                if artists_on(a):
                    stray.append(artists_on(a))
        if stray:
            ok = False
            t.violation(f"{NAME[route_b]}:artists-on-other-axes:two-alive", f"{head}artists on axes that belong to neither chart: {stray[:3]}; first chart "
                        f"{A.text}, second chart {B.text}", case)
        if before is not None:
            ch = changed_tables(before, A.drawer)
            t.outcomes["alive:tables-of-first-chart-changed(recorded)" if ch else "alive:tables-of-first-chart-unchanged"] += 1
        if ok:
            t.outcomes[f"alive:agree:{route}"] += 1
            t.outcomes[f"alive:second-through:{route_b}"] += 1
            t.outcomes[f"alive:partner={partner}"] += 1
            t.outcomes[f"alive:axes={A.where}+{B.where}"] += 1
            if A.kind == "table":
                Fn, _Xi, _Phi, Lab, _cov = A.ref
                if (Lab == 1).any():
                    t.outcomes["alive:first-chart-shows-its-stable-poles-after-second"] += 1
                if not A.hide and ((Lab != 1) & np.isfinite(Fn)).any():
                    t.outcomes["alive:first-chart-shows-its-unstable-poles-after-second"] += 1
                if partner == "other-chart" and "." in route:
                    t.outcomes["alive:both-charts-of-one-algorithm-object"] += 1
            else:
                t.outcomes["alive:first-chart-shows-its-curves-after-second"] += 1
        if A.kind == "table":
            if set(case["cells"]) == set(SYM):
                t.nontrivial.add(("alive", route, partner, case["R"], case["C"], case["cells"], case["hide"], bool(case["cov"]), A.where, B.where))
        else:
            S = A.ref[0]
            n = A.nch if A.nSv == "all" else int(A.nSv)
            pk0 = int(np.argmax(S[0, 0, :]))
            if n >= 2 and any(int(np.argmax(S[k, k, :])) != pk0 for k in range(1, n)):
                t.nontrivial.add(("alive", route, partner, A.nch, A.syms, str(A.nSv), A.where, B.where))
        if case.get("sample"):
            marks, _bars, curves = read_axes(A.judged)
            t.sample({"case": {k: v for k, v in case.items() if k != "sample"}, "first_chart_after_second": {
                "stable_markers": marks["stable"], "unstable_markers": marks["unstable"], "curves": len(curves)}})
    finally:
        plt.close("all")


# ---------------------------------------------------------------------------------------------
def all_cells(R, C):
    return ["".join(c) for c in itertools.product(SYM, repeat=R * C)]


def table_cases(thorough):
    cases = []

    def add(R, C, cellsets, routes, hides=(True, False), freqlims=(None,), covs=(False,), df=0.1, ordmins=(0,), wheres=("own",),
            forms=("fig+ax",)):
        for cells in cellsets:
            for route in routes:
                for hide in hides:
                    for fl in freqlims:
                        for cv in (covs if has_cov(route) else (False,)):
                            for om in ordmins:
                                for wh in wheres:
                                    if wh in SUPPLIED and not takes_axes(route):
                                        continue
                                    for fm in (forms if wh in SUPPLIED else ("fig+ax",)):
                                        c = {"kind": "table", "route": route, "R": R, "C": C, "cells": cells, "hide": hide,
                                             "freqlim": fl, "cov": cv, "df": df}
                                        if om:
                                            c["ordmin"] = om
                                        if wh != "own":
                                            c["where"], c["form"] = wh, fm
                                        cases.append(c)

    both = (None, LO_HI)
    cls_routes = ("ssi.stab", "ssi.cluster", "pl.stab", "pl.cluster")
    ms_routes = ("ssidatms.stab", "ssidatms.cluster", "plms.stab", "plms.cluster")
    pats = ["".join(p) for p in itertools.product(SYM, repeat=3)]
    perms = ["".join(p) for p in itertools.permutations(SYM)]
    all_routes = ("stab", "cluster") + cls_routes + ms_routes
    if not thorough:
        # where the chart is drawn: every 2x2 table on every kind of supplied axes (the plot function that takes fig= / ax=), both
        # hide_poles values; the window / covariance / call-form combination is rotated with the table index so that every
        # (where, hide_poles, window, covariance, form) combination occurs; a covering set with everything crossed; 60 orders
        for i, cells in enumerate(all_cells(2, 2)):
            add(2, 2, [cells], ("stab",), freqlims=(both[i % 2],), covs=((i // 2) % 2 == 1,), wheres=SUPPLIED, forms=(FORMS[(i // 4) % 2],))
        for i, p in enumerate(perms):
            add(2, 3, [banded_cells(2, 3, p)], ("stab",), freqlims=both, covs=(False, True), wheres=SUPPLIED, forms=(FORMS[i % 2],))
        add(3, 60, [banded_cells(3, 60, p) for p in perms[:2]], ("stab",), hides=(False,), covs=(True,), df=0.01, wheres=SUPPLIED)
        # own figure while a two-panel figure of the caller exists: every route
        add(2, 3, [banded_cells(2, 3, p) for p in perms], all_routes, covs=(True,), wheres=("beside",))
        add(2, 3, all_cells(2, 3), ("stab", "cluster"))
        add(2, 2, all_cells(2, 2), ("stab", "cluster") + cls_routes, freqlims=both, covs=(False, True))
        add(2, 3, all_cells(2, 3)[::23], ("stab", "cluster", "ssi.stab", "ssi.cluster", "pl.cluster"), ordmins=(1, 2))   # non-default ordmin
        cover34 = [banded_cells(3, 4, p) for p in pats] + single_cells(3, 4)
        add(3, 4, cover34, ("stab", "cluster"))
        add(3, 60, [banded_cells(3, 60, p) for p in pats], ("stab", "cluster", "ssi.stab"), covs=(True,), df=0.01)
    else:
        for i, cells in enumerate(all_cells(2, 3)):
            add(2, 3, [cells], ("stab",), freqlims=both, covs=(False, True), wheres=SUPPLIED, forms=(FORMS[i % 2],))
        add(3, 4, [banded_cells(3, 4, p) for p in pats] + single_cells(3, 4), ("stab",), freqlims=both, covs=(False, True), wheres=SUPPLIED)
        for C in (20, 60):
            add(3, C, [banded_cells(3, C, p) for p in perms], ("stab",), covs=(False, True), df=0.01, wheres=SUPPLIED, forms=FORMS)
        add(2, 3, sorted(set(all_cells(2, 3)[::7] + [banded_cells(2, 3, p) for p in perms])), all_routes, freqlims=both, covs=(True,), wheres=("beside",))
        add(3, 3, all_cells(3, 3), ("stab", "cluster"))
        add(2, 4, all_cells(2, 4), ("stab",))
        add(2, 3, all_cells(2, 3), ("stab", "cluster") + cls_routes, freqlims=both, covs=(False, True))
        add(2, 3, all_cells(2, 3), ("stab", "cluster") + cls_routes, ordmins=(1, 2))
        add(2, 2, all_cells(2, 2), ms_routes, freqlims=both, covs=(False, True))
        cover34 = [banded_cells(3, 4, p) for p in pats] + single_cells(3, 4)
        add(3, 4, cover34, ("stab", "cluster") + cls_routes, freqlims=both, covs=(False, True))
        for C in (20, 40, 60):
            add(3, C, [banded_cells(3, C, p) for p in pats], ("stab", "cluster", "ssi.stab", "pl.stab"), covs=(False, True), df=0.01)
    return cases


def history_cases(thorough):
    cases = []

    def add(R, C, cellsets, routes, steps=STEPS, covs=(False, True), df=0.1):
        for cells in cellsets:
            for route in routes:
                for step in (steps if has_step(route) else (1,)):
                    for prior in PRIORS:
                        if prior == "step" and not has_step(route):
                            continue
                        if prior == "band" and not thorough and step != steps[0] and has_step(route):
                            continue               # quick tier: the window history is crossed with the first order step of the family only
                        for hide in (True, False):
                            for cv in (covs if has_cov(route) else (False,)):
                                cases.append({"kind": "history", "route": route, "R": R, "C": C, "cells": cells, "hide": hide,
                                              "freqlim": None, "cov": cv, "df": df, "step": step, "prior": prior})

    perms = ["".join(p) for p in itertools.permutations(SYM)]
    cls_routes = ("ssi.cluster", "pl.stab", "pl.cluster")
    if not thorough:
        # 6 banded tables per shape: every cell takes every symbol, every table holds all three
        add(2, 3, [banded_cells(2, 3, p) for p in perms], ("stab", "cluster") + cls_routes)
        add(2, 3, [banded_cells(2, 3, p) for p in perms], ("ssi.stab",), covs=(True,))
        add(3, 4, [banded_cells(3, 4, p) for p in perms], ("stab", "ssi.stab"), steps=(2, 3), covs=(True,))
    else:
        pats = ["".join(p) for p in itertools.product(SYM, repeat=3)]
        add(2, 3, all_cells(2, 3)[::14] + [banded_cells(2, 3, p) for p in perms], ("stab", "cluster", "ssi.stab") + cls_routes)
        add(2, 2, all_cells(2, 2)[::3], ("ssidatms.stab", "ssidatms.cluster", "plms.stab", "plms.cluster"))
        add(3, 4, [banded_cells(3, 4, p) for p in pats], ("stab", "ssi.stab"))
        add(3, 20, [banded_cells(3, 20, p) for p in perms], ("stab", "ssi.stab"), steps=(2, 3), df=0.01)
    return cases


def alive_cases(thorough):
    """Two charts alive at once. Every table route and both singular-value routes as the FIRST chart x every partner the family has x
    6 banded tables (hide_poles / covariance / window of the second chart rotated with the table index in the quick tier, crossed in
    the thorough tier); where a route takes axes, every combination of own / supplied-current / supplied-unmanaged for the two charts."""
    cases = []
    perms = ["".join(p) for p in itertools.permutations(SYM)]

    def where_pairs(ra, rb):
        wa = ALIVE_WHERES if takes_axes(ra) else ("own",)
        wb = ALIVE_WHERES if takes_axes(rb) else ("own",)
        return [(a, b) for a in wa for b in wb]

    def table_case(route, partner, i, p, hide, hide_b, cv, fl_b, wa, wb):
        c = {"kind": "alive", "route": route, "partner": partner, "R": 2, "C": 3, "cells": banded_cells(2, 3, p), "df": 0.1, "hide": hide,
             "freqlim": None, "cov": bool(cv and has_cov(route)), "hide_b": hide_b, "freqlim_b": fl_b}
        if partner != "other-chart":
            # another table: every cell another symbol, other frequencies; every second one of another shape as well
            Rb, Cb = ((2, 3), (3, 4))[i % 2]
            c.update({"R_b": Rb, "C_b": Cb, "cells_b": banded_cells(Rb, Cb, p.translate(_ROT)), "df_b": 0.2})
        if (wa, wb) != ("own", "own"):
            c["where"], c["where_b"] = wa, wb
        return c

    for route in TABLE_ROUTES:
        for partner in PARTNERS:
            rb = partner_route(route, partner)
            for wa, wb in where_pairs(route, rb):
                own = (wa, wb) == ("own", "own")
                for i, p in enumerate(perms):
                    if not own and not thorough and i >= 2:
                        continue                       # quick tier: supplied axes with the first two tables
                    if thorough:
                        combos = [(h, hb, cv, fl) for h in (True, False) for hb in (True, False) for cv in (False, True)[:1 + has_cov(route)]
                                  for fl in (None, LO_HI)]
                    else:
                        h = i % 2 == 0
                        combos = [(h, h if (i // 2) % 2 else not h, (i // 2) % 2 == 0, (None, LO_HI)[(i // 3) % 2])]
                    for h, hb, cv, fl in combos:
                        cases.append(table_case(route, partner, i, p, h, hb, cv, fl, wa, wb))
    L = 6 if thorough else 4
    allsyms = ["".join(p) for p in itertools.product("abc", repeat=L)]
    for route in CMIF_ROUTES:
        for partner in PARTNERS:
            rb = partner_route(route, partner)
            if rb is None:
                continue
            for wa, wb in where_pairs(route, rb):
                own = (wa, wb) == ("own", "own")
                for nch in (2, 3, 4):
                    sub = allsyms[5::(31 if thorough else 29)] + ([("dcba" * L)[:L]] if nch >= 3 else [])
                    if not own:
                        sub = sub[:4 if thorough else 1]                 # supplied axes: with the first arrays
                    for i, syms in enumerate(sub):
                        if thorough:
                            nsvs = ["all"] + list(range(1, nch))
                        else:
                            nsvs = [("all", 1)[i % 2]] + ([nch - 1] if nch > 2 else [])
                        for nSv in nsvs:
                            nch_b = 2 + (nch - 1) % 3                                      # 2 -> 3 -> 4 -> 2
                            c = {"kind": "alive", "route": route, "partner": partner, "nch": nch, "syms": syms, "nSv": nSv, "freqlim": None,
                                 "nch_b": nch_b, "syms_b": syms[::-1].translate(str.maketrans("abcd", "bcad")),
                                 "nSv_b": 1 if nSv == "all" else "all", "freqlim_b": (None, (0.4, 1.2))[i % 2]}
                            if not own:
                                c["where"], c["where_b"] = wa, wb
                            cases.append(c)
    return cases


def cmif_cases(thorough):
    L = 6 if thorough else 4
    cases = []
    for nch in (2, 3, 4):
        for syms in itertools.product("abc", repeat=L):
            for nSv in ["all"] + list(range(1, nch)):
                for route in ("cmif", "fdd.cmif"):
                    for fl in (None, (0.4, 1.2)):
                        cases.append({"kind": "cmif", "route": route, "nch": nch, "syms": "".join(syms), "nSv": nSv, "freqlim": fl})
        if nch >= 3:
            for syms in ("d" * L, ("ad" * L)[:L], ("dcba" * L)[:L]):
                for nSv in ["all"] + list(range(1, nch)):
                    for route in ("cmif", "fdd.cmif"):
                        cases.append({"kind": "cmif", "route": route, "nch": nch, "syms": syms, "nSv": nSv, "freqlim": None})
        # where the chart is drawn: supplied axes of every kind through plot.CMIF_plot; own figure beside a figure of the caller
        allsyms = ["".join(p) for p in itertools.product("abc", repeat=L)]
        sub = allsyms[::13 if thorough else 16]
        if nch >= 3:
            sub = sub + [("dcba" * L)[:L]]                      # with a rank-deficient line
        for i, syms in enumerate(sub):
            for nSv in ["all"] + list(range(1, nch)):
                for fl in (None, (0.4, 1.2)):
                    for wh in SUPPLIED:
                        for fm in (FORMS if thorough else (FORMS[i % 2],)):
                            cases.append({"kind": "cmif", "route": "cmif", "nch": nch, "syms": syms, "nSv": nSv, "freqlim": fl,
                                          "where": wh, "form": fm})
                    for route in ("cmif", "fdd.cmif"):
                        if fl is None or thorough:
                            cases.append({"kind": "cmif", "route": route, "nch": nch, "syms": syms, "nSv": nSv, "freqlim": fl,
                                          "where": "beside", "form": "fig+ax"})
    return cases


def _work_history(chunk):
    t = Tally()
    for case in chunk:
        t.merge(isolated(run_alive_case if case["kind"] == "alive" else run_history_case, case))
    return t


def _work(chunk):
    t = Tally()
    for case in chunk:
        if case["kind"] in ("history", "alive"):
            raise RuntimeError("history and two-alive cases are explored through _work_history (fresh child process per case)")
        if case["kind"] == "table":
            run_table_case(t, case)
        else:
            run_cmif_case(t, case)
    return t


def _warm_matplotlib():
    """One plain matplotlib figure (no library code): font lookup and text layout caches are filled before the workers are forked."""
    import matplotlib.pyplot as plt

    fig, ax = plt.subplots(figsize=(8, 6), tight_layout=True)
    ax.plot([0.0, 1.0], [0.0, 1.0], "go", markersize=7, label="a")
    ax.scatter([0.5], [0.5], marker="o", s=4, c="r", label="b")
    ax.errorbar([0.2], [0.2], xerr=[0.1], fmt="None", capsize=5, ecolor="gray")
    ax.set_title("t")
    ax.set_xlabel("x")
    ax.set_ylabel("y")
    ax.legend(loc="lower center", ncol=2)
    ax.grid()
    plt.tight_layout()
    fig.canvas.draw()
    plt.close(fig)
    plt.close("all")


def explore(ctx):
    import matplotlib

    matplotlib.use("Agg")
    import matplotlib.pyplot as plt  # noqa: F401
    import pyoma2.algorithms  # noqa: F401
    from pyoma2.functions import plot  # noqa: F401

    tc = table_cases(ctx.thorough)
    cc = cmif_cases(ctx.thorough)
    hc = history_cases(ctx.thorough)
    ac = alive_cases(ctx.thorough)
    for c in ac:                       # one written-out sample: both cluster diagrams of two algorithm objects alive
        if c["route"] == "ssi.cluster" and c["partner"] == "other-class" and not c["hide"]:
            c["sample"] = True
            break
    for c in hc:                       # one written-out sample: first class-route history case with an order step above 1
        if c["route"] == "ssi.stab" and c["step"] > 1 and c["prior"] == "hide" and not c["hide"]:
            c["sample"] = True
            break
    seen_routes = set()
    for c in tc:                       # written-out samples: first table with all three symbols per route (at most 5)
        if c["route"] not in seen_routes and set(c["cells"]) == set(SYM) and not c["hide"] and len(seen_routes) < 5:
            seen_routes.add(c["route"])
            c["sample"] = True
    cc[len(cc) // 3]["sample"] = True
    by = {}
    for c in tc:
        by.setdefault((c["R"], c["C"]), set()).add(c["route"])
    ctx.bounds = {
        "cell_alphabet": {"N": "NaN (rejected pole)", "S": "retained, label 1", "U": "retained, label 0"},
        "tables": {f"{R}x{C}": {"routes": sorted(v), "tables": len({c["cells"] for c in tc if (c["R"], c["C"]) == (R, C)})} for (R, C), v in sorted(by.items())},
        "table_families": ("every assignment of the alphabet to the cells for 2x2, 2x3" + (", 2x4, 3x3" if ctx.thorough else "") +
                           "; 3x4: covering subset = 27 banded tables (column c = 3-symbol pattern rotated by c) + 24 single-pole tables; "
                           "banded family with " + ("20, 40, 60" if ctx.thorough else "60") + " orders"),
        "hide_poles": [True, False], "freqlim": [None, list(LO_HI)], "covariance_table": [None, "mixed small/large (|cov*Fn| below and above 0.5)"],
        "step": {"single drawings": 1, "history cases": list(STEPS)}, "ordmin": [0, 1, 2],
        "where_the_chart_is_drawn": {
            "values": WHERE_TEXT, "call_forms": FORM_TEXT,
            "table_cases": {w: sum(1 for c in tc if c.get("where", "own") == w) for w in WHERES},
            "cmif_cases": {w: sum(1 for c in cc if c.get("where", "own") == w) for w in WHERES},
            "supplied_axes_routes": ["plot.stab_plot", "plot.CMIF_plot"],
            "supplied_axes_tables": ("every 2x2 table x hide_poles x the four kinds of supplied axes (window / covariance / call form rotated with the "
                                     "table index); 6 banded 2x3 tables x hide_poles x window x covariance x kind (call form alternating); banded 60-order tables"
                                     if not ctx.thorough else
                                     "every 2x3 table x hide_poles x window x covariance x the four kinds of supplied axes (call form rotated); the 3x4 "
                                     "covering subset; banded 20- and 60-order tables x call form"),
            "beside": "6 banded 2x3 tables (thorough: + every 7th 2x3 table, with and without window) x hide_poles through every table route; CMIF subset through both routes"},
        "history": {"what": "chart A drawn and discarded, then chart B of tables of the same shape drawn and judged, both in one child process forked "
                            "from a process that has not drawn any chart (one child per case)",
                    "prior_drawing": PRIOR_TEXT, "order_step": list(STEPS),
                    "band_history_steps": "every order step" if ctx.thorough else "order step 1 on the 2x3 tables, 2 on the 3x4 tables", "hide_poles": [True, False],
                    "covariance_table": [None, "mixed"], "freqlim": {"judged drawing": [None], "first drawing": [None, list(LO_HI)]},
                    "tables_compared_bytewise_after_first_drawing": True,
                    "tables": {f"{R}x{C}": {"routes": sorted({c["route"] for c in hc if (c["R"], c["C"]) == (R, C)}),
                                            "steps": sorted({c["step"] for c in hc if (c["R"], c["C"]) == (R, C)}),
                                            "tables": len({c["cells"] for c in hc if (c["R"], c["C"]) == (R, C)})}
                               for (R, C) in sorted({(c["R"], c["C"]) for c in hc})},
                    "table_family": "banded tables (column c = pattern rotated by c) over the 6 orders of the 3 symbols" +
                                    ("; every 14th 2x3 table, every 3rd 2x2 table, all 27 banded 3x4 tables, banded 3x20" if ctx.thorough else ""),
                    "cases": len(hc)},
        "cmif": {"channels": [2, 3, 4], "lines": 6 if ctx.thorough else 4, "symbols_per_line": LEVELS, "nSv": "all, 1..n-1",
                 "routes": ["plot.CMIF_plot", "FDD.plot_CMIF"], "freqlim": [None, [0.4, 1.2]]},
        "two_charts_alive": {
            "what": "chart A drawn and kept (nothing closed), chart B drawn, then A judged AGAIN against its own tables / singular values (it is also "
                    "judged before B is drawn) and B against its own; the two returned figures and the two judged axes must be distinct objects, each "
                    "judged axes must still belong to its returned figure, and no other axes may carry an artist; one child process per case, forked "
                    "from a process that has not drawn any chart",
            "first_chart_routes": sorted({NAME[c["route"]] for c in ac}), "second_chart": PARTNER_TEXT,
            "second_chart_routes": sorted({NAME[partner_route(c["route"], c["partner"])] for c in ac}),
            "tables": "first chart: 6 banded 2x3 tables; second chart: the table with every cell another symbol and other frequencies, 2x3 or 3x4 "
                      "(alternating), or the same arrays / algorithm object as the other chart kind; hide_poles of both charts, covariance and a "
                      "frequency window of the SECOND chart " + ("crossed" if ctx.thorough else "rotated with the table index"),
            "singular_values": "2, 3, 4 channels (second chart: another channel count, other lines, the other nSv form)",
            "where": {"values": list(ALIVE_WHERES), "pairs": {f"{a}+{b}": sum(1 for c in ac if (c.get("where", "own"), c.get("where_b", "own")) == (a, b))
                                                               for a in ALIVE_WHERES for b in ALIVE_WHERES},
                      "note": "supplied axes only where the route takes fig= / ax= (plot.stab_plot, plot.CMIF_plot); call form fig= and ax="},
            "cases": {"tables": sum(1 for c in ac if "cells" in c), "singular_values": sum(1 for c in ac if "syms" in c)}},
        "figures": len(tc) + len(cc) + 2 * len(hc) + 2 * len(ac),
    }
    # history cases FIRST: the pool is created here, from a process that has drawn nothing, and during this phase the workers only
    # fork one child per case, so every history case starts from the state of a fresh process (and leaves no state behind)
    _warm_matplotlib()
    hac = hc + ac
    ctx.pmap(_work_history, [hac[i:i + 12] for i in range(0, len(hac), 12)], chunksize=1)
    # interleave cheap and expensive cases; ~24 figures per item
    items = [tc[i:i + 24] for i in range(0, len(tc), 24)] + [cc[i:i + 96] for i in range(0, len(cc), 96)]
    ctx.pmap(_work, items, chunksize=1)
    routes = sorted({c["route"] for c in tc} | {c["route"] for c in cc})
    ctx.require(*[f"agree:{r}" for r in routes], "stable-markers-drawn", "unstable-markers-drawn", "unstable-poles-hidden",
                "window-cuts-poles", "errorbars-agree", "cmif:all", "cmif:subset")
    ctx.require(*[f"history:agree:{r}" for r in sorted({c["route"] for c in hc})], *[f"history:prior={p}" for p in PRIORS],
                "history:step=1", "history:step>1", "history:same-algorithm-object", "history:marker-above-column-count",
                "history:first-window-left-poles-outside", "history:tables-unchanged-by-first-drawing")
    ctx.require(*[f"alive:agree:{r}" for r in TABLE_ROUTES + CMIF_ROUTES],
                *[f"alive:second-through:{r}" for r in sorted({partner_route(c["route"], c["partner"]) for c in ac})],
                *[f"alive:partner={p}" for p in PARTNERS], *[f"alive:axes={a}+{b}" for a in ALIVE_WHERES for b in ALIVE_WHERES],
                "alive:two-figures-two-axes", "alive:first-chart-shows-its-stable-poles-after-second",
                "alive:first-chart-shows-its-unstable-poles-after-second", "alive:first-chart-shows-its-curves-after-second",
                "alive:both-charts-of-one-algorithm-object", "alive:tables-of-first-chart-unchanged")
    ctx.require(*[f"axes={w}:agree" for w in WHERES], *[f"axes-supplied-as:{f}" for f in FORMS], "other-axes-stay-empty",
                *[f"axes={w}:unstable-markers-on-supplied-axes" for w in SUPPLIED], *[f"axes={w}:curves-on-supplied-axes" for w in SUPPLIED],
                "tables-unchanged-after-drawing")


def replay(case):
    import matplotlib

    matplotlib.use("Agg")
    t = Tally()
    case = dict(case)
    if case.get("freqlim") is not None:
        case["freqlim"] = tuple(case["freqlim"])
    for k in ("freqlim_b",):
        if case.get(k) is not None:
            case[k] = tuple(case[k])
    if case["kind"] == "history":
        run_history_case(t, case)          # the replaying process is fresh: no isolation needed
    elif case["kind"] == "alive":
        run_alive_case(t, case)
    elif case["kind"] == "table":
        run_table_case(t, case)
    else:
        run_cmif_case(t, case)
    return t
