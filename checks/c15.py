"""C15 - runs are gated, deterministic, isolated, persistent; PoSER validates its inputs.

Part A: explicit-state BFS over call histories (add / run_by_name / run_all / mpe / save+load) of real SingleSetup and
MultiSetup_PreGER objects against a per-algorithm life-cycle model whose expected results are those of the same
algorithm run ALONE on a fresh setup. Part B: the PoSER constructor decided completely over every assignment of
algorithm type lists, run/extraction states and name lists to 0..3 (thorough: 4) setups.
"""
import itertools
import os
import shutil
import tempfile
import typing

import numpy as np
from scipy import signal

from mc import bfs, canon, looks, payload
from mc.core import Tally

ID = "C15"
TECHNIQUE = ("explicit-state breadth-first search over call histories of the real setup objects (merged by a digest of the "
             "whole object graph, plus an un-merged pass with congruence check) against a life-cycle model with isolated-run "
             "reference results; exhaustive enumeration of PoSER constructor inputs against a predicate written from the statement")
LEVEL_TEXT = ("A: every call history up to the stated depth over add/run/run_all/mpe/save+load/decoy is executed on fresh real setups and "
              "every algorithm is compared bit-wise with its isolated reference after every transition; B: every PoSER constructor input of the "
              "stated space is constructed and compared with the predicate written from the statement")
RULE = ("A: a history is a sequence of events on a fresh setup; non-trivial = it runs at least two different algorithms or "
        "re-runs/extracts after another algorithm ran, or contains a rejected call; distinct by (object kind, subset, event "
        "sequence). B: a constructor input is (setups, names); non-trivial = at least two setups, all non-empty (so that "
        "the type/order/state/name clauses decide); distinct by the input tuple")
ASSUMPTIONS = [
    "expected result of a run = result of that algorithm run alone on a fresh setup with the same data and parameters, computed once per parameter set in its own fresh child process and compared bit-wise (digest of every result and parameter field, NaN patterns included)",
    "when run_all is rejected because one algorithm lacks parameters, algorithms with parameters may or may not have been run (order of run_all is not part of the statement); each must equal one of its two admissible states",
    "pickle files are written to a scratch directory created and removed by the run",
    "event 'look': every public plot method (mc/looks.py) of every algorithm that holds a result is called with a frequency window; looking is a "
    "read-only operation, so every algorithm must still equal its isolated reference bit-wise afterwards (results, run parameters, shared data)",
]

FS = 50.0
NS = 600
NOHC = dict(conj=False, xi_max=1.0, mpc_lim=0.0, mpd_lim=10.0, cov_max=1e9)


def make_record(seed, tag, nch=3):
    """Deterministic 2-mode random response (payload noise through two resonators) plus a little noise."""
    Y = np.zeros((NS, nch))
    shapes = payload.entries(seed, f"c15/{tag}/phi", (2, nch))
    for k, (fn, xi) in enumerate([(5.0, 0.03), (11.0, 0.02)]):
        wn = 2 * np.pi * fn
        b, a = signal.bilinear([1.0], [1, 2 * xi * wn, wn**2], FS)
        q = signal.lfilter(b, a, payload.normal(seed, f"c15/{tag}/w{k}", (NS,)))
        Y += np.outer(q / q.std(), shapes[k])
    return Y + 0.05 * payload.normal(seed, f"c15/{tag}/n", (NS, nch))


def menu(kind):
    from pyoma2 import algorithms as A

    if kind == "single":
        return {
            "FDD": (lambda n: A.FDD(name=n, nxseg=64), dict(sel_freq=[5.0], DF=1.0)),
            "EFDD": (lambda n: A.EFDD(name=n, nxseg=128), dict(sel_freq=[5.0], DF1=1.0, DF2=4.0, sppk=1, npmax=3)),
            "FSDD": (lambda n: A.FSDD(name=n, nxseg=128), dict(sel_freq=[5.0], DF1=1.0, DF2=4.0, sppk=1, npmax=3)),
            "SSIcov": (lambda n: A.SSIcov(name=n, br=4, ordmax=6, hc=dict(NOHC)), dict(sel_freq=[5.0], order=6, rtol=10.0)),
            "SSIdat": (lambda n: A.SSIdat(name=n, br=4, ordmax=6, hc=dict(NOHC)), dict(sel_freq=[5.0], order=6, rtol=10.0)),
            "pLSCF": (lambda n: A.pLSCF(name=n, ordmax=6, nxseg=128, hc=dict(NOHC)), dict(sel_freq=[5.0], order=3, rtol=10.0)),
        }
    return {
        "FDD_MS": (lambda n: A.FDD_MS(name=n, nxseg=64), dict(sel_freq=[5.0], DF=1.0)),
        "EFDD_MS": (lambda n: A.EFDD_MS(name=n, nxseg=128), dict(sel_freq=[5.0], DF1=1.0, DF2=4.0, sppk=1, npmax=3)),
        "SSIcov_MS": (lambda n: A.SSIcov_MS(name=n, br=4, ordmax=6, hc=dict(NOHC)), dict(sel_freq=[5.0], order=6, rtol=10.0)),
        "SSIdat_MS": (lambda n: A.SSIdat_MS(name=n, br=4, ordmax=6, hc=dict(NOHC)), dict(sel_freq=[5.0], order=6, rtol=10.0)),
        "pLSCF_MS": (lambda n: A.pLSCF_MS(name=n, ordmax=6, nxseg=128, hc=dict(NOHC)), dict(sel_freq=[5.0], order=3, rtol=10.0)),
    }


def noparam(kind, cls_name, n):
    from pyoma2 import algorithms as A

    return getattr(A, cls_name.split("@")[0])(name=n)


# Algorithms whose name ends in "@S" are built on ONE run-parameter object shared by the group (per setup): the
# user-facing way of giving several algorithms the same settings. Their results must still equal the isolated runs;
# their parameter objects are shared on purpose, so only results are compared for them.
SHARE = {"SSIcov": "ssi", "SSIdat": "ssi", "EFDD": "efdd", "FSDD": "efdd", "SSIcov_MS": "ssi", "SSIdat_MS": "ssi"}
SHARED_KW = {"ssi": dict(br=4, ordmax=6, hc=dict(NOHC)), "efdd": dict(nxseg=128)}


def make(kind, name, shared):
    from pyoma2 import algorithms as A

    if name.endswith("@S"):
        base = name[:-2]
        cls = getattr(A, base)
        grp = SHARE[base]
        if grp not in shared:
            kw = dict(SHARED_KW[grp])
            if "hc" in kw:
                kw["hc"] = dict(kw["hc"])
            shared[grp] = cls.RunParamCls(**kw)
        return cls(name=name, run_params=shared[grp])
    return menu(kind)[name][0](name)


def base_args(kind, name):
    return menu(kind)[name.split("@")[0]][1]


def build_setup(kind, seed):
    from pyoma2.setup import MultiSetup_PreGER, SingleSetup

    if kind == "single":
        user = [make_record(seed, "s0")]
        return SingleSetup(user[0], FS), user
    user = [make_record(seed, "m0", 3), make_record(seed, "m1", 3)]
    return MultiSetup_PreGER(fs=FS, ref_ind=[[0, 1], [0, 1]], datasets=user), user


def res_digest(alg):
    if str(alg.name).endswith("@S"):
        return canon.digest({"result": alg.result})
    return canon.digest({"result": alg.result, "params": alg.run_params})


def data_digest(ss):
    return canon.digest({"data": ss.data})


_REF = {}


_MPE_ARGS = {}


def mpe_args(kind, name, version=0):
    """Extraction arguments. For pLSCF the order/frequency are chosen from the clean reference run (a parameter choice,
    not an oracle): the highest model order that holds a retained pole, and that pole's frequency."""
    return _MPE_ARGS.get((kind, name, version)) or base_args(kind, name)


def _reference_job(item):
    """Runs in a one-shot child process in which nothing of the library has been executed before."""
    kind, name, seed, version = item
    out = []
    chosen = None
    for _ in range(2):
        ss, _u = build_setup(kind, seed)
        if version:
            ss.detrend_data()          # data version 1: the records after the 'prep' event
        args = base_args(kind, name)
        a = make(kind, name, {})
        ss.add_algorithms(a)
        d_added = res_digest(a)
        ss.run_by_name(name)
        d_ran = res_digest(a)
        if name.startswith("pLSCF"):
            Fn = np.asarray(a.result.Fn_poles)
            cols = [c for c in range(Fn.shape[1]) if np.isfinite(Fn[:, c]).any()]
            if not cols:
                return ("NOPOLES", name)
            c = cols[-1]
            f = float(Fn[np.isfinite(Fn[:, c]), c][0])
            args = dict(sel_freq=[f], order=int(c), rtol=1e-3)
            chosen = args
        ss.mpe(name, **args)
        d_mpe = res_digest(a)
        ss.run_by_name(name)          # re-run after extraction: a fresh result, extraction parameters kept
        d_reran = res_digest(a)
        out.append((d_added, d_ran, d_mpe, d_reran))
    return ("ok" if out[0] == out[1] else "NONDET", out[0], chosen)


def compute_references(plan, seed):
    """Every isolated reference is computed in its own fresh child process (fork of a parent that has not executed any
    library algorithm), so that state leaking between runs inside one process cannot make the reference agree with a
    polluted run."""
    import multiprocessing as mp

    from mc.core import CheckError

    todo = sorted({(kind, n, seed, v) for kind, subset in plan for n in subset for v in (0, 1)})
    with mp.get_context("fork").Pool(min(16, len(todo)), maxtasksperchild=1) as pool:
        res = pool.map(_reference_job, todo, chunksize=1)
    for k, r in zip(todo, res):
        if r[0] == "NOPOLES":
            raise CheckError(f"pLSCF reference run for {k} holds no retained pole at any order; the harness cannot build an extraction case")
        _REF[k] = r[1] if r[0] == "ok" else ("NONDET", r[1])
        if r[2]:
            _MPE_ARGS[(k[0], k[1], k[3])] = r[2]


def reference(kind, name, seed, version=0):
    return _REF[(kind, name, seed, version)]


def events_for(kind, subset):
    nop = "NOPAR"
    ev = [("add", n) for n in subset] + [("add", nop), ("add2", subset[1], subset[2])]
    ev += [("run", n) for n in subset] + [("run", nop), ("runall",)]
    ev += [("mpe", n) for n in subset] + [("saveload",), ("decoy",), ("prep",), ("readd", subset[-1]), ("look",)]
    return ev


_CFG = {}


def run_history(kind, subset, events, hist, seed, scratch, judge_all=False):
    from pyoma2.functions import gen

    t = Tally()
    evs = [events[i] for i in hist]
    case = {"kind": kind, "subset": list(subset), "events": [list(e) for e in evs], "seed": seed}
    ss, user = build_setup(kind, seed)
    shared = {}
    user_h = [canon.arr_digest(u) for u in user]
    d0 = data_digest(ss)
    # model: name -> ('added'|'ran'|'mpe'|'reran'), insertion-ordered; NOPAR -> 'added'
    model = {}
    nop_cls = subset[0]
    version = 0                       # data version of the setup: 0 = as constructed, 1 = after the 'prep' event (detrend_data)
    bound = {}                        # name -> data version bound when the algorithm was (last) added
    resver = {}                       # name -> data version the algorithm's present result was computed from
    refs = {n: reference(kind, n, seed, 0) for n in subset}
    for n, r in list(refs.items()) + [(n, reference(kind, n, seed, 1)) for n in subset]:
        if r[0] == "NONDET":
            t.violation(f"nondeterministic:{n}", f"{n} run twice alone on identical fresh setups gives different results/parameters", case)
            return t, None
    idx = {"added": 0, "ran": 1, "mpe": 2, "reran": 3}
    stop = False
    for step, ev in enumerate(evs):
        judge = judge_all or step == len(evs) - 1
        before = canon.digest({"o": ss.__dict__}) if judge else None
        exc = None
        try:
            if ev[0] == "prep":
                if version >= 1:
                    stop = True        # one preprocessing step per history (every further one would need its own references)
                    break
                ss.detrend_data()
            elif ev[0] == "readd":
                # the SAME algorithm object is added again (re-bound to the setup's present data); only explored while the
                # algorithm has not been extracted from (extraction parameters chosen for the old data would stay behind)
                if model.get(ev[1]) not in ("added", "ran"):
                    stop = True
                    break
                ss.add_algorithms(ss.algorithms[ev[1]])
                ss.run_by_name(ev[1])            # ... and run: its result must be the one of the data bound now
            elif ev[0] == "add":
                a = noparam(kind, nop_cls, "NOPAR") if ev[1] == "NOPAR" else make(kind, ev[1], shared)
                ss.add_algorithms(a)
            elif ev[0] == "add2":
                ss.add_algorithms(make(kind, ev[1], shared), make(kind, ev[2], shared))     # several algorithms in one call
            elif ev[0] == "run":
                if step % 2:
                    ss.run_by_name(name=ev[1])
                else:
                    ss.run_by_name(ev[1])
            elif ev[0] == "runall":
                ss.run_all()
            elif ev[0] == "mpe":
                ss.mpe(ev[1], **(mpe_args(kind, ev[1], resver.get(ev[1], 0)) if ev[1] != "NOPAR" else dict(sel_freq=[5.0])))
            elif ev[0] == "decoy":
                run_decoy(kind, subset, seed)
            elif ev[0] == "look":
                # read-only operations (mc/looks.py): every chart of every algorithm that holds a result, with a frequency window
                for n_, a_ in list(ss.algorithms.items()):
                    if model.get(n_) in ("ran", "mpe", "reran"):
                        looks.look_at_alg(a_, step + len(evs), (0.1 * FS, 0.3 * FS))
            elif ev[0] == "saveload":
                path = os.path.join(scratch, f"s{os.getpid()}.pkl")
                gen.save_to_file(ss, path)
                loaded = gen.load_from_file(path)
                os.remove(path)
                if judge:
                    a_, b_ = canon.digest({"o": ss.__dict__}), canon.digest({"o": loaded.__dict__})
                    if a_ != b_:
                        diff = [n for n in ss.algorithms if n not in loaded.algorithms or res_digest(ss.algorithms[n]) != res_digest(loaded.algorithms[n])]
                        t.violation(f"pickle-roundtrip:{kind}", f"{kind}: setup loaded from file differs from the saved one (algorithms differing: {diff}) after {evs[:step + 1]}", case)
                    else:
                        t.outcomes["saveload-equal"] += 1
                ss = loaded
        except Exception as e:
            exc = e
        # ---- model step
        expect_exc = False
        flexible = False
        if ev[0] == "prep":
            if exc is None:
                version = 1
                d0 = data_digest(ss)      # the setup's own data changes legitimately; algorithms added before keep the old binding
        elif ev[0] == "readd":
            bound[ev[1]] = resver[ev[1]] = version
            model[ev[1]] = "ran"
            refs[ev[1]] = reference(kind, ev[1], seed, version)
        elif ev[0] == "add":
            model[ev[1]] = "added"
            bound[ev[1]] = resver[ev[1]] = version
            if ev[1] != "NOPAR":
                refs[ev[1]] = reference(kind, ev[1], seed, version)
        elif ev[0] == "add2":
            for n_ in (ev[1], ev[2]):
                model[n_] = "added"
                bound[n_] = resver[n_] = version
                refs[n_] = reference(kind, n_, seed, version)
        elif ev[0] == "run":
            if ev[1] not in model or ev[1] == "NOPAR":
                expect_exc = True
            else:
                model[ev[1]] = "ran" if model[ev[1]] == "added" else ("reran" if model[ev[1]] in ("mpe", "reran") else "ran")
                resver[ev[1]] = bound[ev[1]]
                refs[ev[1]] = reference(kind, ev[1], seed, bound[ev[1]])
        elif ev[0] == "runall":
            if "NOPAR" in model:
                expect_exc = True
                flexible = True
            else:
                for n in model:
                    model[n] = "ran" if model[n] in ("added", "ran") else "reran"
                    resver[n] = bound[n]
                    refs[n] = reference(kind, n, seed, bound[n])
        elif ev[0] == "mpe":
            if ev[1] == "NOPAR" or model.get(ev[1]) in (None, "added"):
                expect_exc = True
            else:
                model[ev[1]] = "mpe"
        if not judge:
            if (exc is not None) != expect_exc:
                stop = True
                break
            if flexible:
                sync_flexible(model, ss, refs, idx)
            continue
        # ---- judge this transition
        t.validated += 1
        name = ev[1] if len(ev) > 1 else ""
        cls = "NOPAR" if name == "NOPAR" else ("absent" if ev[0] in ("run", "mpe") and name not in model else "ok")
        if expect_exc and exc is None:
            t.violation(f"gate-missing:{ev[0]}:{kind}:{'noparams' if name == 'NOPAR' else 'not-run-or-absent'}",
                        f"{kind}: {ev} succeeded although the algorithm has no run parameters / was not run / does not exist (history {evs[:step + 1]})", case)
            stop = True
            break
        if not expect_exc and exc is not None:
            t.violation(f"unexpected-exception:{type(exc).__name__}:{ev[0]}:{kind}",
                        f"{kind}: {ev} raised {type(exc).__name__}: {exc} (history {evs[:step + 1]})", case)
            stop = True
            break
        if exc is not None:
            t.outcomes[f"rejected:{ev[0]}:{cls}"] += 1
            if not flexible:
                after = canon.digest({"o": ss.__dict__})
                if after != before:
                    changed = [n for n in ss.algorithms]
                    t.violation(f"stored-on-reject:{ev[0]}:{kind}:{name if name == 'NOPAR' else 'algorithm'}",
                                f"{kind}: rejected call {ev} ({type(exc).__name__}) changed the setup state (results or run parameters) - history {evs[:step + 1]}", case)
                    stop = True
                    break
        # every algorithm equals its isolated reference for its model state
        bad = sync_flexible(model, ss, refs, idx) if flexible else []
        for n, st in model.items():
            a = ss.algorithms.get(n)
            if a is None:
                bad.append(f"{n}:missing")
                continue
            if n == "NOPAR":
                if a.result is not None:
                    bad.append("NOPAR:has-result")
                continue
            cur = res_digest(a)
            if flexible:
                continue
            elif cur != refs[n][idx[st]]:
                bad.append(f"{n}:{st}")
        if set(ss.algorithms) != set(model):
            bad.append("algorithm-set")
        if bad:
            t.violation(f"result-differs-from-isolated-run:{kind}:{ev[0]}",
                        f"{kind}: after {evs[:step + 1]} the state of {bad} differs from the same algorithm run alone on a fresh setup", case)
            stop = True
            break
        if data_digest(ss) != d0:
            t.violation(f"shared-data-modified:{kind}:{ev[0]}", f"{kind}: setup data changed after {evs[:step + 1]}", case)
            stop = True
            break
        if [canon.arr_digest(u) for u in user] != user_h:
            t.violation(f"user-array-modified:{kind}:{ev[0]}", f"{kind}: user arrays changed after {evs[:step + 1]}", case)
            stop = True
            break
        if exc is None:
            t.outcomes[f"ok:{ev[0]}"] += 1
    t.evaluations += 1
    ran = [e for e in evs if e[0] in ("run", "runall", "mpe")]
    if len({e[1] if len(e) > 1 else "*" for e in ran}) >= 2 or any(o.startswith("rejected") for o in t.outcomes):
        t.nontrivial.add((kind, tuple(subset), tuple(hist)))
    key = None if stop else canon.digest({"o": ss.__dict__})
    return t, key


def run_decoy(kind, subset, seed):
    """Another setup with DIFFERENT data of the same shape runs and extracts the same algorithm classes with the same
    parameters. It must not influence the setup under test (no state outside the objects)."""
    from pyoma2.setup import MultiSetup_PreGER, SingleSetup

    if kind == "single":
        other = SingleSetup(make_record(seed + 1000, "decoy"), FS)
    else:
        other = MultiSetup_PreGER(fs=FS, ref_ind=[[0, 1], [0, 1]], datasets=[make_record(seed + 1000, "d0", 3), make_record(seed + 1000, "d1", 3)])
    sh = {}
    for n in subset:
        other.add_algorithms(make(kind, n, sh))
    other.run_all()
    for n in subset:
        try:
            other.mpe(n, **mpe_args(kind, n))
        except Exception:
            pass


def sync_flexible(model, ss, refs, idx):
    """After a rejected run_all: each parametrised algorithm is either untouched or has been run; adopt what is observed."""
    bad = []
    for n, st in model.items():
        if n == "NOPAR" or n not in ss.algorithms:
            continue
        cur = res_digest(ss.algorithms[n])
        ran_state = "ran" if st in ("added", "ran") else "reran"
        if cur == refs[n][idx[st]]:
            continue
        if cur == refs[n][idx[ran_state]]:
            model[n] = ran_state
        else:
            bad.append(f"{n}:{st}-or-{ran_state}")
    return bad


def _runner(hist):
    return run_history(_CFG["kind"], _CFG["subset"], _CFG["events"], hist, _CFG["seed"], _CFG["scratch"])


# ---- part B: PoSER constructor ------------------------------------------------------------------
_POSER = {}


def poser_protos():
    if _POSER:
        return _POSER
    from pyoma2.algorithms import BaseAlgorithm
    from pyoma2.algorithms.data.result import BaseResult
    from pyoma2.algorithms.data.run_params import BaseRunParams
    from pyoma2.setup import SingleSetup

    class FP(BaseRunParams):
        p: int = 1

    class FR(BaseResult):
        pass

    class AlgA(BaseAlgorithm[FP, FR, typing.Iterable[float]]):
        RunParamCls = FP
        ResultCls = FR

        def run(self):
            return FR()

        def mpe(self, *a, **k):
            return None

        def mpe_from_plot(self, *a, **k):
            return None

    class AlgB(AlgA):
        pass

    specs = [()]
    one = [(c, s) for c in ("A", "B") for s in (0, 1, 2)]
    specs += [(x,) for x in one] + [(x, y) for x in one for y in one]
    data = np.zeros((8, 2))
    # two legal ways of filling a setup with the same algorithms in the same order: one add_algorithms call with all of them
    # (form 0), or one call per algorithm (form 1); "identical order" in the statement is the order in which they were added
    setups = {0: [], 1: []}
    for form in (0, 1):
        for spec in specs:
            ss = SingleSetup(data, 10.0)
            algs = []
            for j, (c, s) in enumerate(spec):
                a = (AlgA if c == "A" else AlgB)(name=f"a{j}", p=1)
                if s >= 1:
                    a.result = FR()
                if s == 2:
                    a.result = FR(Fn=np.array([1.0]), Phi=np.ones((2, 1)))
                algs.append(a)
            if algs and form == 0:
                ss.add_algorithms(*algs)
            for a in (algs if form == 1 else []):
                ss.add_algorithms(a)
            setups[form].append(ss)
    _POSER.update(specs=specs, setups=setups[0], setups_by_form=setups)
    return _POSER


def poser_forms(combo, nn):
    """Way of filling each setup of a constructor input, fixed by the input itself (rotation over position, spec index, names)."""
    return [(k + i + nn) % 2 for k, i in enumerate(combo)]


def poser_expected(specs, names):
    if len(specs) < 2:
        return False
    if any(len(s) == 0 for s in specs):
        return False
    types0 = [c for c, _ in specs[0]]
    if any([c for c, _ in s] != types0 for s in specs):
        return False
    if any(st != 2 for s in specs for _, st in s):
        return False
    return len(names) == len(specs[0])


def poser_slice(item):
    from pyoma2.setup import MultiSetup_PoSER

    nset, first, restricted = item
    P = poser_protos()
    specs, setups = P["specs"], P["setups"]
    t = Tally()
    pool = range(len(specs))
    if restricted:
        # thorough 4-setup tier: run-states restricted to {all extracted, one defect}
        pool = [i for i, s in enumerate(specs) if sum(1 for _, st in s if st != 2) <= 1]
    rest = [pool] * (nset - 1) if nset >= 1 else []
    firsts = [first] if nset >= 1 else [None]
    for f in firsts:
        for tail in itertools.product(*rest) if nset >= 1 else [()]:
            combo = ((f,) + tuple(tail)) if nset >= 1 else ()
            sp = [specs[i] for i in combo]
            for nn in range(4):
                forms = poser_forms(combo, nn)
                ss = [P["setups_by_form"][fm][i] for fm, i in zip(forms, combo)]
                if len(set(forms)) > 1 and any(len(s) > 1 for s in sp):
                    t.outcomes["poser-input-mixes-one-call-and-one-call-per-algorithm-setups"] += 1
                names = [f"n{k}" for k in range(nn)]
                want = poser_expected(sp, names)
                t.evaluations += 1
                t.transitions += 1
                t.validated += 1
                try:
                    MultiSetup_PoSER(ref_ind=[[0]] * len(ss), single_setups=list(ss), names=names)
                    got, exc = True, None
                except ValueError:
                    got, exc = False, None
                except Exception as e:
                    got, exc = False, e
                case = {"poser": {"specs": sp, "names": names, "forms": forms}}
                if exc is not None:
                    t.violation(f"poser:wrong-exception:{type(exc).__name__}", f"PoSER constructor raised {type(exc).__name__}: {exc} instead of ValueError for setups {sp}, names {names}", case)
                elif got != want:
                    why = "accepted an invalid input" if got else "rejected a valid input"
                    t.violation(f"poser:{'accepts-invalid' if got else 'rejects-valid'}", f"PoSER constructor {why}: setups {sp}, names {names}", case)
                t.outcomes["poser-accepted" if got else "poser-rejected"] += 1
                if len(sp) >= 2 and all(len(s) > 0 for s in sp):
                    t.nontrivial.add(("P", combo, nn))
    t.states = t.evaluations
    return t


def explore_poser(ctx):
    P = poser_protos()
    n = len(P["specs"])
    items = [(0, None, False)] + [(1, i, False) for i in range(n)] + [(2, i, False) for i in range(n)] + [(3, i, False) for i in range(n)]
    if ctx.thorough:
        pool = [i for i, s in enumerate(P["specs"]) if sum(1 for _, st in s if st != 2) <= 1]
        items += [(4, i, True) for i in pool]
    ctx.bounds["poser"] = {"setups": "0..3" + (" and 4 (run-states restricted to all-extracted / one defect)" if ctx.thorough else ""),
                           "algorithm_lists_per_setup": n, "classes": ["AlgA", "AlgB(AlgA)"], "states": ["not run", "run", "run+extracted"],
                           "names_lengths": [0, 1, 2, 3]}
    ctx.pmap(poser_slice, items, chunksize=1)
    ctx.tally.sample({"poser_input": {"setups": [P["specs"][7], P["specs"][7]], "names": ["n0", "n1"]}})


def explore(ctx):
    scratch = tempfile.mkdtemp(prefix="c15_")
    try:
        single_menu = ["FDD", "EFDD", "FSDD", "SSIcov", "SSIdat", "pLSCF"]
        ms_menu = ["FDD_MS", "EFDD_MS", "SSIcov_MS", "SSIdat_MS", "pLSCF_MS"]
        if ctx.thorough:
            plan = [("single", s) for s in itertools.combinations(single_menu, 3)]
            plan += [("single", ("pLSCF", "SSIcov", "FDD")), ("single", ("SSIdat", "EFDD", "FSDD"))]   # other insertion orders
            plan += [("single", ("SSIdat@S", "SSIcov@S", "EFDD")), ("single", ("EFDD@S", "FSDD@S", "SSIcov")),
                     ("preger", ("SSIdat_MS@S", "SSIcov_MS@S", "FDD_MS"))]
            plan += [("preger", s) for s in itertools.combinations(ms_menu, 3)]
            depth, ud = 5, 3
        else:
            plan = [("single", ("FDD", "SSIcov", "pLSCF")), ("single", ("EFDD", "SSIdat", "FSDD")),
                    ("single", ("SSIdat@S", "SSIcov@S", "EFDD")),
                    ("preger", ("FDD_MS", "SSIcov_MS", "pLSCF_MS")), ("preger", ("EFDD_MS", "SSIdat_MS", "FDD_MS"))]
            depth, ud = 4, 2
        ctx.bounds = {"plan": [[k, list(s)] for k, s in plan], "merged_bfs_depth": depth, "unmerged_depth": ud,
                      "events_per_subset": [list(e) for e in events_for(*plan[0])], "samples": NS, "fs": FS}
        compute_references(plan, ctx.seed)
        for kind, subset in plan:
            events = events_for(kind, subset)
            _CFG.update(kind=kind, subset=subset, events=events, seed=ctx.seed, scratch=scratch)
            label = f"{kind}:{'+'.join(subset)}/"
            seen = bfs.merged(ctx, _runner, len(events), depth, label=label)
            items = list(seen.items())
            for k, h in items[-2:]:
                ctx.tally.sample({"kind": kind, "subset": list(subset), "history": [list(events[i]) for i in h], "state_digest": k})
            keys, broken = bfs.unmerged(ctx, _runner, len(events), ud, label=label)
            for h0, h1, evs in broken:
                ctx.tally.violation(f"hidden-state:{kind}", f"histories {h0} and {h1} reach the same object state but differ after events {evs}",
                                    {"kind": kind, "subset": list(subset), "events": [list(events[i]) for i in h1], "seed": ctx.seed})
        explore_poser(ctx)
    finally:
        shutil.rmtree(scratch, ignore_errors=True)
    ctx.require("ok:add", "ok:run", "ok:runall", "ok:mpe", "saveload-equal", "rejected:run:NOPAR", "rejected:run:absent",
                "rejected:mpe:ok", "rejected:runall:ok", "ok:decoy", "ok:add2", "ok:prep", "ok:readd", "ok:look", "poser-accepted", "poser-rejected",
                "poser-input-mixes-one-call-and-one-call-per-algorithm-setups")


def replay(case):
    if "poser" in case:
        return replay_poser(case["poser"])
    scratch = tempfile.mkdtemp(prefix="c15_")
    try:
        evs = [tuple(e) for e in case["events"]]
        compute_references([(case["kind"], tuple(case["subset"]))], case["seed"])
        t, _ = run_history(case["kind"], tuple(case["subset"]), evs, tuple(range(len(evs))), case["seed"], scratch, judge_all=True)
    finally:
        shutil.rmtree(scratch, ignore_errors=True)
    return t


def replay_poser(p):
    from pyoma2.setup import MultiSetup_PoSER

    P = poser_protos()
    sp = [tuple(tuple(x) for x in s) for s in p["specs"]]
    idx = [P["specs"].index(s) for s in sp]
    t = Tally()
    want = poser_expected(sp, p["names"])
    try:
        forms = p.get("forms") or [0] * len(idx)
        MultiSetup_PoSER(ref_ind=[[0]] * len(idx), single_setups=[P["setups_by_form"][fm][i] for fm, i in zip(forms, idx)], names=list(p["names"]))
        got, exc = True, None
    except ValueError:
        got, exc = False, None
    except Exception as e:
        got, exc = False, e
    if exc is not None:
        t.violation(f"poser:wrong-exception:{type(exc).__name__}", f"raised {type(exc).__name__}: {exc}", {"poser": p})
    elif got != want:
        t.violation(f"poser:{'accepts-invalid' if got else 'rejects-valid'}", f"setups {sp}, names {p['names']}", {"poser": p})
    return t
