"""Shared pieces of C06 / C07 / C08: a small deterministic simulated system, records built from the
payload alphabet (never numpy's RNG), MAC, band candidates of a peak-picking request.
"""
import numpy as np
from scipy import signal

from mc import payload


def mac(a, b):
    a = np.asarray(a).ravel()
    b = np.asarray(b).ravel()
    den = np.vdot(a, a).real * np.vdot(b, b).real
    if not den > 0:
        return float("nan")
    return float(abs(np.vdot(a, b)) ** 2 / den)


# ---- simulated system ---------------------------------------------------------------------------
# natural frequencies as fractions of the sampling frequency, damping ratios; shapes from the payload
SYS_F = np.array([0.083, 0.171, 0.287])
SYS_XI = np.array([0.015, 0.020, 0.012])
DECAY_NOISE = 1.0          # noise of the free-decay record relative to `noise` (0.05): about 1.5 % of the initial amplitude


def system(seed, nch, nmodes=3):
    """(f/fs, xi, Phi[nch, nmodes]) - frequencies nudged by the payload (<1 %), real non-degenerate shapes."""
    f = SYS_F[:nmodes] * (1.0 + 0.01 * payload.uniform(seed, "sys/f", nmodes, -1, 1))
    xi = SYS_XI[:nmodes] * (1.0 + 0.2 * payload.uniform(seed, "sys/xi", nmodes, -1, 1))
    Phi = payload.entries(seed, f"sys/phi/{nch}", (nch, nmodes), 0.2, 1.0, signed=True)
    return f, xi, Phi


def record(seed, kind, N, nch, noise=0.05, tag=""):
    """N x nch record. kind: 'resp' random response of the 3-mode system + noise, 'decay' free decay +
    small noise, 'white' white noise. Computed at fs = 1 (the declared fs is the caller's business)."""
    f, xi, Phi = system(seed, nch)
    if kind == "white":
        return payload.normal(seed, f"rec/white/{nch}/{tag}", (N, nch))
    if kind == "resp":
        Y = np.zeros((N, nch))
        for k in range(len(f)):
            wn = 2 * np.pi * f[k]
            z = np.exp(-xi[k] * wn + 1j * wn * np.sqrt(1 - xi[k] ** 2))       # exact discrete pole of the mode
            q = signal.lfilter([1.0], [1.0, -2 * z.real, abs(z) ** 2], payload.normal(seed, f"rec/resp/in/{k}/{tag}", (N,)))
            Y += np.outer(q / np.std(q), Phi[:, k])
        return Y + noise * payload.normal(seed, f"rec/resp/noise/{nch}/{tag}", (N, nch))
    if kind == "decay":
        wn = 2 * np.pi * f
        lam = -xi * wn + 1j * wn * np.sqrt(1 - xi**2)
        amp = (1.0 + payload.uniform(seed, "rec/decay/a", len(f))) * np.exp(
            1j * payload.uniform(seed, "rec/decay/p", len(f), 0, 2 * np.pi))
        z = np.exp(np.outer(lam, np.arange(N)))
        Y = 2 * np.real((Phi * amp) @ z).T
        return Y + DECAY_NOISE * noise * payload.normal(seed, f"rec/decay/noise/{nch}/{tag}", (N, nch))
    raise ValueError(kind)


# ---- band candidates ----------------------------------------------------------------------------
def band_candidates(freq, sel, DF):
    """All (lo, hi) inclusive index bands that 'the lines inside sel -/+ DF' can mean: limits taken as the
    nearest grid line (every tie admitted) or as the outermost line inside the band; upper limit inclusive
    or exclusive. The statement fixes none of these choices."""
    freq = np.asarray(freq, float)
    df = freq[1] - freq[0]
    eps = 1e-9 * df
    d0 = np.abs(freq - (sel - DF))
    d1 = np.abs(freq - (sel + DF))
    los = set(np.where(d0 <= d0.min() + eps)[0].tolist())
    his = set(np.where(d1 <= d1.min() + eps)[0].tolist())
    inside = np.where((freq >= sel - DF - eps) & (freq <= sel + DF + eps))[0]
    if inside.size:
        los.add(int(inside[0]))
        his.add(int(inside[-1]))
    his |= {h - 1 for h in his}
    return sorted({(lo, hi) for lo in los for hi in his if hi >= lo})
