"""C05 - pLSCF recovers an exactly rational spectrum B(z)A(z)^-1 and reports its poles.

Exhaustive walk of the configuration lattice (order, channels, reference rows, basis sign, number of lines, dt,
ordmax, coefficient family) around a payload alphabet of real coefficient matrices.  The ground truth is the pair of
coefficient matrices itself; the reference poles come from an independent linearisation (generalised eigenproblem of
the first companion pencil, scipy.linalg.eig), never from the library's companion.
"""
import itertools

import numpy as np
import scipy.linalg as sl

from mc import payload
from mc.core import Tally

ID = "C05"
TECHNIQUE = ("exhaustive walk of a configuration lattice around a payload alphabet of real polynomial matrices; "
             "ground-truth oracle (true coefficients, roots of det A(z) from an independent generalised eigenproblem "
             "of the first companion pencil) evaluated on every lattice point, per-column multiset comparison of the "
             "pole tables and cell-by-cell NaN-pattern check")
LEVEL_TEXT = ("every configuration of the stated lattice is executed on the real plscf.pLSCF / pLSCF_poles (and, on a "
              "sub-lattice, on rmfd2ac/ac2mp_poly fed with the true coefficients and on the pLSCF algorithm class "
              "through SingleSetup) and judged against the known coefficient matrices and their exact roots")
RULE = ("a case is one lattice point (route, n, Nch, Nref, sign, line-count kind, dt, ordmax-n, coefficient family - payload families 0..2 or a near-identity family), or, "
        "in the 'diag' route, one tuple of exactly representable eigenvalues with Nref and dt; "
        "non-trivial = it passed the truth-based guards and the true denominator (state matrix) has at least one root "
        "that must be reported and at least one that must be blanked (so both the recovery and the blanking are "
        "exercised); distinct by lattice coordinates")
ASSUMPTIONS = [
    "scipy.linalg.eig (QZ) on the first companion pencil of the TRUE coefficients gives the reference roots (trusted)",
    "the continuous-time map is the principal logarithm ln(z)/dt; for a root on the negative real axis both signs of "
    "the imaginary part i*pi/dt are accepted",
    "roots with |Re lambda| <= 1e-7 |lambda| may be reported or blanked (not judged); tolerance 1e-5 relative "
    "(observed worst error on the unchanged tree is recorded in max_observed_error)",
    "the boundary Re lambda = 0 is judged only where it is exactly decidable in floating point: ac2mp_poly on a diagonal "
    "state matrix with eigenvalues from {-2,-1,-1/2,1/2,2} (eigenvalues of a diagonal matrix and ln|-1| = 0 are exact); "
    "the eigenvalue +1 (lambda = 0, damping undefined) is kept out of the alphabet",
    "orders above n are over-parameterised on exact data (mathematically singular normal equations): their pole "
    "values are not judged, only the NaN/count structure of their columns; a numpy LinAlgError('Singular matrix') "
    "raised while solving such an order is counted as not judged, for ordmax == n it is a violation",
    "fit route: cases whose reduced normal equations, built from the true spectrum, have a condition number above 1e10 are skipped "
    "(ground-truth guard; the coefficient error of the unchanged tree follows eps*cond within a factor 2: a thorough-tier point with "
    "n=7, Nch=3, one reference, positive sign, cond 3e12 came out 2e-5 off and had been reported - a false alarm of the check, not a "
    "defect; nothing in the quick lattice is above 2e7)",
    "methodSy='per' for the pole VALUES; with methodSy='cor' (nxseg 32 and 1024, true coefficients through pLSCF_poles) the library adds the "
    "exponential-window term 1/(tau*dt) to the poles it reports: there the blanking and counting clauses are judged - the reported poles minus "
    "that term must be exactly the roots with non-positive real part (the term's time-unit behaviour is C08's)",
    "mode-shape values are judged only for the unit normalisation and the NaN pattern (the statement says no more)",
    "coefficient families 0..2 draw every free coefficient from the payload (an end coefficient is then never close to I); the families "
    "'nearI:<delta>:<kind>' put the FREE end coefficient (alpha_n for the negative, alpha_0 for the positive sign) at I + D with "
    "|D_jj| = delta in {1e-9, 1e-7, 0.9e-5, 1.1e-5} (alternating signs) and |D_jk| = delta/1000, i.e. far inside, just inside and just "
    "outside the closeness window 1e-8 + 1e-5 of numpy.isclose, with payload inner coefficients ('g') or a lightly damped low-frequency "
    "root pair per channel ('lf'; with both end coefficients ~I the product of all roots has modulus ~1); same tolerances, same guards "
    "(n = 1 is then always removed by the root-separation guard: all roots are -1 +- delta)",
    "near-identity families, fit and class routes: a case is skipped when the first-order bound eps*cond(normal equations)*root "
    "sensitivity (true coefficients, true null vectors) of some root exceeds the pole tolerance or the distance of that root from the "
    "not-judged band around the stability boundary - with both end coefficients ~I roots lie within 1e-6 of the unit circle and the "
    "least-squares step (accurate to eps*cond, see above) cannot be asked on which side it puts them; the true-coefficient route "
    "judges every such case",
]

TOL = 1e-5          # coefficients (relative to max|coefficient|) and poles (relative to |lambda|)
TOL_SELF = 1e-9     # Fn/Xi/Phi versus the Lambds value of the same cell
EDGE = 1e-7         # |Re lambda| <= EDGE |lambda| : reported or blanked, both admissible
DTS = (1e-3, 1.0 / 51.2, 1.0)
SIGNS = (-1, 1)
NF_KINDS = ("min", "min+7", "257")
EXTRA = (0, 2)
FAMS = (0, 1, 2)
NXSEG = 1024        # only used by the 'cor' branch, which is not exercised

# Coefficient families 'nearI:<distance>:<kind>': the FREE end coefficient of the constraint (alpha_n for the negative sign, alpha_0
# for the positive sign - the other end is exactly I) lies close to the identity without being the identity: diagonal 1 +- delta
# (signs alternating along the diagonal, so deviations of both signs are present), off-diagonal +-eps (signs from the payload).
# Distances: far inside, inside, just inside and just outside the window |x - I| <= 1e-8 + 1e-5*I (numpy.isclose defaults).
# Kinds: 'g' = the inner coefficients are the payload matrices of family 0; 'lf' = every channel carries a lightly damped
# low-frequency root pair (angle 0.12..0.45 rad per sample, radius 0.97..0.995; further pairs 0.6..2.8 rad, radius 0.8..0.95; the
# last factor's radius makes the product of the radii 1, as alpha_0 = I and alpha_n ~ I demand) plus a payload coupling of 0.02
NEAR_DIST = {"1e-9": (1e-9, 1e-10), "1e-7": (1e-7, 1e-9), "0.9e-5": (0.9e-5, 0.9e-8), "1.1e-5": (1.1e-5, 1.1e-8)}
NEAR_KINDS = ("g", "lf")
NEAR_FAMS = tuple(f"nearI:{d}:{k}" for d in NEAR_DIST for k in NEAR_KINDS)
NEAR_COUPLING = 0.02


# ---- ground truth --------------------------------------------------------------------------------

def nf_of(kind, n):
    return {"min": 4 * (n + 1), "min+7": 4 * (n + 1) + 7, "257": 257}[kind]


def coefficients(seed, n, Nch, Nref, sgn, fam):
    """Real alpha_0..alpha_n (Nch x Nch), beta_0..beta_n (Nref x Nch) under the library's constraint."""
    tag = f"c05/{n}/{Nch}/{Nref}/{sgn}/{fam}"
    if isinstance(fam, str):
        return near_identity_coefficients(seed, tag, n, Nch, Nref, sgn, fam)
    a_amp, b_amp = ((0.5, 1.0), (0.3, 1e-2), (0.5, 1e-8))[fam]      # family 2: a spectrum of very small level
    alpha = a_amp * payload.normal(seed, tag + "/a", (n + 1, Nch, Nch))
    if sgn == -1:           # 'LO': alpha_0 = I
        alpha[0] = np.eye(Nch)
        alpha[n] = alpha[n] + np.eye(Nch)
    else:                   # 'HI': alpha_n = I
        alpha[n] = np.eye(Nch)
        alpha[0] = alpha[0] + np.eye(Nch)
    beta = b_amp * payload.normal(seed, tag + "/b", (n + 1, Nref, Nch))
    return alpha, beta


def near_identity_coefficients(seed, tag, n, Nch, Nref, sgn, fam):
    """Families 'nearI:<distance>:<kind>' (see NEAR_DIST): the constrained end coefficient is exactly I, the free end coefficient
    is I + D with |D_jj| = delta (alternating signs) and |D_jk| = eps; beta is a payload matrix of unit level."""
    _, dist, kind = fam.split(":")
    delta, eps = NEAR_DIST[dist]
    if kind == "g":
        alpha = 0.5 * payload.normal(seed, tag + "/a", (n + 1, Nch, Nch))
    else:
        npair = n // 2
        alpha = NEAR_COUPLING * payload.normal(seed, tag + "/a", (n + 1, Nch, Nch))
        th = np.empty((Nch, max(npair, 1)))
        rad = np.empty((Nch, max(npair, 1)))
        th[:, 0] = payload.entries(seed, tag + "/th0", (Nch,), lo=0.12, hi=0.45, signed=False)
        rad[:, 0] = payload.entries(seed, tag + "/r0", (Nch,), lo=0.97, hi=0.995, signed=False)
        if npair > 1:
            th[:, 1:] = payload.entries(seed, tag + "/th", (Nch, npair - 1), lo=0.6, hi=2.8, signed=False)
            rad[:, 1:] = payload.entries(seed, tag + "/r", (Nch, npair - 1), lo=0.8, hi=0.95, signed=False)
        for j in range(Nch):
            rr = rad[j, :npair].copy()
            if n % 2 == 0 and npair:
                rr[-1] = 1.0 / np.prod(rr[:-1])                 # product of the radii = 1 (n = 2: the pair lies on the unit circle)
            p = np.array([1.0])
            for k in range(npair):
                p = np.convolve(p, [1.0, -2.0 * np.cos(th[j, k]) / rr[k], 1.0 / rr[k] ** 2])
            if n % 2 == 1:
                p = np.convolve(p, [1.0, float(np.prod(rr ** 2))])   # real root -1/prod(r^2), outside the unit circle for n >= 3
            alpha[:, j, j] += p
    s = np.where((np.arange(Nch) + n + Nch) % 2 == 0, 1.0, -1.0)
    sg = np.where(payload.normal(seed, tag + "/o", (Nch, Nch)) >= 0, 1.0, -1.0)
    near = np.eye(Nch) + np.diag(delta * s) + eps * sg * (1.0 - np.eye(Nch))
    if sgn == -1:
        alpha[0], alpha[n] = np.eye(Nch), near
    else:
        alpha[n], alpha[0] = np.eye(Nch), near
    beta = payload.normal(seed, tag + "/b", (n + 1, Nref, Nch))
    return alpha, beta


def spectrum(alpha, beta, sgn, Nf):
    """Sy[o,:,f] = B_o(Omega_f) A(Omega_f)^-1 on Omega_f = exp(sgn*i*pi*f/(Nf-1))  (= exp(sgn i w dt) on linspace(0, fs/2, Nf))."""
    n = alpha.shape[0] - 1
    Om = np.exp(sgn * 1j * np.pi * np.arange(Nf) / (Nf - 1))
    P = np.array([Om**i for i in range(n + 1)])                 # (n+1, Nf)
    A = np.einsum("if,ijk->fjk", P, alpha)                      # (Nf, Nch, Nch)
    B = np.einsum("if,ijk->fjk", P, beta)                       # (Nf, Nref, Nch)
    # X A = B  <=>  A^T X^T = B^T
    X = np.linalg.solve(np.transpose(A, (0, 2, 1)), np.transpose(B, (0, 2, 1)))   # (Nf, Nch, Nref)
    return np.transpose(X, (2, 1, 0))                            # (Nref, Nch, Nf)


def roots_ref(alpha):
    """Roots of det(sum alpha_i z^i): generalised eigenvalues of the first companion pencil (independent of rmfd2ac)."""
    n = alpha.shape[0] - 1
    m = alpha.shape[1]
    A0 = np.zeros((n * m, n * m))
    B0 = np.eye(n * m)
    if n > 1:
        A0[:-m, m:] = np.eye((n - 1) * m)
    for i in range(n):
        A0[-m:, i * m:(i + 1) * m] = -alpha[i]
    B0[-m:, -m:] = alpha[n]
    return sl.eig(A0, B0, right=False)


def guards(alpha):
    z = roots_ref(alpha)
    if not np.all(np.isfinite(z)):
        return None, "root-at-infinity"
    if np.linalg.cond(alpha[-1]) > 50 or np.linalg.cond(alpha[0]) > 50:
        return None, "cond"
    if np.min(np.abs(z)) < 1e-3:
        return None, "root-near-origin"
    d = np.abs(z[:, None] - z[None, :]) + np.eye(len(z)) * 1e9
    if d.min() < 1e-3:
        return None, "root-separation"
    lam = np.log(z)                      # times 1/dt later: relative quantities do not depend on dt
    if np.min(np.abs(lam)) < 1e-3:
        return None, "root-near-one"
    dl = np.abs(lam[:, None] - lam[None, :]) + np.eye(len(z)) * 1e9
    scale = np.maximum(np.abs(lam)[:, None], np.abs(lam)[None, :])
    if np.min(dl / scale) < 1e-3:
        return None, "pole-separation"
    return z, None


LS_COND_MAX = 1e10
COR_NXSEG = (32, 1024)


def ls_cond(Sy, n, sgn):
    """Condition number of the reduced normal equations of the linear least-squares problem of order n, built from the TRUE
    spectrum (ground truth, no library call): M = sum_o T_o - S_o^T R^-1 S_o with the constraint block removed (last block for the
    positive, first block for the negative basis-function sign). The exact solution has zero residual, so the coefficients any
    double-precision solver returns are off by about eps*cond (observed factor <= 2 over the lattice: 2e-5 at cond 3e12, 1.5e-6 at
    5e11, <= 3e-10 below 2e7); beyond LS_COND_MAX the tolerance 1e-5 is not a statement about the code."""
    Nref, Nch, Nf = Sy.shape
    Om = np.exp(sgn * 1j * np.pi * np.arange(Nf) / (Nf - 1))
    Xo = np.array([Om**i for i in range(n + 1)]).T
    Xoh = Xo.conj().T
    Ro = np.real(Xoh @ Xo)
    M = np.zeros(((n + 1) * Nch, (n + 1) * Nch))
    for o in range(Nref):
        Yo = np.array([-np.kron(xo, Hoi) for xo, Hoi in zip(Xo, Sy[o].T)])
        So = np.real(Xoh @ Yo)
        M += np.real(Yo.conj().T @ Yo) - So.T @ np.linalg.solve(Ro, So)
    sub = M[: n * Nch, : n * Nch] if sgn == 1 else M[Nch:, Nch:]
    try:
        return float(np.linalg.cond(sub))
    except np.linalg.LinAlgError:
        return np.inf


def fit_cannot_resolve(alpha, z, kap):
    """Ground-truth guard of the near-identity families on the routes that FIT the coefficients (fit, class): first-order bound of
    the error of each root caused by the coefficient error eps*cond of the least-squares step (LS_COND text above),
        |dz_j| <= (sum_k |z_j|^k) |dA| / |y^H A'(z_j) x|,   |dA| <= Nch * 4 eps kap max|alpha|,
    x, y = right/left null vectors of the TRUE A(z_j) (SVD), relative to |z_j ln z_j|. The case is skipped when that bound exceeds
    the pole tolerance for some root, or exceeds the distance of a root's Re(lambda)/|lambda| from the not-judged band EDGE (the fit
    could then move the root across the stability boundary: families with both end coefficients ~I have roots that close to the unit
    circle). Observed error / bound <= 0.15 over the quick lattice; nothing but the true coefficients enters."""
    n, Nch = alpha.shape[0] - 1, alpha.shape[1]
    lam = np.log(z)
    relre = np.abs(lam.real) / np.abs(lam)
    margin = np.where(relre > EDGE, np.minimum(TOL, relre - EDGE), TOL)
    dA = Nch * 4 * np.finfo(float).eps * kap * np.max(np.abs(alpha))
    for zj, lj, mj in zip(z, lam, margin):
        P = sum(alpha[k] * zj**k for k in range(n + 1))
        dP = sum(k * alpha[k] * zj ** (k - 1) for k in range(1, n + 1))
        U, _, Vh = np.linalg.svd(P)
        den = abs(U[:, -1].conj() @ dP @ Vh[-1].conj())
        bound = sum(abs(zj) ** k for k in range(n + 1)) * dA / max(den, 1e-300) / (abs(zj) * abs(lj))
        if not bound <= mj:
            return True
    return False


# ---- oracle ---------------------------------------------------------------------------------------

def match_column(got, z, dt, edge=EDGE):
    """got: finite reported poles of the order-n column; z: true roots. Returns (problem or None, worst rel error).
    edge=0: the real parts are exact (designed eigenvalues), 'non-positive' is decided exactly."""
    lam = np.log(z) / dt
    neg_real = (np.abs(z.imag) <= 1e-12 * np.abs(z)) & (z.real < 0)
    if edge == 0:
        must = lam.real <= 0
        never = ~must
    else:
        must = lam.real < -edge * np.abs(lam)
        never = lam.real > edge * np.abs(lam)
    used = np.zeros(len(lam), bool)
    worst = 0.0
    for g in got:
        d = np.abs(g - lam)
        d = np.where(neg_real, np.minimum(d, np.abs(g - np.conj(lam))), d)
        d = np.where(used | never, np.inf, d)
        j = int(np.argmin(d))
        rel = d[j] / abs(lam[j])
        if not rel <= TOL:
            dn = np.abs(g - lam)
            jn = int(np.argmin(dn))
            what = "a root with positive real part (should be blanked)" if never[jn] and dn[jn] <= TOL * abs(lam[jn]) else \
                   ("a root already reported once (duplicate)" if used[jn] and dn[jn] <= TOL * abs(lam[jn]) else "no root of det A(z)")
            return f"reported pole {g:.8g} corresponds to {what}; nearest admissible root {lam[j]:.8g} (rel {rel:.2e})", worst
        used[j] = True
        worst = max(worst, rel)
    miss = must & ~used
    if miss.any():
        j = int(np.argmax(miss))
        return (f"{int(miss.sum())} of {int(must.sum())} roots with negative real part are not reported, "
                f"e.g. lambda={lam[j]:.8g} (z={z[j]:.6g})"), worst
    return None, worst


def judge_tables(t, case, route, Fn, Xi, Phi, Lam, z, n, Nch, Nphi, ordmax, dt):
    """Structure of every column + content of column n-1."""
    rows = (ordmax + 1) * Nch
    if Fn.shape != (rows, ordmax) or Xi.shape != (rows, ordmax) or Lam.shape != (rows, ordmax) \
            or Phi.shape != (rows, ordmax, Nphi):
        t.violation(f"{route}:table-shape",
                    f"pole tables have shapes Fn{Fn.shape} Xi{Xi.shape} Lambds{Lam.shape} Phi{Phi.shape}, expected "
                    f"({rows},{ordmax}) and ({rows},{ordmax},{Nphi}) for ordmax={ordmax}, Nch={Nch}", case)
        return False
    ok = True
    for k in range(ordmax):
        fin_l = np.isfinite(Lam[:, k])
        fin_f = ~np.isnan(Fn[:, k])
        fin_x = ~np.isnan(Xi[:, k])
        fin_p = ~np.isnan(Phi[:, k, :])
        computed = (k + 2) * Nch
        # padding: rows beyond the (k+2)*Nch computed eigenvalues are NaN everywhere
        if fin_f[computed:].any() or fin_x[computed:].any() or fin_p[computed:].any() or (~np.isnan(Lam[computed:, k])).any():
            t.violation(f"{route}:padding-not-nan",
                        f"column {k} (order {k+1}): rows beyond the {(k+2)*Nch} computed eigenvalues are not all NaN "
                        f"(Fn {Fn[computed:, k][:4]}, Xi {Xi[computed:, k][:4]})", case)
            ok = False
            continue
        if max(fin_l.sum(), fin_f.sum()) > (k + 1) * Nch:
            t.violation(f"{route}:too-many-poles",
                        f"column {k} (order {k+1}) reports {int(max(fin_l.sum(), fin_f.sum()))} poles, more than order*Nch = {(k+1)*Nch}", case)
            ok = False
            continue
        if k != n - 1:
            continue        # other orders: only padding and count are stated
        # order n: a cell is a pole in all four tables or NaN in Fn, Xi and Phi alike
        if (fin_f != fin_l).any() or (fin_x != fin_l).any() or (fin_p.all(1) != fin_l).any() or (fin_p.any(1) != fin_l).any():
            r = int(np.argmax((fin_f != fin_l) | (fin_x != fin_l) | (fin_p.all(1) != fin_l) | (fin_p.any(1) != fin_l)))
            t.violation(f"{route}:nan-pattern",
                        f"order-{n} column, row {r}: Lambds={Lam[r, k]} Fn={Fn[r, k]} Xi={Xi[r, k]} Phi={Phi[r, k, :3]} - a cell must be "
                        f"a pole in all tables or NaN in Fn, Xi and Phi alike", case)
            ok = False
            continue
        if np.isinf(Fn[:, k]).any() or np.isinf(Xi[:, k]).any():
            t.violation(f"{route}:inf-in-table", f"order-{n} column: infinite entries in Fn/Xi", case)
            ok = False
            continue
        # each reported cell: Fn, Xi from its own lambda; shape normalised to a unit largest component
        g = Lam[fin_l, k]
        if len(g):
            e_f = np.max(np.abs(Fn[fin_l, k] - np.abs(g) / (2 * np.pi)) / (np.abs(g) / (2 * np.pi)))
            e_x = np.max(np.abs(Xi[fin_l, k] + g.real / np.abs(g)))
            ph = Phi[fin_l, k, :]
            big = ph[np.arange(len(g)), np.argmax(np.abs(ph), axis=1)]
            e_p = np.max(np.abs(big - 1.0))
            t.err(f"{route}:fn_vs_lambda", e_f)
            t.err(f"{route}:xi_vs_lambda", e_x)
            t.err(f"{route}:phi_unit", e_p)
            if not e_f <= TOL_SELF:
                t.violation(f"{route}:fn-not-abs-lambda", f"order-{n} column: Fn differs from |lambda|/2pi by {e_f:.2e} relative", case)
                ok = False
            if not e_x <= TOL_SELF:
                t.violation(f"{route}:xi-not-minus-re-over-abs", f"order-{n} column: Xi differs from -Re(lambda)/|lambda| by {e_x:.2e}", case)
                ok = False
            if not e_p <= TOL_SELF:
                t.violation(f"{route}:phi-not-unit-normalised",
                            f"order-{n} column: largest mode-shape component differs from 1 by {e_p:.2e}", case)
                ok = False
    if not ok:
        return False
    # content at order n
    k = n - 1
    got = Lam[np.isfinite(Lam[:, k]), k]
    problem, worst = match_column(got, z, dt)
    t.err(f"{route}:pole_rel", worst)
    if problem:
        t.violation(f"{route}:poles-order-n", f"order-{n} column: {problem}; {len(got)} poles reported for {len(z)} roots", case)
        ok = False
    return ok


def classify(z, dt):
    lam = np.log(z) / dt
    return int((lam.real < -EDGE * np.abs(lam)).sum()), int((lam.real > EDGE * np.abs(lam)).sum())


# ---- one case -------------------------------------------------------------------------------------

def run_case(seed, c):
    """c = dict(route, n, Nch, Nref, sgn, nfk, dt, extra, fam)."""
    from pyoma2.functions import plscf

    t = Tally()
    t.states = 1
    n, Nch, Nref, sgn, dt = c["n"], c["Nch"], c["Nref"], c["sgn"], c["dt"]
    ordmax = n + c["extra"]
    case = dict(c, seed=seed)
    cid = (c["route"][0], n, Nch, Nref, sgn, c["nfk"], DTS.index(dt) if dt in DTS else dt, c["extra"], c["fam"])
    alpha, beta = coefficients(seed, n, Nch, Nref, sgn, c["fam"])
    z, why = guards(alpha)
    if z is None:
        t.skipped_by_guard += 1
        t.outcomes[f"guard:{why}"] += 1
        return t
    n_keep, n_blank = classify(z, dt)
    route = c["route"]

    if route == "fit":
        Sy = spectrum(alpha, beta, sgn, nf_of(c["nfk"], n))
        kap = ls_cond(Sy, n, sgn)
        t.err("fit:guard.cond(reduced normal equations of the true spectrum)", min(kap, 1e300))
        if not kap <= LS_COND_MAX:
            t.skipped_by_guard += 1
            t.outcomes["guard:ls-normal-equations-ill-conditioned"] += 1
            return t
        if isinstance(c["fam"], str) and fit_cannot_resolve(alpha, z, kap):
            t.skipped_by_guard += 1
            t.outcomes["guard:nearI:eps*cond*root-sensitivity-above-the-tolerance-or-the-distance-to-the-stability-boundary"] += 1
            return t
        t.evaluations += 1
        try:
            Ad, Bn = plscf.pLSCF(Sy, dt, ordmax, sgn_basf=sgn)
        except np.linalg.LinAlgError as e:
            if c["extra"] > 0 and "ingular" in str(e):
                t.not_judged += 1
                t.outcomes["overfit-order-singular:not-judged"] += 1
                return t
            t.violation("fit:raises:LinAlgError:pLSCF", f"pLSCF raised {e!r} with ordmax == n on a well-conditioned case", case)
            return t
        except Exception as e:  # the property requires the call to succeed
            t.violation(f"fit:raises:{type(e).__name__}:pLSCF", f"pLSCF raised {e!r}", case)
            return t
        t.transitions += 1
        if len(Ad) != ordmax or len(Bn) != ordmax:
            t.violation("fit:model-count", f"pLSCF returned {len(Ad)} models for ordmax={ordmax}", case)
            return t
        a_hat, b_hat = np.asarray(Ad[n - 1]), np.asarray(Bn[n - 1])
        if a_hat.shape != alpha.shape or b_hat.shape != beta.shape:
            t.violation("fit:coefficient-shape", f"Ad[n-1]{a_hat.shape} Bn[n-1]{b_hat.shape}, expected {alpha.shape} {beta.shape}", case)
            return t
        ea = np.max(np.abs(a_hat - alpha)) / np.max(np.abs(alpha))
        eb = np.max(np.abs(b_hat - beta)) / np.max(np.abs(beta))
        t.err("fit:alpha_rel", ea)
        t.err("fit:beta_rel", eb)
        t.validated += 1
        good = True
        if not ea <= TOL:
            t.violation("fit:denominator", f"Ad[n-1] differs from the true denominator coefficients by {ea:.3e} (relative to max|alpha|)", case)
            good = False
        if not eb <= TOL:
            t.violation("fit:numerator", f"Bn[n-1] differs from the true numerator coefficients by {eb:.3e} (relative to max|beta|)", case)
            good = False
        t.evaluations += 1
        try:
            Fn, Xi, Phi, Lam = plscf.pLSCF_poles(Ad, Bn, dt, "per", NXSEG)
        except np.linalg.LinAlgError as e:
            if c["extra"] > 0:
                t.not_judged += 1
                t.outcomes["overfit-order-eig-failed:not-judged"] += 1
                return t
            t.violation("fit:raises:LinAlgError:pLSCF_poles", f"pLSCF_poles raised {e!r}", case)
            return t
        except Exception as e:
            t.violation(f"fit:raises:{type(e).__name__}:pLSCF_poles", f"pLSCF_poles raised {e!r}", case)
            return t
        t.transitions += 1
        if good:
            good = judge_tables(t, case, "fit", Fn, Xi, Phi, Lam, z, n, Nch, Nref, ordmax, dt)
            t.validated += 1

    elif route == "true":
        # second half alone: the true coefficients through rmfd2ac/ac2mp_poly (via pLSCF_poles) - exact input
        t.evaluations += 1
        try:
            Fn, Xi, Phi, Lam = plscf.pLSCF_poles([alpha.copy()], [beta.copy()], dt, "per", NXSEG)
        except Exception as e:
            t.violation(f"true:raises:{type(e).__name__}:pLSCF_poles", f"pLSCF_poles raised {e!r} on the true coefficients", case)
            return t
        t.transitions += 1
        # a single model of order n: the table has one column holding order n; present it as column n-1 of an n-column table
        rows = (n + 1) * Nch
        if Fn.shape != (rows, 1) or Phi.shape != (rows, 1, Nref):
            t.violation("true:table-shape", f"tables for one order-{n} model have shapes Fn{Fn.shape} Phi{Phi.shape}", case)
            return t
        good = judge_single(t, case, Fn[:, 0], Xi[:, 0], Phi[:, 0, :], Lam[:, 0], z, n, Nch, dt)
        t.validated += 1
        # the same call for spectra estimated by the correlogram (methodSy='cor'): the library adds the exponential-window term
        # 1/(tau*dt), tau = -(nxseg-1)/ln(0.01), to the poles it reports; WHICH roots are reported (the blanking and counting
        # clauses) is still decided on the roots themselves, so the reported poles minus that term must be exactly the roots
        # with non-positive real part
        lam_true = np.log(z) / dt
        for nx in COR_NXSEG:
            t.evaluations += 1
            try:
                _f, _x, _p, Lc = plscf.pLSCF_poles([alpha.copy()], [beta.copy()], dt, "cor", nx)
            except Exception as e:
                t.violation(f"true:cor:raises:{type(e).__name__}:pLSCF_poles", f"pLSCF_poles(methodSy='cor', nxseg={nx}) raised {e!r} on the true coefficients", case)
                good = False
                continue
            shift = -np.log(0.01) / ((nx - 1) * dt)
            col = np.asarray(Lc)[:, 0]
            got = col[np.isfinite(col)] - shift
            problem, worst = match_column(got, z, dt)
            t.err("true:cor:pole_rel", worst)
            t.validated += 1
            if problem:
                t.violation("true:cor:poles-order-n", f"methodSy='cor', nxseg={nx}: order-{n} column minus the window term: {problem}; "
                                                      f"{len(got)} poles reported for {len(z)} roots", case)
                good = False
            else:
                t.outcomes["true:cor:holds"] += 1
                if np.any((lam_true.real < -EDGE * np.abs(lam_true)) & (lam_true.real > -shift)):
                    t.outcomes["true:cor:stable-root-less-damped-than-the-window-term-reported"] += 1
        # rmfd2ac alone: its state matrix has the roots of det A(z) plus Nch structural zeros as eigenvalues
        t.evaluations += 1
        try:
            A, C = plscf.rmfd2ac(alpha.copy(), beta.copy())
        except Exception as e:
            t.violation(f"true:raises:{type(e).__name__}:rmfd2ac", f"rmfd2ac raised {e!r}", case)
            return t
        t.transitions += 1
        if A.shape != (rows, rows) or C.shape != (Nref, rows):
            t.violation("true:companion-shape", f"rmfd2ac returned A{A.shape} C{C.shape}, expected ({rows},{rows}) ({Nref},{rows})", case)
            return t
        ev = np.linalg.eigvals(A)
        nz = ev[np.abs(ev) > 1e-6]
        d = np.abs(nz[:, None] - z[None, :]) if len(nz) else np.zeros((0, len(z)))
        ok_c = len(nz) == len(z) and len(set(np.argmin(d, axis=1))) == len(z) and np.max(d.min(1) / np.abs(z[np.argmin(d, axis=1)])) <= TOL
        t.validated += 1
        if not ok_c:
            t.violation("true:companion-spectrum",
                        f"the non-zero eigenvalues of rmfd2ac's state matrix ({len(nz)}) are not the {len(z)} roots of det A(z)", case)
            good = False

    else:  # route == "class": the algorithm class through SingleSetup, the spectral estimate replaced by the exact one
        if isinstance(c["fam"], str):
            kap = ls_cond(spectrum(alpha, beta, -1, nf_of(c["nfk"], n)), n, -1)
            if not kap <= LS_COND_MAX or fit_cannot_resolve(alpha, z, kap):
                t.skipped_by_guard += 1
                t.outcomes["guard:nearI:eps*cond*root-sensitivity-above-the-tolerance-or-the-distance-to-the-stability-boundary"] += 1
                return t
        good = run_class(t, case, alpha, beta, z, n, Nch, ordmax, dt, c["nfk"])

    if good:
        t.outcomes[f"{route}:holds"] += 1
        if c["extra"] > 0:
            t.outcomes["ordmax>n:judged"] += 1
        if n_blank:
            t.outcomes["blanked-some"] += 1
        if n_keep:
            t.outcomes["reported-some"] += 1
        if np.any((np.abs(z.imag) <= 1e-12 * np.abs(z)) & (z.real < 0) & (np.abs(z) < 1)):
            t.outcomes["stable-root-on-negative-real-axis"] += 1
        if n_blank and n_keep:
            t.nontrivial.add(cid)
        if isinstance(c["fam"], str):
            # vacuity monitors of the near-identity region (ground truth only): which distance / route / sign was judged, and on
            # which side of the closeness window 1e-8 + 1e-5*|I| the free end coefficient lies
            dist = c["fam"].split(":")[1]
            free = alpha[n] if sgn == -1 else alpha[0]
            dev = np.abs(free - np.eye(Nch))
            inside = bool(np.all(dev <= 1e-8 + 1e-5 * np.eye(Nch))) and bool(dev.max() > 0)
            t.outcomes[f"nearI({dist}):{route}:sign{sgn:+d}:holds"] += 1
            t.outcomes["nearI:free-end-coefficient-" + ("inside" if inside else "outside") + "-the-1e-5/1e-8-window-not-I:holds"] += 1
            t.err(f"nearI:{route}:max|free end coefficient - I| (input)", float(dev.max()))
            if n_blank and n_keep:
                t.outcomes[f"nearI:{c['fam'].split(':')[2]}:reported-and-blanked-roots"] += 1
        if n >= 2 and Nch >= 3:
            t.sample({"case": case, "roots_reported": n_keep, "roots_blanked": n_blank, "worst": dict(t.max_err)})
    return t


DIAG_ALPHABET = (-2.0, -1.0, -0.5, 0.5, 2.0)


def run_diag(seed, c):
    """ac2mp_poly on a DIAGONAL state matrix with exactly representable eigenvalues: the eigenvalues, |z| and hence the
    sign of Re ln(z) are exact in floating point (ln|+-1| = 0), so 'positive real part blanked, non-positive reported'
    is decidable exactly - including a pole exactly on the stability boundary (z = -1, Re lambda = 0, reported)."""
    from pyoma2.functions import plscf

    t = Tally()
    t.states = 1
    diag, Nref, dt = [float(x) for x in c["diag"]], c["Nref"], c["dt"]
    case = dict(c, seed=seed)
    N = len(diag)
    A = np.diag(diag)
    C = payload.entries(seed, f"c05/diag/C/{N}/{Nref}", (Nref, N), lo=0.2, hi=1.0)
    z = np.array(diag, dtype=complex)
    t.evaluations += 1
    try:
        fn, xi, phi, lam = plscf.ac2mp_poly(A.copy(), C.copy(), dt, "per", NXSEG)
    except Exception as e:
        t.violation(f"diag:raises:{type(e).__name__}:ac2mp_poly", f"ac2mp_poly raised {e!r}", case)
        return t
    t.transitions += 1
    fn, xi, lam, phi = np.asarray(fn, float), np.asarray(xi, float), np.asarray(lam, complex), np.asarray(phi, complex)
    if fn.shape != (N,) or xi.shape != (N,) or lam.shape != (N,) or phi.shape != (N, Nref):
        t.violation("diag:shape", f"ac2mp_poly returned shapes fn{fn.shape} xi{xi.shape} lam{lam.shape} phi{phi.shape}", case)
        return t
    fin = np.isfinite(lam)
    t.validated += 1
    if ((~np.isnan(fn)) != fin).any() or ((~np.isnan(xi)) != fin).any() or ((~np.isnan(phi)).all(1) != fin).any() \
            or ((~np.isnan(phi)).any(1) != fin).any():
        t.violation("diag:nan-pattern", f"eigenvalues {diag}: lam={lam} fn={fn} xi={xi}: a cell must be a pole in all outputs or NaN alike", case)
        return t
    problem, worst = match_column(lam[fin], z, dt, edge=0)
    t.err("diag:pole_rel", worst)
    if problem:
        on_edge = [a for a in diag if abs(a) == 1.0]
        t.violation("diag:poles" + (":boundary-pole" if on_edge and "not reported" in problem else ""),
                    f"eigenvalues {diag} (dt={dt}): {problem}; reported {lam}", case)
        return t
    g = lam[fin]
    if len(g):
        e_f = np.max(np.abs(fn[fin] - np.abs(g) / (2 * np.pi)) / (np.abs(g) / (2 * np.pi)))
        e_x = np.max(np.abs(xi[fin] + g.real / np.abs(g)))
        ph = phi[fin]
        e_p = np.max(np.abs(ph[np.arange(len(g)), np.argmax(np.abs(ph), axis=1)] - 1.0))
        if not (e_f <= TOL_SELF and e_x <= TOL_SELF and e_p <= TOL_SELF):
            t.violation("diag:fn-xi-phi", f"eigenvalues {diag}: fn/xi/phi inconsistent with lambda ({e_f:.1e}, {e_x:.1e}, {e_p:.1e})", case)
            return t
    t.outcomes["diag:holds"] += 1
    if any(abs(a) == 1.0 for a in diag):
        t.outcomes["diag:pole-exactly-on-the-boundary-reported"] += 1
    if any(abs(a) > 1 for a in diag) and any(abs(a) <= 1 for a in diag):
        t.nontrivial.add(("d", tuple(diag), Nref, dt))
    return t


def judge_single(t, case, fn, xi, phi, lam, z, n, Nch, dt):
    """One order-n column as returned for a single model (route 'true')."""
    Fn = np.full(((n + 1) * Nch, n), np.nan)
    Xi = np.full(((n + 1) * Nch, n), np.nan)
    Lam = np.full(((n + 1) * Nch, n), np.nan, dtype=complex)
    Phi = np.full(((n + 1) * Nch, n, phi.shape[1]), np.nan, dtype=complex)
    Fn[:, n - 1], Xi[:, n - 1], Lam[:, n - 1], Phi[:, n - 1, :] = fn, xi, lam, phi
    return judge_tables(t, case, "true", Fn, Xi, Phi, Lam, z, n, Nch, phi.shape[1], n, dt)


def run_class(t, case, alpha, beta, z, n, Nch, ordmax, dt, nfk):
    import pyoma2.algorithms.plscf as ap
    from pyoma2.algorithms import pLSCF
    from pyoma2.setup import SingleSetup

    Nf = nf_of(nfk, n)
    Sy = spectrum(alpha, beta, -1, Nf)
    freq = np.linspace(0, 1 / dt / 2, Nf)
    calls = []

    def fake_sd_est(Y, Yref, dt_, nxseg, method="per", pov=0.5, **kw):
        calls.append((Y.shape, method))
        return freq, Sy

    data = payload.normal(case["seed"], "c05/class/data", (64, Nch))
    hc = dict(conj=False, xi_max=1e300, mpc_lim=-1e300, mpd_lim=1e300)
    real = ap.fdd.SD_est
    t.evaluations += 1
    try:
        ap.fdd.SD_est = fake_sd_est
        ss = SingleSetup(data, 1 / dt)
        alg = pLSCF(name="p", ordmax=ordmax, nxseg=2 * (Nf - 1), method_SD="per", hc=hc)
        ss.add_algorithms(alg)
        ss.run_by_name("p")
        res = alg.result
    except np.linalg.LinAlgError as e:
        if ordmax > n and "ingular" in str(e):
            t.not_judged += 1
            t.outcomes["overfit-order-singular:not-judged"] += 1
            return False
        t.violation("class:raises:LinAlgError:run", f"pLSCF.run raised {e!r}", case)
        return False
    except Exception as e:
        t.violation(f"class:raises:{type(e).__name__}:run", f"pLSCF.run raised {e!r}", case)
        return False
    finally:
        ap.fdd.SD_est = real
    t.transitions += 1
    if not calls:
        t.not_judged += 1
        t.outcomes["class:spectral-estimate-not-intercepted"] += 1
        return False
    a_hat = np.asarray(res.Ad[n - 1])
    ea = np.max(np.abs(a_hat - alpha)) / np.max(np.abs(alpha)) if a_hat.shape == alpha.shape else np.inf
    t.err("class:alpha_rel", ea)
    t.validated += 1
    if not ea <= TOL:
        t.violation("class:denominator", f"result.Ad[n-1] differs from the true denominator by {ea:.3e}", case)
        return False
    # after the (disabled) hard criteria the order-n column of Fn_poles holds |lambda|/2pi of every root with Re < 0
    lam = np.log(z) / dt
    must = lam.real < -EDGE * np.abs(lam)
    maybe = np.abs(lam.real) <= EDGE * np.abs(lam)
    Fn = np.asarray(res.Fn_poles)
    Xi = np.asarray(res.Xi_poles)
    if Fn.shape != ((ordmax + 1) * Nch, ordmax):
        t.violation("class:table-shape", f"result.Fn_poles has shape {Fn.shape}", case)
        return False
    col = Fn[:, n - 1]
    got = np.sort(col[~np.isnan(col)])
    want = np.sort(np.abs(lam[must]) / (2 * np.pi))
    if maybe.any():
        t.not_judged += 1
        return False
    if len(got) != len(want) or (len(want) and np.max(np.abs(got - want) / want) > TOL):
        t.violation("class:poles-order-n",
                    f"result.Fn_poles[:, n-1] holds {len(got)} frequencies, the true denominator has {len(want)} roots with "
                    f"negative real part; sorted lists differ (first got {got[:3]}, want {want[:3]})", case)
        return False
    xcol = Xi[:, n - 1]
    if (np.isnan(xcol) != np.isnan(col)).any():
        t.violation("class:nan-pattern", "result.Xi_poles and result.Fn_poles have different NaN patterns in the order-n column", case)
        return False
    return True


# ---- exploration ----------------------------------------------------------------------------------

_SEED = 0


def _slice(item):
    route, n, Nch, Nref, inner = item
    t = Tally()
    if route == "diag":
        for diag, nref, dt in inner:
            t.merge(run_diag(_SEED, dict(route="diag", diag=list(diag), Nref=nref, dt=dt)))
        return t
    for sgn, nfk, dt, extra, fam in inner:
        t.merge(run_case(_SEED, dict(route=route, n=n, Nch=Nch, Nref=Nref, sgn=sgn, nfk=nfk, dt=dt, extra=extra, fam=fam)))
    return t


def explore(ctx):
    global _SEED
    _SEED = ctx.seed
    ns = list(range(1, 9)) if ctx.thorough else [1, 2, 3, 4]
    nchs = [2, 3, 4, 5]
    nrefs = [1, 2, 5]
    inner_fit = list(itertools.product(SIGNS, NF_KINDS, DTS, EXTRA, FAMS))
    inner_true = list(itertools.product(SIGNS, ("min",), DTS, (0,), FAMS))
    inner_class = list(itertools.product((-1,), NF_KINDS if ctx.thorough else ("min+7",), (1.0 / 51.2, 1.0), EXTRA, FAMS))
    ns_class = ns if ctx.thorough else [1, 2, 3]
    nch_class = [2, 3, 4] if ctx.thorough else [2, 3]
    # near-identity families (both tiers, same code path): every (n, Nch, Nref) of the tier, both signs, all distances and kinds
    near_fit = list(itertools.product(SIGNS, ("min+7",), (1.0 / 51.2,), EXTRA, NEAR_FAMS))
    near_true = list(itertools.product(SIGNS, ("min",), DTS, (0,), NEAR_FAMS))
    near_class = list(itertools.product((-1,), ("min+7",), (1.0 / 51.2,), EXTRA, NEAR_FAMS))
    ctx.bounds = {
        "fit": {"n": ns, "Nch": nchs, "Nref": nrefs, "sign": list(SIGNS), "Nf": list(NF_KINDS) + ["min = 4(n+1)"],
                "dt": list(DTS), "ordmax-n": list(EXTRA), "coefficient_family": list(FAMS), "methodSy": ["per", "cor (true-coefficient route: which roots are reported; nxseg 32, 1024)"]},
        "true (true coefficients through pLSCF_poles / rmfd2ac)": {"n": ns, "Nch": nchs, "Nref": nrefs, "sign": list(SIGNS),
                                                                 "dt": list(DTS), "coefficient_family": list(FAMS)},
        "class (pLSCF algorithm through SingleSetup, SD_est replaced by the exact spectrum)": {
            "n": ns_class, "Nch = Nref": nch_class, "sign": [-1], "Nf": sorted({k for _, k, _, _, _ in inner_class}),
            "dt": [1.0 / 51.2, 1.0], "ordmax-n": list(EXTRA), "coefficient_family": list(FAMS)},
        "near-identity coefficient families (fit, true and class routes; every n, Nch, Nref of the route)": {
            "free end coefficient (alpha_n for sign -1, alpha_0 for sign +1; the other end is exactly I)":
                "I + D, |D_jj| = delta with alternating signs, |D_jk| = eps",
            "(delta, eps)": {k: list(v) for k, v in NEAR_DIST.items()}, "window they straddle": "1e-8 + 1e-5*|I| (numpy.isclose defaults)",
            "inner coefficients": {"g": "payload matrices (level 0.5)", "lf": "lightly damped low-frequency root pair per channel "
                                   "(0.12..0.45 rad/sample, radius 0.97..0.995) + payload coupling 0.02"},
            "fit": {"sign": list(SIGNS), "Nf": ["min+7"], "dt": [1.0 / 51.2], "ordmax-n": list(EXTRA)},
            "true": {"sign": list(SIGNS), "dt": list(DTS)},
            "class": {"sign": [-1], "Nf": ["min+7"], "dt": [1.0 / 51.2], "ordmax-n": list(EXTRA)}},
        "tolerance": {"coefficients_rel": TOL, "poles_rel": TOL, "self_consistency": TOL_SELF, "edge_not_judged": EDGE},
        "guards": {"near-identity families, fit/class": "4*Nch*eps*cond*max|alpha|*root sensitivity <= min(1e-5, |Re lambda|/|lambda| - 1e-7)",
                   "cond(alpha_0), cond(alpha_n) <=": 50, "root separation >=": 1e-3, "|root| >=": 1e-3,
                   "relative pole separation >=": 1e-3},
    }
    items = []
    cost = {"min": 1, "min+7": 1, "257": 8}
    for n, Nch, Nref in itertools.product(ns, nchs, nrefs):
        for sgn, nfk in itertools.product(SIGNS, NF_KINDS):     # one work item = 12 cases (dt x ordmax x family)
            items.append(("fit", n, Nch, Nref, [i for i in inner_fit if i[0] == sgn and i[1] == nfk]))
        items.append(("true", n, Nch, Nref, inner_true))
        items.append(("fit", n, Nch, Nref, near_fit))
        items.append(("true", n, Nch, Nref, near_true))
    for n, Nch in itertools.product(ns_class, nch_class):
        items.append(("class", n, Nch, Nch, inner_class))
        items.append(("class", n, Nch, Nch, near_class))
    diag_len = (2, 3, 4) if ctx.thorough else (2, 3)
    for N in diag_len:
        items.append(("diag", 0, 0, 0, list(itertools.product(itertools.product(DIAG_ALPHABET, repeat=N), (1, 2), DTS))))
    ctx.bounds["diag (ac2mp_poly on a diagonal state matrix, exact eigenvalues)"] = {
        "eigenvalue_alphabet": list(DIAG_ALPHABET), "size": list(diag_len), "all tuples": True, "Nref": [1, 2], "dt": list(DTS)}
    # heaviest first
    items.sort(key=lambda it: -(it[1] * it[2] * max(it[2], it[3]) * sum(cost.get(i[1], 1) for i in it[4])))
    ctx.pmap(_slice, items, chunksize=1)
    ctx.require("true:cor:holds", "true:cor:stable-root-less-damped-than-the-window-term-reported")
    ctx.require(*[f"nearI({d}):{r}:sign{sg:+d}:holds" for d in NEAR_DIST for r, sg in
                  (("fit", -1), ("fit", 1), ("true", -1), ("true", 1), ("class", -1))])
    ctx.require("nearI:free-end-coefficient-inside-the-1e-5/1e-8-window-not-I:holds",
                "nearI:free-end-coefficient-outside-the-1e-5/1e-8-window-not-I:holds",
                "nearI:g:reported-and-blanked-roots", "nearI:lf:reported-and-blanked-roots")
    ctx.require("fit:holds", "true:holds", "class:holds", "diag:holds", "diag:pole-exactly-on-the-boundary-reported", "ordmax>n:judged", "blanked-some", "reported-some")


def replay(case):
    if case.get("route") == "diag":
        return run_diag(case["seed"], {k: case[k] for k in ("route", "diag", "Nref", "dt")})
    c = {k: case[k] for k in ("route", "n", "Nch", "Nref", "sgn", "nfk", "dt", "extra", "fam")}
    return run_case(case["seed"], c)
