"""Helpers shared by checks C10 and C11 (agent a_labels): own MAC, tiny records, designed-population runs.

Nothing here decides a property; the oracles live in c10.py / c11.py.
"""
import contextlib

import numpy as np

from mc import payload


def mac(x, y):
    """Modal assurance criterion written from its definition (own implementation, not the library's)."""
    x = np.asarray(x, complex)
    y = np.asarray(y, complex)
    num = abs(np.vdot(x, y)) ** 2
    den = np.vdot(x, x).real * np.vdot(y, y).real
    return float(num / den)


def unit(v):
    v = np.asarray(v, complex)
    return v / np.sqrt(np.vdot(v, v).real)


def tiny_data(seed, n, nch=2):
    """Small deterministic broadband record (the numbers are irrelevant: the pole tables are substituted)."""
    return payload.normal(seed, f"a_labels/data/{n}x{nch}", (n, nch))


# ---- designed populations through the real run() -------------------------------------------------
_RAW = {}


def _fake_ssi_poles(*a, **k):
    r = _RAW["ssi"]
    return r[0].copy(), r[1].copy(), r[2].copy(), r[3].copy(), None, None, None


def _fake_plscf_poles(*a, **k):
    r = _RAW["plscf"]
    return r[0].copy(), r[1].copy(), r[2].copy(), r[3].copy()


@contextlib.contextmanager
def designed_ssi():
    """Inside: every SSI run() receives the table stored by set_raw('ssi', ...) instead of the identified one."""
    import pyoma2.algorithms.ssi as alg_ssi

    mod = alg_ssi.ssi
    orig = mod.SSI_poles
    mod.SSI_poles = _fake_ssi_poles
    try:
        yield
    finally:
        mod.SSI_poles = orig


@contextlib.contextmanager
def designed_plscf():
    import pyoma2.algorithms.plscf as alg_pl

    mod = alg_pl.plscf
    orig = mod.pLSCF_poles
    mod.pLSCF_poles = _fake_plscf_poles
    try:
        yield
    finally:
        mod.pLSCF_poles = orig


def set_raw(which, Fn, Xi, Phi):
    lam = np.where(np.isnan(Fn), np.nan, 1.0) * (-Xi * 2 * np.pi * Fn + 1j * 2 * np.pi * Fn * np.sqrt(np.abs(1 - Xi**2)))
    _RAW[which] = (Fn, Xi, Phi, lam.astype(complex))


HC_OFF_SSI = dict(conj=False, xi_max=1.0, mpc_lim=0.0, mpd_lim=10.0, cov_max=1e12)
HC_OFF_PLSCF = dict(conj=False, xi_max=1.0, mpc_lim=0.0, mpd_lim=10.0)
