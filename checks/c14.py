"""C14 - preprocessing composes, metadata stays truthful, rollback restores the start.

Explicit-state BFS over call histories of the real SingleSetup / MultiSetup_PreGER objects, in lock
step with a reference model (the same scipy calls applied to copies of the initial arrays).
"""
import typing

import numpy as np
from scipy import signal

from mc import bfs, canon, payload
from mc.core import Tally

ID = "C14"
TECHNIQUE = ("explicit-state breadth-first search over call histories of the real setup objects, lock-step "
             "conformance with an executable reference model on every transition, state merging by a digest of the "
             "whole instance __dict__, plus an un-merged pass with a congruence check of that digest")
LEVEL_TEXT = ("every call history up to the stated depth over the stated event alphabet is executed on fresh real objects and compared, "
              "transition by transition, with the scipy reference model (data, fs, dt, sample counts, duration, probes, user arrays, stored "
              "initial copies); bounded by depth and alphabet, exhaustive inside them")
RULE = ("a history is one sequence of events from the alphabet executed on a fresh object; non-trivial = it contains "
        "at least two data-changing operations of different kinds (decimate/filter/detrend) or a rollback after a "
        "data-changing operation; distinct by (object kind, event sequence)")
ASSUMPTIONS = [
    "scipy.signal.decimate/detrend/butter/sosfiltfilt are the reference operations (trusted)",
    "Wn and breakpoints are computed from the model's current fs/length, so a stale fs in the implementation changes the filter it designs",
    "events ('bad', ...): a preprocessing call with an illegal argument (q=2.0, ftype='FIR', btype='lowpas', type='quadratic') that raises and is caught by the user; the model is left unchanged by it, and so must the setup be (data, sampling attributes, what later add_algorithms calls hand over). If a tree accepts the argument instead of raising, the history is counted as not judged",
    "event ('rt',): the setup object is replaced by its deepcopy / pickle round trip / save_to_file+load_from_file round trip / shallow copy (rotating with the position in the history) and the history continues on the returned object, judged against the same model (in particular a later rollback must restore the INITIAL data); the file is written to the default temporary directory and removed at once",
    "the duration attribute after a decimation is a listed known finding (pinned by three existing tests); every other duration mismatch is a violation",
]

N = 4096
FS0 = 100.0

# ---- alphabet ---------------------------------------------------------------------------------
QUICK_EVENTS = [
    ("dec", 2, {}),
    ("dec", 3, {}),
    ("dec", 2, {"zero_phase": False}),
    ("det", {}),
    ("det", {"type": "constant"}),
    ("det", {"bp": "half"}),
    ("fil", "lowpass", 0.3, 4),
    ("rb",),
    ("add",),
    # a call with an illegal argument that raises and is caught by the user: the setup must be left exactly as it was
    ("bad", "dec-q-float"),
    ("bad", "fil-btype"),
    # the setup object goes through a round trip (deepcopy / pickle / save_to_file+load_from_file / copy, by rotation) and the
    # history continues on the object that came back: it must be the same setup (data, attributes, initial copies for rollback)
    ("rt",),
]
MORE_EVENTS = [
    ("bad", "dec-ftype"),
    ("bad", "det-type"),
    ("dec", 2, {"ftype": "fir"}),
    ("dec", 4, {}),
    ("dec", 5, {}),
    ("dec", 3, {"ftype": "fir"}),
    ("dec", 2, {"n": 4}),
    ("dec", 3, {"zero_phase": False, "ftype": "fir"}),
    ("dec", 4, {"ftype": "fir", "n": 20}),
    ("det", {"type": "constant", "bp": "thirds"}),
    ("det", {"bp": "sample3000"}),        # legal on the full record, rejected by scipy (and so by the setup) once it is shorter
    ("fil", "highpass", 0.05, 4),
    ("fil", "bandpass", (0.1, 0.4), 2),
    ("fil", "bandstop", (0.2, 0.3), 3),
    ("fil", "lowpass", 0.4, None),
    ("dec", 2, {"axis": 0}),
    ("det", {"axis": 0}),
]

# (class, channels per dataset, reference lists, dtype of the user's records); integer / float32 records are legal input:
# the scipy operations promote them to float64 and the setup must do exactly the same
KINDS_QUICK = [
    ("single", [3], None, "float64"),
    ("preger", [3], [[1]], "float64"),
    ("preger", [3, 2], [[2, 0], [1]], "float64"),
    ("preger", [4, 3, 2], [[3], [2], [0]], "float64"),
    ("single", [2], None, "int16"),
]
KINDS_MORE = [
    ("preger", [5, 4], [[0, 1], [0, 1]], "float64"),
    ("preger", [5, 3, 4], [[4, 3], [2, 1], [1, 0]], "float64"),
    ("single", [2], None, "float64"),
    ("preger", [3, 2], [[0, 2], [1]], "float32"),
    ("preger", [2, 3], [[1], [0]], "int64"),
]


def make_data(seed, kind_idx, nchs, dtype="float64"):
    out = []
    t = np.arange(N)[:, None]
    for j, nch in enumerate(nchs):
        x = payload.normal(seed, f"c14/{kind_idx}/{j}", (N, nch))
        x = x + 0.001 * t * (1 + 0.1 * np.arange(nch)) + 3.0 + np.arange(nch)
        if dtype.startswith("int"):
            x = np.round(40.0 * x).astype(dtype)       # raw counts
        else:
            x = x.astype(dtype)
        out.append(x)
    return out


# ---- reference model --------------------------------------------------------------------------
def split(datasets, ref_ind):
    """Reference/roving partition written from the statement: references in listed order, roving ascending."""
    out = []
    for d, r in zip(datasets, ref_ind):
        mov = [c for c in range(d.shape[1]) if c not in r]
        out.append({"ref": d[:, list(r)].T, "mov": d[:, mov].T})
    return out


class Model:
    def __init__(self, datasets, fs, ref):
        self.init = [d.copy() for d in datasets]
        self.fs0 = fs
        self.ref = ref
        self.reset()

    def reset(self):
        self.ds = [d.copy() for d in self.init]
        self.fs = self.fs0
        self.q_last = None
        self.probes = []

    def kwargs(self, ev):
        if ev[0] == "det":
            kw = dict(ev[1])
            n = len(self.ds[0])
            if kw.get("bp") == "half":
                kw["bp"] = n // 2
            elif kw.get("bp") == "thirds":
                kw["bp"] = [n // 3, 2 * n // 3]
            elif kw.get("bp") == "sample3000":
                kw["bp"] = 3000
            return kw
        return None

    def apply(self, ev):
        if ev[0] == "dec":
            kw = dict(ev[2])
            kw.setdefault("axis", 0)
            new = [signal.decimate(d, ev[1], **kw) for d in self.ds]
            self.ds = new
            self.fs = self.fs / ev[1]
            self.q_last = ev[1]
        elif ev[0] == "det":
            kw = self.kwargs(ev)
            kw.setdefault("axis", 0)
            self.ds = [signal.detrend(d, **kw) for d in self.ds]
        elif ev[0] == "fil":
            order = 8 if ev[3] is None else ev[3]
            sos = signal.butter(order, self.wn(ev), btype=ev[1], output="sos", fs=self.fs)
            self.ds = [signal.sosfiltfilt(sos, d, axis=0) for d in self.ds]
        elif ev[0] == "rb":
            self.reset()
        elif ev[0] == "add":
            self.probes.append((self.fs, [d.copy() for d in self.ds]))
        elif ev[0] in ("bad", "rt"):
            pass                       # a rejected call changes nothing; neither does a round trip of the object

    def wn(self, ev):
        w = ev[2]
        nyq = self.fs / 2
        return tuple(x * nyq for x in w) if isinstance(w, tuple) else w * nyq


# ---- implementation side ----------------------------------------------------------------------
_PROBE = None


def probe_cls():
    global _PROBE
    if _PROBE is None:
        from pyoma2.algorithms import BaseAlgorithm
        from pyoma2.algorithms.data.result import BaseResult
        from pyoma2.algorithms.data.run_params import BaseRunParams

        class ProbeParams(BaseRunParams):
            p: int = 1

        class ProbeResult(BaseResult):
            pass

        class Probe(BaseAlgorithm[ProbeParams, ProbeResult, typing.Iterable[float]]):
            RunParamCls = ProbeParams
            ResultCls = ProbeResult

            def run(self):
                return ProbeResult()

            def mpe(self, *a, **k):
                return None

            def mpe_from_plot(self, *a, **k):
                return None

        # picklable: the classes are registered under module-level names (the round-trip event pickles setups that hold probes)
        for c in (ProbeParams, ProbeResult, Probe):
            c.__qualname__ = c.__name__
            c.__module__ = __name__
            globals()[c.__name__] = c
        _PROBE = Probe
    return _PROBE


def build(kind, user):
    from pyoma2.setup import MultiSetup_PreGER, SingleSetup

    k, nchs, ref = kind[0], kind[1], kind[2]
    if k == "single":
        return SingleSetup(user[0], FS0)
    return MultiSetup_PreGER(fs=FS0, ref_ind=[list(r) for r in ref], datasets=user)


def impl_apply(o, ev, m, nprobe, form=0):
    """Apply the event through the public API. `form` rotates the legal ways of writing the same call (positional or
    keyword arguments; band edges as tuple, list or array; breakpoints as int, list or array): they must all mean the same."""
    if ev[0] == "dec":
        if form % 2:
            o.decimate_data(ev[1], **dict(ev[2]))
        else:
            o.decimate_data(q=ev[1], **dict(ev[2]))
    elif ev[0] == "det":
        kw = m.kwargs(ev)
        if "bp" in kw and form % 3 == 1:
            kw["bp"] = np.atleast_1d(kw["bp"])
        elif "bp" in kw and form % 3 == 2 and not np.isscalar(kw["bp"]):
            kw["bp"] = tuple(kw["bp"])
        o.detrend_data(**kw)
    elif ev[0] == "fil":
        wn = m.wn(ev)
        if isinstance(wn, tuple):
            wn = [wn, list(wn), np.asarray(wn)][form % 3]
        elif form % 3 == 2:
            wn = np.float64(wn)
        if ev[3] is None:
            o.filter_data(Wn=wn, btype=ev[1])
        elif form % 2:
            o.filter_data(wn, ev[3], ev[1])
        else:
            o.filter_data(Wn=wn, order=ev[3], btype=ev[1])
    elif ev[0] == "rb":
        o.rollback()
    elif ev[0] == "add":
        o.add_algorithms(probe_cls()(name=f"probe{nprobe}", p=1))
    elif ev[0] == "bad":
        try:
            BAD_CALLS[ev[1]](o, m)
        except Exception:
            return "raised"            # ... and the user catches it
        return "accepted"


def round_trip(o, form):
    import copy
    import os
    import pickle
    import tempfile

    k = form % 4
    if k == 0:
        return copy.deepcopy(o)
    if k == 1:
        return pickle.loads(pickle.dumps(o))
    if k == 2:
        from pyoma2.functions import gen

        fd, path = tempfile.mkstemp(suffix=".pkl", prefix="c14-rt-")     # default temporary directory; removed below
        os.close(fd)
        try:
            gen.save_to_file(o, path)
            return gen.load_from_file(path)
        finally:
            os.remove(path)
    return copy.copy(o)


# calls with an illegal argument (scipy rejects each of them on every record of the lattice)
BAD_CALLS = {
    "dec-q-float": lambda o, m: o.decimate_data(q=2.0),
    "dec-ftype": lambda o, m: o.decimate_data(q=2, ftype="FIR"),
    "fil-btype": lambda o, m: o.filter_data(Wn=0.3 * m.fs / 2, order=4, btype="lowpas"),
    "det-type": lambda o, m: o.detrend_data(type="quadratic"),
}


def close(a, b):
    a = np.asarray(a)
    b = np.asarray(b)
    if a.shape != b.shape:
        return False
    scale = max(1.0, float(np.max(np.abs(b))) if b.size else 1.0)
    return bool(np.allclose(a, b, rtol=1e-10, atol=1e-12 * scale))


def feq(a, b, rel=1e-12):
    try:
        return abs(float(a) - float(b)) <= rel * max(abs(float(b)), 1e-300)
    except Exception:
        return False


def compare(kind, o, m):
    """List of field names in which the implementation's state differs from the model's."""
    errs = []
    single = kind[0] == "single"
    try:
        if single:
            if not close(o.data, m.ds[0]):
                errs.append("data")
        else:
            want = split(m.ds, m.ref)
            got = o.data
            ok = len(got) == len(want) and all(close(g["ref"], w["ref"]) and close(g["mov"], w["mov"]) for g, w in zip(got, want))
            if not ok:
                errs.append("data")
    except Exception as e:
        errs.append(f"data({type(e).__name__})")
    if not feq(o.fs, m.fs):
        errs.append("fs")
    if not feq(o.dt, 1.0 / m.fs):
        errs.append("dt")
    lens = [len(d) for d in m.ds]
    Ts = [n / m.fs for n in lens]
    if single:
        if o.Ndat != lens[0]:
            errs.append("Ndat")
        if not feq(o.T, Ts[0], 1e-9):
            errs.append("T")
    else:
        if list(o.Ndats) != lens:
            errs.append("Ndat")
        if len(o.Ts) != len(Ts) or not all(feq(a, b, 1e-9) for a, b in zip(o.Ts, Ts)):
            errs.append("T")
    return errs


def t_is_listed_finding(kind, o, m):
    """True iff the duration is exactly T_model / q_last (the pinned _decimate_data formula)."""
    if m.q_last is None:
        return False
    lens = [len(d) for d in m.ds]
    want = [n / m.fs / m.q_last for n in lens]
    got = [o.T] if kind[0] == "single" else list(o.Ts)
    return len(got) == len(want) and all(feq(a, b, 1e-9) for a, b in zip(got, want))


def check_probes(kind, o, m):
    """Algorithms added since the last rollback must hold the model's data / fs / dt of the moment they were added."""
    errs = []
    algs = getattr(o, "algorithms", {})
    names = sorted((n for n in algs if n.startswith("probe")), key=lambda s: int(s[5:]))
    if len(names) < len(m.probes):
        return ["probe-missing"]
    for j, (fs, ds) in enumerate(m.probes):
        a = algs[names[len(names) - len(m.probes) + j]]
        if not feq(a.fs, fs) or not feq(a.dt, 1.0 / fs):
            errs.append("probe-fs")
        if kind[0] == "single":
            if not close(a.data, ds[0]):
                errs.append("probe-data")
        else:
            want = split(ds, m.ref)
            got = a.data
            if len(got) != len(want) or not all(close(g["ref"], w["ref"]) and close(g["mov"], w["mov"]) for g, w in zip(got, want)):
                errs.append("probe-data")
    return errs


def ev_name(ev):
    return "/".join(str(x) for x in ev)


# ---- one history ------------------------------------------------------------------------------
_CFG = {}


def run_history(kind_idx, kind, events, hist, seed, judge_all=False):
    """Replay `hist` (event indices) on a fresh object and the model; judge the last transition
    (all of them if judge_all). Returns (Tally, canonical key or None when exploration stops here)."""
    t = Tally()
    base = make_data(seed, kind_idx, kind[1], kind[3] if len(kind) > 3 else "float64")
    user = [d.copy() for d in base]
    user_h = [canon.arr_digest(d) for d in user]
    o = build(kind, user if kind[0] != "single" else user)
    m = Model(base, FS0, kind[2])
    init_h = initial_hashes(kind, o)
    nprobe = 0
    evs = [events[i] for i in hist]
    case = {"kind_idx": kind_idx, "kind": kind, "events": evs, "seed": seed}
    stop = False
    for step, ev in enumerate(evs):
        last = step == len(evs) - 1
        judge = last or judge_all
        nprobe = len(m.probes)            # probes are numbered since the last rollback (the model forgets them there)
        try:
            m.apply(ev)
            mexc = None
        except Exception as e:
            mexc = e
        try:
            if ev[0] == "rt":
                o = round_trip(o, step + len(evs))
                how = None
                if judge:
                    t.outcomes["round-trip"] += 1
            else:
                how = impl_apply(o, ev, m, nprobe, form=step + len(evs))
            iexc = None
        except Exception as e:
            iexc = e
        if ev[0] == "bad" and iexc is None:
            if how != "raised":        # this tree accepts the argument: what the call then means is not defined by the statement
                if judge:
                    t.outcomes["illegal-argument-accepted(not judged)"] += 1
                    t.not_judged += 1
                stop = True
                break
            if judge:
                t.outcomes["rejected-call-caught"] += 1
        if mexc is not None and iexc is not None:
            if judge:
                t.outcomes["both-reject"] += 1
            stop = True
            break
        if mexc is not None and iexc is None:
            if judge:
                t.outcomes["scipy-rejects-impl-accepts(not judged)"] += 1
                t.not_judged += 1
            stop = True
            break
        if iexc is not None:
            if judge:
                t.violation(f"rejects:{type(iexc).__name__}:{ev_name(ev)}:{kind[0]}",
                            f"{kind[0]} {ev_name(ev)} raised {type(iexc).__name__}: {iexc} although the same scipy call succeeds "
                            f"(documented keyword not accepted, or state corrupted by an earlier step); history {[ev_name(e) for e in evs[:step + 1]]}",
                            case)
            stop = True
            break
        if judge:
            t.validated += 1
            errs = compare(kind, o, m) + check_probes(kind, o, m)
            if ev[0] == "rb":
                t.outcomes["rollback"] += 1
            # user arrays and stored initial copies
            if [canon.arr_digest(d) for d in user] != user_h:
                errs.append("user-array-modified")
            if initial_hashes(kind, o) != init_h:
                errs.append("initial-copy-modified")
            if errs == ["T"] and t_is_listed_finding(kind, o, m):
                t.violation("T-after-decimate@_decimate_data",
                            f"duration attribute equals samples*dt/q after decimate (q={m.q_last}); history {[ev_name(e) for e in evs[:step + 1]]}", case)
                t.outcomes["T-finding"] += 1
            elif errs:
                if "T" in errs and t_is_listed_finding(kind, o, m):
                    errs = [e for e in errs if e != "T"]
                    t.violation("T-after-decimate@_decimate_data",
                                f"duration attribute equals samples*dt/q after decimate (q={m.q_last})", case)
                t.violation(f"state-mismatch:{'+'.join(sorted(set(errs)))}:{kind[0]}:after-{ev[0]}",
                            f"{kind[0]} differs from the reference model in {sorted(set(errs))} after history {[ev_name(e) for e in evs[:step + 1]]}",
                            case)
            else:
                t.outcomes["agree"] += 1
    key = None
    if not stop:
        key = canon.digest({"o": o.__dict__})
    kinds = {e[0] for e in evs if e[0] in ("dec", "det", "fil")}
    rb_after = any(e[0] == "rb" and any(x[0] in ("dec", "det", "fil") for x in evs[:i]) for i, e in enumerate(evs))
    if len(kinds) >= 2 or rb_after:
        t.nontrivial.add((kind_idx, tuple(hist)))
    t.evaluations += 1
    return t, key


def initial_hashes(kind, o):
    out = []
    for name in ("_initial_data", "_initial_datasets"):
        v = getattr(o, name, None)
        if v is None:
            continue
        if isinstance(v, (list, tuple)):
            out += [canon.arr_digest(x) for x in v]
        else:
            out.append(canon.arr_digest(v))
    return out


def _runner(hist):
    return run_history(_CFG["kind_idx"], _CFG["kind"], _CFG["events"], hist, _CFG["seed"])


def explore(ctx):
    events = list(QUICK_EVENTS)
    kinds = list(KINDS_QUICK)
    if ctx.thorough:
        events += MORE_EVENTS
        kinds += KINDS_MORE
    depth = 4
    ud = 2 if not ctx.thorough else 3
    ctx.bounds = {
        "object_kinds": kinds, "events": [ev_name(e) for e in events], "merged_bfs_depth": depth,
        "merged_bfs_depth_note": "thorough: depth 4 over the 23 events for the first 5 object kinds, depth 3 for the 5 further kinds",
        "unmerged_depth": ud, "samples_per_channel": N, "fs0": FS0,
        "extra_depth5_over_quick_alphabet": bool(ctx.thorough),
    }
    for ki, kind in enumerate(kinds):
        _CFG.update(kind_idx=ki, kind=kind, events=events, seed=ctx.seed)
        label = f"k{ki}:{kind[0]}{len(kind[1])}:{kind[3] if len(kind) > 3 else ""}/"
        d_here = depth if (not ctx.thorough or ki < len(KINDS_QUICK)) else depth - 1     # thorough: the extra kinds to depth 3
        seen = bfs.merged(ctx, _runner, len(events), d_here, label=label)
        if ki == 0:
            for k, h in list(seen.items())[:3] + list(seen.items())[-3:]:
                ctx.tally.sample({"object": kind, "history": [ev_name(events[i]) for i in h], "state_digest": k})
        keys, broken = bfs.unmerged(ctx, _runner, len(events), ud, label=label)
        for h0, h1, evs in broken:
            ctx.tally.violation(f"hidden-state:{kind[0]}",
                                f"histories {h0} and {h1} reach the same instance state but differ after events {evs}: behaviour depends on state outside the object",
                                {"kind_idx": ki, "kind": kind, "events": [events[i] for i in h1], "seed": ctx.seed, "other": [events[i] for i in h0]})
    if ctx.thorough:
        events5 = list(QUICK_EVENTS)
        for ki, kind in enumerate(kinds[:4]):
            _CFG.update(kind_idx=ki, kind=kind, events=events5, seed=ctx.seed)
            bfs.merged(ctx, _runner, len(events5), 5, label=f"d5/{kind[0]}{len(kind[1])}/")
    ctx.require("agree", "rollback", "both-reject" if ctx.thorough else "agree", "rejected-call-caught", "round-trip")


def replay(case):
    kind = tuple(case["kind"])
    evs = [tuple(tuple(x) if isinstance(x, list) else x for x in e) for e in case["events"]]
    t, _ = run_history(case["kind_idx"], kind, evs, tuple(range(len(evs))), case["seed"], judge_all=True)
    return t
