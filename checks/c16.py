"""C16 - interactive pole picking hands over exactly the picked (frequency, order) pairs.

Explicit-state BFS over mouse/key event histories through the REAL dialog (SelFromPlot), entered through
setup.mpe_from_plot(name); Tk is replaced by inert stand-ins whose mainloop() hands control to the explorer, the
canvas stand-in is a real FigureCanvasAgg so the dialog's own mpl_connect registrations receive the events.
"""
import numpy as np

from mc import bfs, canon
from mc.core import Tally

ID = "C16"
TECHNIQUE = ("explicit-state breadth-first search over mouse/key event histories driven through the real SelFromPlot dialog "
             "(head-less Tk stand-ins, real Matplotlib callback registry), lock-step conformance with a list-of-pairs "
             "model on every transition and on the hand-over to modal-parameter extraction at every state")
LEVEL_TEXT = ("every event history up to the stated depth over the stated click grid is driven through the real dialog and compared with the "
              "list-of-pairs model after every event; in every state reached the dialog is closed and the pairs handed to extraction and the "
              "extracted modes are compared with the model; the dialog is opened with the default frequency band and with non-default bands "
              "(clicks and poles outside the band) - the band variants over a smaller click alphabet")
RULE = ("a history is a sequence of events (press/release shift, click(button, x, y)) on a fresh dialog; non-trivial = at "
        "least two picks at different model orders (or lines) in non-ascending frequency order, or a deselection after "
        "two picks; distinct by (variant, event sequence)")
ASSUMPTIONS = [
    "tkinter widgets are replaced by inert stand-ins; everything else (figure, callback registry, handlers, stab_plot/CMIF_plot, extraction) is the real code",
    "a pick at a model order that holds no retained pole cannot select anything: the handler may raise (a live session swallows it) but the selection must be left unchanged",
    "click coordinates keep away from exact ties (nearest order, nearest pole); ties between identical selected entries accept either",
    "x_data_pole / y_data_pole (scratch written before read inside one handler) are excluded from the canonical state; the un-merged congruence pass checks that exclusion",
    "the frequency band the dialog is opened with (freqlim of mpe_from_plot) is a variant axis: the default band, and bands that leave click abscissae and "
    "retained poles / frequency lines outside on one or on both sides; the band only sets the initial view (the toolbar pans and zooms, so the abscissa of "
    "a click is not bound by it) and the model does not know it: nearest means nearest to the click. Clicks outside the band are delivered with their "
    "data coordinates like all other clicks (event.xdata set, the view itself is not moved)",
]

# ---- designed tables --------------------------------------------------------------------------
FN = np.array([[np.nan, 5.0, 5.1, 5.05], [np.nan, np.nan, 9.0, 9.1], [np.nan, 2.0, np.nan, 2.05]])
XI = np.where(np.isnan(FN), np.nan, 0.01 * (1 + np.arange(12).reshape(3, 4)))
PHI = np.where(np.isnan(FN)[:, :, None], np.nan, (np.arange(24).reshape(3, 4, 2) + 1.0)).astype(complex)
PHI[~np.isnan(FN)] /= PHI[~np.isnan(FN)][:, [1]]
LAB = np.where(np.isnan(FN), 0, 1)
XS = [2.1, 5.02, 9.04, 9.3]
YS = [0.6, 1.2, 1.8, 2.9]
Y_EMPTY = 0.2   # nearest model order 0 holds no retained pole
FS = 20.0
# FDD variant: 33 lines on [0, 10] Hz, two channels
NF = 33
FREQ = np.linspace(0, FS / 2, NF)
# variant = (dialog kind, ordmin, frequency band the dialog is opened with; None = the default band (0, fs/2))
# The band variants: (3, 7) leaves click abscissae AND poles outside on both sides (only the 5.x Hz poles are inside);
# (0, 8.5) leaves the 9.0 / 9.1 Hz poles and the clicks at 9.04 / 9.3 outside on the upper side only;
# (2.5, 9.2) leaves the clicks at 0.0 / 2.1 (and the frequency lines / poles below 2.5 Hz) outside below, and above the click at 9.3 and
# the lines from 9.375 Hz on. On the singular-value plot every click outside a band has lines outside the band nearest to it.
VARIANTS = {
    "SSI": ("SSI", 0, None),
    "pLSCF": ("pLSCF", 0, None),
    "FDD": ("FDD", 0, None),
    "SSI-ordmin2": ("SSI", 2, None),
    "SSI-band3-7": ("SSI", 0, (3.0, 7.0)),
    "pLSCF-band0-8.5": ("pLSCF", 0, (0.0, 8.5)),
    "FDD-band3-7": ("FDD", 0, (3.0, 7.0)),
    "FDD-band2.5-9.2": ("FDD", 0, (2.5, 9.2)),
}
XB = [0.0] + XS      # click abscissae of the band variants


def kind_of(variant):
    return VARIANTS[variant][0]


def band_of(variant):
    return VARIANTS[variant][2]


def outside(variant, x):
    b = band_of(variant)
    return b is not None and not (b[0] <= x <= b[1])


def fdd_tables():
    k = np.arange(NF)
    s1 = 1.0 + 40 * np.exp(-0.5 * ((k - 7) / 1.5) ** 2) + 25 * np.exp(-0.5 * ((k - 16) / 1.5) ** 2) + 30 * np.exp(-0.5 * ((k - 29) / 1.2) ** 2)
    s2 = 0.3 + 0.01 * k
    S_val = np.zeros((2, 2, NF))
    S_val[0, 0] = np.sqrt(s1)
    S_val[1, 1] = np.sqrt(s2)
    th = 0.3 + 0.05 * k
    S_vec = np.zeros((2, 2, NF), dtype=complex)
    S_vec[0, 0], S_vec[1, 0] = np.cos(th), np.sin(th)
    S_vec[0, 1], S_vec[1, 1] = -np.sin(th), np.cos(th)
    Sy = np.einsum("ikf,kf,jkf->ijf", S_vec, np.stack([s1, s2]), S_vec.conj())
    return Sy, S_val, S_vec


def events_for(variant, thorough):
    kind = kind_of(variant)
    ev = [("press",), ("release",)]
    if band_of(variant) is not None:
        # band variants: a smaller alphabet whose abscissae XB lie on both sides of and inside the bands; picks at the two
        # model orders that hold poles at 2, 5 and 9 Hz, deselect-nearest at every abscissa, deselect-one inside and outside
        ys = YS if thorough else ((YS[2],) if kind == "FDD" else (YS[2], YS[3]))
        ev += [("click", 1, x, y) for x in XB for y in ys]
        ev += [("click", 2, x, YS[1]) for x in XB]
        ev += [("click", 3, XS[3], YS[0])]
        if thorough:
            ev += [("click", 1, XS[3], Y_EMPTY), ("click", 3, XS[1], YS[1])]
    elif thorough:
        ev += [("click", b, x, y) for b in (1, 3, 2) for x in XS for y in YS]
        ev += [("click", 1, x, Y_EMPTY) for x in (XS[1], XS[3])]
        ev += [("click", b, 0.0, y) for b in (1, 2) for y in (YS[0], YS[3])]
    else:
        ev += [("click", 1, x, y) for x in XS for y in YS]
        ev += [("click", 1, XS[1], Y_EMPTY)]
        ev += [("click", 1, 0.0, YS[3]), ("click", 2, 0.0, YS[1])]      # exactly at the left edge of the default frequency range
        ev += [("click", 3, XS[1], YS[1]), ("click", 3, XS[3], YS[0])]
        ev += [("click", 2, x, YS[1]) for x in XS]
    if kind == "FDD":
        # y is in dB on the singular-value plot; it must not matter
        ev = [e if e[0] != "click" else ("click", e[1], e[2], -10.0 * e[3]) for e in ev]
        seen, out = set(), []
        for e in ev:
            if e not in seen:
                seen.add(e)
                out.append(e)
        ev = out
    return ev


# ---- head-less stand-ins ----------------------------------------------------------------------
_INSTALLED = False
_HOOK = {"script": None, "handed": None}


def install():
    global _INSTALLED
    if _INSTALLED:
        return
    from matplotlib.backends.backend_agg import FigureCanvasAgg

    import pyoma2.support.sel_from_plot as sfp

    class FakeTk:
        def __init__(self, *a, **k):
            pass

        def title(self, *a):
            pass

        def config(self, **k):
            pass

        def protocol(self, *a):
            pass

        def mainloop(self):
            _HOOK["script"](_HOOK["obj"])

        def quit(self):
            pass

        def destroy(self):
            pass

    class FakeMenu:
        def __init__(self, *a, **k):
            pass

        def add_command(self, **k):
            pass

        def add_cascade(self, **k):
            pass

    class W:
        def pack(self, **k):
            pass

    class FakeCanvas(FigureCanvasAgg):
        def __init__(self, fig, root=None, master=None):
            super().__init__(fig)

        def get_tk_widget(self):
            return W()

        def draw_idle(self, *a, **k):
            pass

    sfp.tk.Tk = FakeTk
    sfp.tk.Menu = FakeMenu
    sfp.FigureCanvasTkAgg = FakeCanvas
    sfp.NavigationToolbar2Tk = lambda c, r: None
    orig = sfp.SelFromPlot._initialize_gui

    def wrapped(self):
        orig(self)
        _HOOK["obj"] = self

    sfp.SelFromPlot._initialize_gui = wrapped
    # record what is handed to extraction (the real functions are still called)
    import pyoma2.functions.fdd as ffdd
    import pyoma2.functions.plscf as fpl
    import pyoma2.functions.ssi as fssi

    def rec(mod, name):
        real = getattr(mod, name)

        def w(*a, **k):
            _HOOK["handed"] = (name, a, k)
            return real(*a, **k)

        setattr(mod, name, w)

    rec(fssi, "SSI_mpe")
    rec(fpl, "pLSCF_mpe")
    rec(ffdd, "FDD_mpe")
    _INSTALLED = True


def fire(o, ev):
    from matplotlib.backend_bases import KeyEvent, MouseEvent

    c = o.fig.canvas
    if ev[0] == "press":
        c.callbacks.process("key_press_event", KeyEvent("key_press_event", c, "shift"))
    elif ev[0] == "release":
        c.callbacks.process("key_release_event", KeyEvent("key_release_event", c, "shift"))
    else:
        e = MouseEvent("button_press_event", c, 0, 0, button=ev[1])
        e.xdata, e.ydata, e.inaxes = ev[2], ev[3], o.ax2
        c.callbacks.process("button_press_event", e)


# ---- model ------------------------------------------------------------------------------------
class Model:
    """A list of (frequency, order-or-line) pairs and a boolean."""

    def __init__(self, variant):
        self.variant = variant
        self.kind = kind_of(variant)      # the band the dialog is opened with is deliberately unknown to the model
        self.shift = False
        self.sel = []
        self.empty_pick = False
        self.last_new = None

    def step(self, ev):
        """Returns the list of admissible next selections (sorted tuples), or None if outside the statement."""
        cur = tuple(sorted(self.sel))
        self.empty_pick = False
        self.last_new = None
        if ev[0] == "press":
            self.shift = True
            return [cur]
        if ev[0] == "release":
            self.shift = False
            return [cur]
        if not self.shift:
            return [cur]
        b, x, y = ev[1:]
        if b == 1:
            if self.kind == "FDD":
                i = int(np.argmin(np.abs(FREQ - x)))
                new = (float(FREQ[i]), i)
            else:
                o = int(np.argmin(np.abs(np.arange(FN.shape[1]) - y)))
                col = FN[:, o]
                if np.all(np.isnan(col)):
                    self.empty_pick = True
                    return [cur]
                r = int(np.nanargmin(np.abs(col - x)))
                new = (float(col[r]), o)
            self.last_new = new
            return [tuple(sorted(self.sel + [new]))]
        if not self.sel:
            return [()]
        if b == 3:
            return sorted({tuple(sorted(self.sel[:i] + self.sel[i + 1:])) for i in range(len(self.sel))})
        if b == 2:
            d = [abs(f - x) for f, _ in self.sel]
            m = min(d)
            return sorted({tuple(sorted(self.sel[:i] + self.sel[i + 1:])) for i in range(len(self.sel)) if d[i] <= m * (1 + 1e-12)})
        return [cur]


def build(variant):
    from pyoma2.algorithms import FDD, SSIcov, pLSCF
    from pyoma2.algorithms.data.result import FDDResult, SSIResult, pLSCFResult
    from pyoma2.setup import SingleSetup

    ss = SingleSetup(np.zeros((16, 2)), FS)
    kind, ordmin, _ = VARIANTS[variant]
    if kind == "SSI":
        # ordmin only limits which orders are labelled/charted as stable; the pole table still has a column per model order,
        # and a pick at order k means column k whatever ordmin is
        a = SSIcov(name="alg", br=3, ordmax=3, ordmin=ordmin)
        res = SSIResult(Fn_poles=FN.copy(), Xi_poles=XI.copy(), Phi_poles=PHI.copy(), Lab=LAB.copy())
    elif kind == "pLSCF":
        a = pLSCF(name="alg", ordmax=3)
        res = pLSCFResult(Fn_poles=FN.copy(), Xi_poles=XI.copy(), Phi_poles=PHI.copy(), Lab=LAB.copy())
    else:
        a = FDD(name="alg", nxseg=64)
        Sy, S_val, S_vec = fdd_tables()
        res = FDDResult(freq=FREQ.copy(), Sy=Sy, S_val=S_val, S_vec=S_vec)
    ss.add_algorithms(a)
    a.result = res
    return ss, a


def observe(o, variant):
    ind = o.freq_ind if kind_of(variant) == "FDD" else o.pole_ind
    if len(o.sel_freq) != len(ind):
        return None
    return tuple(sorted(zip([float(f) for f in o.sel_freq], [int(p) for p in ind])))


_SKIP = ("root", "fig", "ax2", "MARKER", "x_data_pole", "y_data_pole", "algo")
_CFG = {}


def run_history(variant, events, hist, judge_all=False):
    import matplotlib.pyplot as plt

    install()
    t = Tally()
    evs = [events[i] for i in hist]
    case = {"variant": variant, "events": evs}
    out = {"key": None, "stop": False}
    m = Model(variant)

    def label(k):
        return [list(e) for e in evs[: k + 1]]

    def script(o):
        for i, ev in enumerate(evs):
            judge = judge_all or i == len(evs) - 1
            adm = m.step(ev)
            if adm is None:
                out["stop"] = True
                if judge:
                    t.outcomes["outside-statement(no retained pole at that order)"] += 1
                    t.not_judged += 1
                return
            try:
                fire(o, ev)
            except Exception as e:
                if m.empty_pick:
                    # no retained pole at the clicked order: nothing can be selected; a live session swallows the
                    # exception, so the only requirement is that the selection is left exactly as it was
                    got = observe(o, variant)
                    if judge:
                        t.validated += 1
                        if got is None or got not in adm:
                            t.violation(f"selection:{variant}:pick-on-empty-order",
                                        f"{variant} dialog: a pick at a model order without retained poles left the selection lists as "
                                        f"sel_freq={list(map(float, o.sel_freq))}, orders={list(o.pole_ind)} (model: unchanged {adm[0]}) after {label(i)}", case)
                        else:
                            t.outcomes["pick-on-empty-order"] += 1
                    if got is None or got not in adm:
                        out["stop"] = True
                        return
                    continue
                if judge:
                    t.violation(f"handler-raises:{type(e).__name__}:{variant}:button{ev[1] if ev[0] == 'click' else ev[0]}",
                                f"{variant} dialog: handler raised {type(e).__name__}: {e} on {ev} after {label(i - 1)} (a live session swallows it and the click silently does nothing)", case)
                out["stop"] = True
                return
            got = observe(o, variant)
            if judge:
                t.validated += 1
                kind = ev[0] if ev[0] != "click" else ("pick" if ev[1] == 1 else "deselect-one" if ev[1] == 3 else "deselect-nearest")
                if not m.shift and ev[0] == "click":
                    kind = "click-without-modifier"
                if got is None:
                    t.violation(f"selection-lists-unequal-length:{variant}:{kind}", f"{variant}: frequency and order lists have different lengths after {label(i)}", case)
                elif got not in adm:
                    t.violation(f"selection:{variant}:{kind}",
                                f"{variant} dialog holds {got} after {label(i)}; the list-of-pairs model admits {adm[:3]}", case)
                else:
                    t.outcomes[kind] += 1
                    if ev[0] == "click" and m.shift and outside(variant, ev[2]):
                        # vacuity monitors of the band variants (ground truth only: the click, the band, the designed table)
                        t.outcomes[f"{kind}-outside-band"] += 1
                        if kind == "pick" and m.last_new is not None and outside(variant, m.last_new[0]):
                            t.outcomes["pick-of-pole-outside-band"] += 1
                        if kind == "deselect-nearest" and len(m.sel) >= 2:
                            t.outcomes["deselect-nearest-outside-band-among-several"] += 1
                if bool(o.shift_is_held) != m.shift:
                    t.violation(f"modifier-state:{variant}", f"{variant}: shift_is_held={o.shift_is_held} after {label(i)}", case)
                if kind_of(variant) == "FDD" and got is not None and any(abs(f - FREQ[k]) > 1e-12 for f, k in got):
                    t.violation(f"selection:{variant}:frequency-not-its-line", f"{variant}: selected frequency is not the frequency of its line index: {got}", case)
            if got is None or got not in adm:
                out["stop"] = True
                return
            m.sel = list(got)
        d = {k: v for k, v in o.__dict__.items() if k not in _SKIP}
        out["key"] = canon.digest(d)
        out["final"] = list(m.sel)

    _HOOK["script"] = script
    _HOOK["handed"] = None
    ss, a = build(variant)
    err = None
    try:
        band = band_of(variant) or (0, 10)
        if kind_of(variant) == "FDD":
            ss.mpe_from_plot("alg", freqlim=band, DF=0.4)
        else:
            ss.mpe_from_plot("alg", freqlim=band, rtol=1e-6)
    except Exception as e:
        err = e
    plt.close("all")
    try:
        a_fig = _HOOK.get("obj")
        if a_fig is not None:
            a_fig.fig.clear()
    except Exception:
        pass
    t.evaluations += 1
    # hand-over (judged at every state reached: closing the dialog is possible in every state)
    if "final" in out:
        fin = sorted(out["final"])
        handed = _HOOK["handed"]
        if fin:
            if err is not None:
                t.violation(f"handover-raises:{type(err).__name__}:{variant}",
                            f"{variant}: mpe_from_plot raised {type(err).__name__}: {err} with selection {fin} after {label(len(evs) - 1)}", case)
            elif handed is None:
                t.violation(f"handover-missing:{variant}", f"{variant}: extraction was never called with selection {fin}", case)
            else:
                name, args, kw = handed
                if kind_of(variant) == "FDD":
                    sf = kw.get("sel_freq", args[3] if len(args) > 3 else None)
                    got = sorted(float(f) for f in np.atleast_1d(sf))
                    if got != [f for f, _ in fin]:
                        t.violation(f"handover:{variant}", f"{variant}: handed {got} to extraction, selection was {fin}", case)
                    else:
                        t.outcomes["handover-ok"] += 1
                else:
                    sf, order = args[0], args[4]
                    got = sorted(zip([float(f) for f in np.atleast_1d(sf)], [int(x) for x in np.atleast_1d(order)]))
                    if got != fin:
                        t.violation(f"handover:{variant}", f"{variant}: handed pairs {got} to extraction, selection was {fin} (history {label(len(evs) - 1)})", case)
                    else:
                        t.outcomes["handover-ok"] += 1
                    # the extracted modes are those poles (frequency, order, damping tag)
                    r = a.result
                    try:
                        ext = sorted(zip([float(f) for f in np.atleast_1d(r.Fn)], [int(x) for x in np.atleast_1d(r.order_out)],
                                         [round(float(x), 12) for x in np.atleast_1d(r.Xi)]))
                    except Exception as e:
                        ext = f"unreadable ({e})"
                    want = sorted((f, o, round(float(XI[[k for k in range(FN.shape[0]) if FN[k, o] == f][0], o]), 12)) for f, o in fin)
                    if ext != want:
                        t.violation(f"extracted-modes:{variant}", f"{variant}: extracted {ext}, picked poles are {want} (history {label(len(evs) - 1)})", case)
                    else:
                        t.outcomes["extracted-ok"] += 1
        t.transitions += 0
    picks = [e for e, ok in zip(evs, [True] * len(evs)) if e[0] == "click" and e[1] == 1]
    if "final" in out:
        f = out["final"]
        desc = any(e[0] == "click" and e[1] in (2, 3) for e in evs) and len(picks) >= 2
        if desc or (len(f) >= 2 and len({o for _, o in f}) >= 2):
            t.nontrivial.add((variant, tuple(hist)))
    return t, (None if out["stop"] else out["key"])


def _runner(hist):
    return run_history(_CFG["variant"], _CFG["events"], hist)


def plan_for(thorough):
    """(variant, depth of the merged BFS, depth of the un-merged pass). Depth 4 is the shortest history in which deselect-nearest
    has two selected entries to choose from (press, pick, pick, deselect). The quick tier has one band variant per click handler,
    with different bands: the stabilisation chart at depth 4, the singular-value plot at depth 3 (deselect-nearest with one entry);
    the thorough tier has all four band variants, deeper and over the larger band alphabet."""
    if not thorough:
        return [("SSI", 4, 2), ("pLSCF", 3, 2), ("FDD", 4, 2), ("SSI-ordmin2", 3, 1),
                ("SSI-band3-7", 4, 1), ("FDD-band2.5-9.2", 3, 1)]
    return [("SSI", 5, 3), ("pLSCF", 5, 3), ("FDD", 5, 3), ("SSI-ordmin2", 4, 2),
            ("SSI-band3-7", 5, 2), ("pLSCF-band0-8.5", 4, 2), ("FDD-band3-7", 4, 2), ("FDD-band2.5-9.2", 5, 2)]


def explore(ctx):
    plan = plan_for(ctx.thorough)
    ctx.bounds = {"tables": {"Fn_poles": FN, "freq_lines_FDD": NF}, "click_x": XS, "click_y": YS, "click_x_band_variants": XB, "variants": [
        {"variant": v, "dialog": kind_of(v), "freqlim": band_of(v) or "default (0, fs/2)", "events": [list(e) for e in events_for(v, ctx.thorough)], "merged_bfs_depth": d, "unmerged_depth": u} for v, d, u in plan]}
    for variant, depth, ud in plan:
        events = events_for(variant, ctx.thorough)
        _CFG.update(variant=variant, events=events)
        seen = bfs.merged(ctx, _runner, len(events), depth, label=f"{variant}/")
        items = list(seen.items())
        for k, h in items[:1] + items[-2:]:
            ctx.tally.sample({"variant": variant, "history": [list(events[i]) for i in h], "state_digest": k})
        keys, broken = bfs.unmerged(ctx, _runner, len(events), ud, label=f"{variant}/")
        for h0, h1, evs in broken:
            ctx.tally.violation(f"hidden-state:{variant}", f"histories {h0} and {h1} reach the same dialog state but differ after events {evs}",
                                {"variant": variant, "events": [events[i] for i in h1], "other": [events[i] for i in h0]})
    ctx.require("pick", "pick-on-empty-order", "deselect-one", "deselect-nearest", "click-without-modifier", "handover-ok", "extracted-ok",
                "pick-outside-band", "pick-of-pole-outside-band", "deselect-nearest-outside-band", "deselect-nearest-outside-band-among-several")


def replay(case):
    evs = [tuple(e) for e in case["events"]]
    t, _ = run_history(case["variant"], evs, tuple(range(len(evs))), judge_all=True)
    return t
