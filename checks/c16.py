"""C16 - interactive pole picking hands over exactly the picked (frequency, order) pairs.

Explicit-state BFS over mouse/key event histories through the REAL dialog (SelFromPlot), entered through
setup.mpe_from_plot(name); Tk is replaced by inert stand-ins whose mainloop() hands control to the explorer, the
canvas stand-in is a real FigureCanvasAgg so the dialog's own mpl_connect registrations receive the events.
"""
import numpy as np

from mc import bfs, canon
from mc.core import Tally

ID = "C16"
TECHNIQUE = ("explicit-state breadth-first search over mouse/key event histories driven through the real SelFromPlot dialog "
             "(head-less Tk stand-ins, real Matplotlib callback registry), lock-step conformance with a list-of-pairs "
             "model on every transition and on the hand-over to modal-parameter extraction at every state")
LEVEL_TEXT = ("every event history up to the stated depth over the stated click grid is driven through the real dialog and compared with the "
              "list-of-pairs model after every event; in every state reached the dialog is closed and the pairs handed to extraction and the "
              "extracted modes (frequency, order, damping and mode shape) are compared with the model, over pole tables with closely spaced poles in one model-order "
              "column and with the rtol argument of mpe_from_plot not passed, tiny and large; the dialog is opened with the default frequency band and with non-default bands "
              "(clicks and poles outside the band) - the band variants over a smaller click alphabet; and on an algorithm object that ALREADY "
              "HOLDS modes of an earlier extraction (a plain mpe() or an earlier interactive session that left poles selected) a second session "
              "is enumerated in the same way over a small click alphabet, and what the algorithm holds after that second session (every field of "
              "its result) and what was handed to extraction are compared with the same history on a fresh object (differential: the earlier "
              "extraction must leave no trace, in particular when the second session ends with nothing selected)")
RULE = ("a history is a sequence of events (press/release shift, click(button, x, y)) on a fresh dialog; non-trivial = at "
        "least two picks at different model orders (or lines) in non-ascending frequency order, or a deselection after "
        "two picks; distinct by (variant, event sequence)")
ASSUMPTIONS = [
    "tkinter widgets are replaced by inert stand-ins; everything else (figure, callback registry, handlers, stab_plot/CMIF_plot, extraction) is the real code",
    "a pick at a model order that holds no retained pole cannot select anything: the handler may raise (a live session swallows it) but the selection must be left unchanged",
    "click coordinates keep away from exact ties (nearest order, nearest pole); ties between identical selected entries accept either",
    "x_data_pole / y_data_pole (scratch written before read inside one handler) are excluded from the canonical state; the un-merged congruence pass checks that exclusion",
    "the frequency band the dialog is opened with (freqlim of mpe_from_plot) is a variant axis: the default band, and bands that leave click abscissae and "
    "retained poles / frequency lines outside on one or on both sides; the band only sets the initial view (the toolbar pans and zooms, so the abscissa of "
    "a click is not bound by it) and the model does not know it: nearest means nearest to the click. Clicks outside the band are delivered with their "
    "data coordinates like all other clicks (event.xdata set, the view itself is not moved)",
    "closely spaced poles and the rtol argument of mpe_from_plot (stabilisation chart): the designed pole table holds, in one model-order column, pairs of "
    "retained poles 0.22 % (9.1 / 9.12 Hz, order 3) and 1.5 % (2.0 / 1.97 Hz, order 1) apart, the members of a pair stored in different rows (row order is "
    "eigenvalue order, not frequency order) and click abscissae nearest to the member in the later row and to the member in the earlier row; rtol is a "
    "variant axis: not passed (the defaults 1e-2 of SSI and 5e-2 of pLSCF), 1e-6 and 0.1. The picked frequencies are exact table entries, so the modes "
    "held after the session (Fn, Xi, order_out and the columns of Phi) must be those of the picked poles whatever rtol is; outcome counters show that picked "
    "poles with a neighbour within rtol in an earlier and in a later row were extracted, per algorithm family and rtol",
    "whether the algorithm object already holds modes when the dialog is opened is a variant axis ('prior'): none (a fresh object, all variants above), "
    "'mpe' (setup.mpe(name, ...) with designed frequencies stored two modes) or 'session' (an earlier dialog session on the same object closed with two "
    "poles / lines selected, picked in descending frequency order at two model orders). The judged history is the SECOND session; besides the lock-step "
    "and hand-over judgements it is judged differentially: every field of algorithm.result, the pairs handed to extraction and the exception type (if any) "
    "must be the same as for the same history on a fresh object - no hand-written expectation for an empty final selection. The designed earlier "
    "extraction is itself checked against the designed modes (ground truth) before the second session starts",
]

# ---- designed tables --------------------------------------------------------------------------
# The last row holds CLOSELY SPACED neighbours of poles of the rows above, in the same model-order column (rows are in eigenvalue order, not
# in frequency order): 9.12 Hz next to 9.1 Hz at order 3 (0.22 % apart; the click at 9.3 is nearest to the one in the LATER row, the click at
# 9.04 to the one in the EARLIER row) and 1.97 Hz next to 2.0 Hz at order 1 (1.5 % apart; nearest only to the clicks at 0.0).
FN = np.array([[np.nan, 5.0, 5.1, 5.05], [np.nan, np.nan, 9.0, 9.1], [np.nan, 2.0, np.nan, 2.05], [np.nan, 1.97, np.nan, 9.12]])
XI = np.where(np.isnan(FN), np.nan, 0.01 * (1 + np.arange(FN.size).reshape(FN.shape)))
PHI = np.where(np.isnan(FN)[:, :, None], np.nan, (np.arange(2 * FN.size).reshape(FN.shape + (2,)) + 1.0)).astype(complex)
PHI[~np.isnan(FN)] /= PHI[~np.isnan(FN)][:, [1]]
LAB = np.where(np.isnan(FN), 0, 1)
XS = [2.1, 5.02, 9.04, 9.3]
YS = [0.6, 1.2, 1.8, 2.9]
Y_EMPTY = 0.2   # nearest model order 0 holds no retained pole
FS = 20.0
# FDD variant: 33 lines on [0, 10] Hz, two channels
NF = 33
FREQ = np.linspace(0, FS / 2, NF)
# variant = (dialog kind, ordmin, frequency band the dialog is opened with; None = the default band (0, fs/2))
# The band variants: (3, 7) leaves click abscissae AND poles outside on both sides (only the 5.x Hz poles are inside);
# (0, 8.5) leaves the 9.0 / 9.1 / 9.12 Hz poles and the clicks at 9.04 / 9.3 outside on the upper side only;
# (2.5, 9.2) leaves the clicks at 0.0 / 2.1 (and the frequency lines / poles below 2.5 Hz) outside below, and above the click at 9.3 and
# the lines from 9.375 Hz on. On the singular-value plot every click outside a band has lines outside the band nearest to it.
# 4th entry = prior: what the algorithm object already holds when the judged dialog session is opened: None = nothing (fresh object),
# "mpe" = modes of a plain setup.mpe(...), "session" = modes of an earlier dialog session on the same object that left two entries selected
# 5th entry = the rtol argument of mpe_from_plot (stabilisation chart only): None = not passed (the documented default: 1e-2 for SSI,
# 5e-2 for pLSCF), else the value passed. The picked poles are exact table entries, so the extracted modes must not depend on it; the
# designed tables hold neighbours of picked poles within 1e-2, 5e-2 and 0.1 (relative) in the same column, none within 1e-6.
VARIANTS = {
    "SSI": ("SSI", 0, None, None, None),
    "pLSCF": ("pLSCF", 0, None, None, None),
    "FDD": ("FDD", 0, None, None, None),
    "SSI-ordmin2": ("SSI", 2, None, None, 0.1),
    "SSI-band3-7": ("SSI", 0, (3.0, 7.0), None, 1e-6),
    "pLSCF-band0-8.5": ("pLSCF", 0, (0.0, 8.5), None, 1e-6),
    "FDD-band3-7": ("FDD", 0, (3.0, 7.0), None, None),
    "FDD-band2.5-9.2": ("FDD", 0, (2.5, 9.2), None, None),
    "SSI-after-mpe": ("SSI", 0, None, "mpe", None),
    "SSI-after-session": ("SSI", 0, None, "session", 0.1),
    "pLSCF-after-mpe": ("pLSCF", 0, None, "mpe", 1e-6),
    "pLSCF-after-session": ("pLSCF", 0, None, "session", 0.1),
    "FDD-after-mpe": ("FDD", 0, None, "mpe", None),
    "FDD-after-session": ("FDD", 0, None, "session", None),
}
DEFAULT_RTOL = {"SSI": 1e-2, "pLSCF": 5e-2}     # documented defaults of mpe_from_plot (docstrings of SSI.mpe_from_plot / pLSCF.mpe_from_plot)
XB = [0.0] + XS      # click abscissae of the band variants
# the designed earlier extractions of the 'prior' axis. mpe: two poles of model order 2 (in descending order) / the lines of two designed peaks;
# session: shift, a pick near 5 Hz at model order 3, a pick near 2 Hz at model order 1 (descending frequency, two orders), shift released
PRIOR_MPE = {"SSI": dict(sel_freq=[9.0, 5.1], order=2, rtol=1e-2), "pLSCF": dict(sel_freq=[9.0, 5.1], order=2, rtol=1e-2),
             "FDD": dict(sel_freq=[5.0, 9.0625], DF=0.4)}
PRIOR_MPE_MODES = {"SSI": [5.1, 9.0], "pLSCF": [5.1, 9.0], "FDD": [5.0, 9.0625]}
PRIOR_SESSION = [("press",), ("click", 1, XS[1], YS[3]), ("click", 1, XS[0], YS[1]), ("release",)]


def kind_of(variant):
    return VARIANTS[variant][0]


def band_of(variant):
    return VARIANTS[variant][2]


def prior_of(variant):
    return VARIANTS[variant][3]


def rtol_of(variant):
    """The rtol argument passed to mpe_from_plot (None = not passed)."""
    return VARIANTS[variant][4]


def effective_rtol(variant):
    r = rtol_of(variant)
    return DEFAULT_RTOL[kind_of(variant)] if r is None else r


def close_neighbours(variant, f, o):
    """Ground truth (designed table only): where the OTHER retained poles of column o within rtol*|f| of the picked pole (f, o) are
    stored relative to it: a set out of {'earlier-row', 'later-row'}."""
    col = FN[:, o]
    rows = [k for k in range(FN.shape[0]) if col[k] == f]
    if not rows:
        return set()
    r, tol = rows[0], effective_rtol(variant) * abs(f)
    out = set()
    for k in range(FN.shape[0]):
        if k != r and not np.isnan(col[k]) and col[k] != f and abs(col[k] - f) <= tol:
            out.add("earlier-row" if k < r else "later-row")
    return out


def outside(variant, x):
    b = band_of(variant)
    return b is not None and not (b[0] <= x <= b[1])


def fdd_tables():
    k = np.arange(NF)
    s1 = 1.0 + 40 * np.exp(-0.5 * ((k - 7) / 1.5) ** 2) + 25 * np.exp(-0.5 * ((k - 16) / 1.5) ** 2) + 30 * np.exp(-0.5 * ((k - 29) / 1.2) ** 2)
    s2 = 0.3 + 0.01 * k
    S_val = np.zeros((2, 2, NF))
    S_val[0, 0] = np.sqrt(s1)
    S_val[1, 1] = np.sqrt(s2)
    th = 0.3 + 0.05 * k
    S_vec = np.zeros((2, 2, NF), dtype=complex)
    S_vec[0, 0], S_vec[1, 0] = np.cos(th), np.sin(th)
    S_vec[0, 1], S_vec[1, 1] = -np.sin(th), np.cos(th)
    Sy = np.einsum("ikf,kf,jkf->ijf", S_vec, np.stack([s1, s2]), S_vec.conj())
    return Sy, S_val, S_vec


def events_for(variant, thorough):
    kind = kind_of(variant)
    ev = [("press",), ("release",)]
    if prior_of(variant) is not None:
        # second session on a used object: a small alphabet that reaches every kind of final selection - nothing ever picked, clicks
        # without the modifier, everything deselected again (by deselect-one and by deselect-nearest), one or several entries left
        xs, ys = (XS, YS[1:]) if thorough else (XS[:3], YS[2:])
        ev += [("click", 1, x, y) for x in xs for y in ys]
        ev += [("click", 2, x, YS[1]) for x in ((XS[0], XS[3]) if not thorough else XS)]
        ev += [("click", 3, XS[3], YS[0])]
        if thorough:
            ev += [("click", 1, XS[1], Y_EMPTY)]
    elif band_of(variant) is not None:
        # band variants: a smaller alphabet whose abscissae XB lie on both sides of and inside the bands; picks at the two
        # model orders that hold poles at 2, 5 and 9 Hz, deselect-nearest at every abscissa, deselect-one inside and outside
        ys = YS if thorough else ((YS[2],) if kind == "FDD" else (YS[2], YS[3]))
        ev += [("click", 1, x, y) for x in XB for y in ys]
        ev += [("click", 2, x, YS[1]) for x in XB]
        ev += [("click", 3, XS[3], YS[0])]
        if thorough:
            ev += [("click", 1, XS[3], Y_EMPTY), ("click", 3, XS[1], YS[1])]
    elif thorough:
        ev += [("click", b, x, y) for b in (1, 3, 2) for x in XS for y in YS]
        ev += [("click", 1, x, Y_EMPTY) for x in (XS[1], XS[3])]
        ev += [("click", b, 0.0, y) for b in (1, 2) for y in (YS[0], YS[3])]
    else:
        ev += [("click", 1, x, y) for x in XS for y in YS]
        ev += [("click", 1, XS[1], Y_EMPTY)]
        ev += [("click", 1, 0.0, YS[3]), ("click", 2, 0.0, YS[1])]      # exactly at the left edge of the default frequency range
        ev += [("click", 3, XS[1], YS[1]), ("click", 3, XS[3], YS[0])]
        ev += [("click", 2, x, YS[1]) for x in XS]
    if kind == "FDD":
        # y is in dB on the singular-value plot; it must not matter
        ev = [e if e[0] != "click" else ("click", e[1], e[2], -10.0 * e[3]) for e in ev]
        seen, out = set(), []
        for e in ev:
            if e not in seen:
                seen.add(e)
                out.append(e)
        ev = out
    return ev


# ---- head-less stand-ins ----------------------------------------------------------------------
_INSTALLED = False
_HOOK = {"script": None, "handed": None}


def install():
    global _INSTALLED
    if _INSTALLED:
        return
    from matplotlib.backends.backend_agg import FigureCanvasAgg

    import pyoma2.support.sel_from_plot as sfp

    class FakeTk:
        def __init__(self, *a, **k):
            pass

        def title(self, *a):
            pass

        def config(self, **k):
            pass

        def protocol(self, *a):
            pass

        def mainloop(self):
            _HOOK["script"](_HOOK["obj"])

        def quit(self):
            pass

        def destroy(self):
            pass

    class FakeMenu:
        def __init__(self, *a, **k):
            pass

        def add_command(self, **k):
            pass

        def add_cascade(self, **k):
            pass

    class W:
        def pack(self, **k):
            pass

    class FakeCanvas(FigureCanvasAgg):
        def __init__(self, fig, root=None, master=None):
            super().__init__(fig)

        def get_tk_widget(self):
            return W()

        def draw_idle(self, *a, **k):
            pass

    sfp.tk.Tk = FakeTk
    sfp.tk.Menu = FakeMenu
    sfp.FigureCanvasTkAgg = FakeCanvas
    sfp.NavigationToolbar2Tk = lambda c, r: None
    orig = sfp.SelFromPlot._initialize_gui

    def wrapped(self):
        orig(self)
        _HOOK["obj"] = self

    sfp.SelFromPlot._initialize_gui = wrapped
    # record what is handed to extraction (the real functions are still called)
    import pyoma2.functions.fdd as ffdd
    import pyoma2.functions.plscf as fpl
    import pyoma2.functions.ssi as fssi

    def rec(mod, name):
        real = getattr(mod, name)

        def w(*a, **k):
            _HOOK["handed"] = (name, a, k)
            return real(*a, **k)

        setattr(mod, name, w)

    rec(fssi, "SSI_mpe")
    rec(fpl, "pLSCF_mpe")
    rec(ffdd, "FDD_mpe")
    _INSTALLED = True


def fire(o, ev):
    from matplotlib.backend_bases import KeyEvent, MouseEvent

    c = o.fig.canvas
    if ev[0] == "press":
        c.callbacks.process("key_press_event", KeyEvent("key_press_event", c, "shift"))
    elif ev[0] == "release":
        c.callbacks.process("key_release_event", KeyEvent("key_release_event", c, "shift"))
    else:
        e = MouseEvent("button_press_event", c, 0, 0, button=ev[1])
        e.xdata, e.ydata, e.inaxes = ev[2], ev[3], o.ax2
        c.callbacks.process("button_press_event", e)


# ---- model ------------------------------------------------------------------------------------
class Model:
    """A list of (frequency, order-or-line) pairs and a boolean."""

    def __init__(self, variant):
        self.variant = variant
        self.kind = kind_of(variant)      # the band the dialog is opened with is deliberately unknown to the model
        self.shift = False
        self.sel = []
        self.empty_pick = False
        self.last_new = None

    def step(self, ev):
        """Returns the list of admissible next selections (sorted tuples), or None if outside the statement."""
        cur = tuple(sorted(self.sel))
        self.empty_pick = False
        self.last_new = None
        if ev[0] == "press":
            self.shift = True
            return [cur]
        if ev[0] == "release":
            self.shift = False
            return [cur]
        if not self.shift:
            return [cur]
        b, x, y = ev[1:]
        if b == 1:
            if self.kind == "FDD":
                i = int(np.argmin(np.abs(FREQ - x)))
                new = (float(FREQ[i]), i)
            else:
                o = int(np.argmin(np.abs(np.arange(FN.shape[1]) - y)))
                col = FN[:, o]
                if np.all(np.isnan(col)):
                    self.empty_pick = True
                    return [cur]
                r = int(np.nanargmin(np.abs(col - x)))
                new = (float(col[r]), o)
            self.last_new = new
            return [tuple(sorted(self.sel + [new]))]
        if not self.sel:
            return [()]
        if b == 3:
            return sorted({tuple(sorted(self.sel[:i] + self.sel[i + 1:])) for i in range(len(self.sel))})
        if b == 2:
            d = [abs(f - x) for f, _ in self.sel]
            m = min(d)
            return sorted({tuple(sorted(self.sel[:i] + self.sel[i + 1:])) for i in range(len(self.sel)) if d[i] <= m * (1 + 1e-12)})
        return [cur]


def build(variant):
    from pyoma2.algorithms import FDD, SSIcov, pLSCF
    from pyoma2.algorithms.data.result import FDDResult, SSIResult, pLSCFResult
    from pyoma2.setup import SingleSetup

    ss = SingleSetup(np.zeros((16, 2)), FS)
    kind, ordmin = VARIANTS[variant][:2]
    if kind == "SSI":
        # ordmin only limits which orders are labelled/charted as stable; the pole table still has a column per model order,
        # and a pick at order k means column k whatever ordmin is
        a = SSIcov(name="alg", br=3, ordmax=3, ordmin=ordmin)
        res = SSIResult(Fn_poles=FN.copy(), Xi_poles=XI.copy(), Phi_poles=PHI.copy(), Lab=LAB.copy())
    elif kind == "pLSCF":
        a = pLSCF(name="alg", ordmax=3)
        res = pLSCFResult(Fn_poles=FN.copy(), Xi_poles=XI.copy(), Phi_poles=PHI.copy(), Lab=LAB.copy())
    else:
        a = FDD(name="alg", nxseg=64)
        Sy, S_val, S_vec = fdd_tables()
        res = FDDResult(freq=FREQ.copy(), Sy=Sy, S_val=S_val, S_vec=S_vec)
    ss.add_algorithms(a)
    a.result = res
    return ss, a


def observe(o, variant):
    ind = o.freq_ind if kind_of(variant) == "FDD" else o.pole_ind
    if len(o.sel_freq) != len(ind):
        return None
    return tuple(sorted(zip([float(f) for f in o.sel_freq], [int(p) for p in ind])))


_SKIP = ("root", "fig", "ax2", "MARKER", "x_data_pole", "y_data_pole", "algo")
_CFG = {}


# ---- sessions on an algorithm object that already holds modes (the 'prior' axis) -------------------
def open_dialog(ss, variant):
    """One interactive session through setup.mpe_from_plot (the script in _HOOK plays the user); returns the exception or None."""
    import matplotlib.pyplot as plt

    err = None
    _HOOK["obj"] = None
    try:
        band = band_of(variant) or (0, 10)
        if kind_of(variant) == "FDD":
            ss.mpe_from_plot("alg", freqlim=band, DF=0.4)
        else:
            if rtol_of(variant) is None:
                ss.mpe_from_plot("alg", freqlim=band)       # the default rtol
            else:
                ss.mpe_from_plot("alg", freqlim=band, rtol=rtol_of(variant))
    except Exception as e:
        err = e
    plt.close("all")
    try:
        a_fig = _HOOK.get("obj")
        if a_fig is not None:
            a_fig.fig.clear()
    except Exception:
        pass
    return err


def plain_script(evs):
    """A user who just clicks: handler exceptions are swallowed as a live session does."""
    def script(o):
        for ev in evs:
            try:
                fire(o, ev)
            except Exception:
                pass
    return script


def handed_selection(variant, handed):
    """What extraction was handed, as a sorted list (pairs for the stabilisation chart, frequencies for the singular-value plot)."""
    if handed is None:
        return None
    name, args, kw = handed
    try:
        if kind_of(variant) == "FDD":
            sf = kw.get("sel_freq", args[3] if len(args) > 3 else None)
            return sorted(float(f) for f in np.atleast_1d(sf))
        return sorted(zip([float(f) for f in np.atleast_1d(args[0])], [int(x) for x in np.atleast_1d(args[4])]))
    except Exception as e:
        return f"unreadable ({type(e).__name__})"


def held(a):
    """Everything the algorithm's result object holds (tables and extracted modes)."""
    return dict(a.result.__dict__)


def _same(x, y):
    if x is None or y is None:
        return x is None and y is None
    if isinstance(x, (list, tuple)) and isinstance(y, (list, tuple)) and len(x) == len(y) and any(isinstance(v, (list, tuple, np.ndarray)) for v in x):
        return all(_same(u, v) for u, v in zip(x, y))
    try:
        ax, ay = np.asarray(x), np.asarray(y)
        if ax.shape != ay.shape:
            return False
        if ax.dtype.kind in "fc" or ay.dtype.kind in "fc":
            return bool(np.array_equal(ax, ay, equal_nan=True))
        return bool(np.array_equal(ax, ay))
    except Exception:
        return canon.digest(x) == canon.digest(y)


def differing_fields(hx, hy):
    return sorted(k for k in set(hx) | set(hy) if not _same(hx.get(k), hy.get(k)))


def _short(v):
    if v is None:
        return None
    try:
        arr = np.asarray(v)
        return arr.tolist() if arr.size <= 8 else f"array{arr.shape}"
    except Exception:
        return str(v)[:60]


def do_prior(ss, a, variant):
    """The designed earlier extraction on the object. Returns (designed frequencies [ground truth: the designed tables], problem text or None)."""
    kind, prior = kind_of(variant), prior_of(variant)
    err = None
    if prior == "mpe":
        want = list(PRIOR_MPE_MODES[kind])
        try:
            ss.mpe("alg", **PRIOR_MPE[kind])
        except Exception as e:
            err = e
    else:
        m = Model(variant)
        for ev in PRIOR_SESSION_OF(kind):
            adm = m.step(ev)
            m.sel = list(adm[0])
        want = sorted(f for f, _ in m.sel)
        _HOOK["script"] = plain_script(PRIOR_SESSION_OF(kind))
        _HOOK["handed"] = None
        err = open_dialog(ss, variant)
    if err is not None:
        return want, f"raised {type(err).__name__}: {err}"
    try:
        got = sorted(float(f) for f in np.atleast_1d(a.result.Fn))
    except Exception as e:
        return want, f"left unreadable Fn ({type(e).__name__})"
    if len(got) != len(want) or any(abs(g - w) > 1e-9 for g, w in zip(got, want)):
        return want, f"stored Fn={got}, designed modes are {want}"
    return want, None


def PRIOR_SESSION_OF(kind):
    if kind != "FDD":
        return PRIOR_SESSION
    return [e if e[0] != "click" else ("click", e[1], e[2], -10.0 * e[3]) for e in PRIOR_SESSION]


def reference_session(variant, evs):
    """The same history on a FRESH object: (result fields held afterwards, what extraction was handed, exception type name or None)."""
    ss, a = build(variant)
    _HOOK["script"] = plain_script(evs)
    _HOOK["handed"] = None
    err = open_dialog(ss, variant)
    return held(a), handed_selection(variant, _HOOK["handed"]), (None if err is None else type(err).__name__)


def run_history(variant, events, hist, judge_all=False):
    import matplotlib.pyplot as plt

    install()
    t = Tally()
    evs = [events[i] for i in hist]
    case = {"variant": variant, "events": evs}
    out = {"key": None, "stop": False}
    m = Model(variant)

    def label(k):
        return [list(e) for e in evs[: k + 1]]

    def script(o):
        for i, ev in enumerate(evs):
            judge = judge_all or i == len(evs) - 1
            adm = m.step(ev)
            if adm is None:
                out["stop"] = True
                if judge:
                    t.outcomes["outside-statement(no retained pole at that order)"] += 1
                    t.not_judged += 1
                return
            try:
                fire(o, ev)
            except Exception as e:
                if m.empty_pick:
                    # no retained pole at the clicked order: nothing can be selected; a live session swallows the
                    # exception, so the only requirement is that the selection is left exactly as it was
                    got = observe(o, variant)
                    if judge:
                        t.validated += 1
                        if got is None or got not in adm:
                            t.violation(f"selection:{variant}:pick-on-empty-order",
                                        f"{variant} dialog: a pick at a model order without retained poles left the selection lists as "
                                        f"sel_freq={list(map(float, o.sel_freq))}, orders={list(o.pole_ind)} (model: unchanged {adm[0]}) after {label(i)}", case)
                        else:
                            t.outcomes["pick-on-empty-order"] += 1
                    if got is None or got not in adm:
                        out["stop"] = True
                        return
                    continue
                if judge:
                    t.violation(f"handler-raises:{type(e).__name__}:{variant}:button{ev[1] if ev[0] == 'click' else ev[0]}",
                                f"{variant} dialog: handler raised {type(e).__name__}: {e} on {ev} after {label(i - 1)} (a live session swallows it and the click silently does nothing)", case)
                out["stop"] = True
                return
            got = observe(o, variant)
            if judge:
                t.validated += 1
                kind = ev[0] if ev[0] != "click" else ("pick" if ev[1] == 1 else "deselect-one" if ev[1] == 3 else "deselect-nearest")
                if not m.shift and ev[0] == "click":
                    kind = "click-without-modifier"
                if got is None:
                    t.violation(f"selection-lists-unequal-length:{variant}:{kind}", f"{variant}: frequency and order lists have different lengths after {label(i)}", case)
                elif got not in adm:
                    t.violation(f"selection:{variant}:{kind}",
                                f"{variant} dialog holds {got} after {label(i)}; the list-of-pairs model admits {adm[:3]}", case)
                else:
                    t.outcomes[kind] += 1
                    if ev[0] == "click" and m.shift and outside(variant, ev[2]):
                        # vacuity monitors of the band variants (ground truth only: the click, the band, the designed table)
                        t.outcomes[f"{kind}-outside-band"] += 1
                        if kind == "pick" and m.last_new is not None and outside(variant, m.last_new[0]):
                            t.outcomes["pick-of-pole-outside-band"] += 1
                        if kind == "deselect-nearest" and len(m.sel) >= 2:
                            t.outcomes["deselect-nearest-outside-band-among-several"] += 1
                if bool(o.shift_is_held) != m.shift:
                    t.violation(f"modifier-state:{variant}", f"{variant}: shift_is_held={o.shift_is_held} after {label(i)}", case)
                if kind_of(variant) == "FDD" and got is not None and any(abs(f - FREQ[k]) > 1e-12 for f, k in got):
                    t.violation(f"selection:{variant}:frequency-not-its-line", f"{variant}: selected frequency is not the frequency of its line index: {got}", case)
            if got is None or got not in adm:
                out["stop"] = True
                return
            m.sel = list(got)
            out["peak"] = max(out.get("peak", 0), len(m.sel))
        d = {k: v for k, v in o.__dict__.items() if k not in _SKIP}
        out["key"] = canon.digest(d)
        out["final"] = list(m.sel)

    ss, a = build(variant)
    prior = prior_of(variant)
    prior_modes = None
    if prior is not None:
        # the object already holds modes of an earlier extraction when the judged session is opened
        prior_modes, problem = do_prior(ss, a, variant)
        if problem is not None:
            t.violation(f"earlier-extraction:{variant}", f"{variant}: the designed earlier extraction ({prior}) {problem}", case)
            t.evaluations += 1
            return t, None
        t.outcomes[f"used-object:holds-modes-of-earlier-{prior}"] += 1
    _HOOK["script"] = script
    _HOOK["handed"] = None
    err = open_dialog(ss, variant)
    t.evaluations += 1
    if prior is not None and "final" in out:
        # differential judgement: what the algorithm holds after the session must not depend on what it held before
        fin = sorted(out["final"])
        raw_handed = _HOOK["handed"]
        used_held, used_handed, used_err = held(a), handed_selection(variant, raw_handed), (None if err is None else type(err).__name__)
        ref_held, ref_handed, ref_err = reference_session(variant, evs)
        _HOOK["handed"] = raw_handed      # the hand-over judgement below looks at the session on the used object
        which = "empty-selection" if not fin else "nonempty-selection"
        diff = differing_fields(used_held, ref_held)
        bad = False
        if used_err != ref_err:
            bad = True
            t.violation(f"used-object-raises:{variant}:{which}",
                        f"{variant}: on an object holding modes {prior_modes} of an earlier {prior}, the session {label(len(evs) - 1)} closed with selection {fin} "
                        f"ended with {used_err}; on a fresh object with {ref_err}", case)
        if diff:
            bad = True
            show = {k: (_short(used_held.get(k)), _short(ref_held.get(k))) for k in diff[:4]}
            t.violation(f"held-after-session:{variant}:{which}",
                        f"{variant}: the algorithm object held modes {prior_modes} of an earlier {prior}; after a session {label(len(evs) - 1)} closed with selection {fin} "
                        f"its result differs from what a fresh object holds after the same session in {diff}: (used, fresh) = {show}", case)
        if used_handed != ref_handed:
            bad = True
            t.violation(f"handover-on-used-object:{variant}:{which}",
                        f"{variant}: with selection {fin} extraction was handed {used_handed} on an object holding modes of an earlier {prior}, {ref_handed} on a fresh object "
                        f"(history {label(len(evs) - 1)})", case)
        if not bad:
            t.outcomes["used-object:held-and-handed-same-as-fresh"] += 1
            t.outcomes[f"used-object:session-ends-with-{which}"] += 1
            if not fin and out.get("peak", 0) >= 1:
                t.outcomes["used-object:everything-deselected-again"] += 1
            if not fin and out.get("peak", 0) >= 2:
                t.outcomes["used-object:several-picked-everything-deselected-again"] += 1
        t.validated += 1
    # hand-over (judged at every state reached: closing the dialog is possible in every state)
    if "final" in out:
        fin = sorted(out["final"])
        handed = _HOOK["handed"]
        if fin:
            if err is not None:
                t.violation(f"handover-raises:{type(err).__name__}:{variant}",
                            f"{variant}: mpe_from_plot raised {type(err).__name__}: {err} with selection {fin} after {label(len(evs) - 1)}", case)
            elif handed is None:
                t.violation(f"handover-missing:{variant}", f"{variant}: extraction was never called with selection {fin}", case)
            else:
                name, args, kw = handed
                if kind_of(variant) == "FDD":
                    sf = kw.get("sel_freq", args[3] if len(args) > 3 else None)
                    got = sorted(float(f) for f in np.atleast_1d(sf))
                    if got != [f for f, _ in fin]:
                        t.violation(f"handover:{variant}", f"{variant}: handed {got} to extraction, selection was {fin}", case)
                    else:
                        t.outcomes["handover-ok"] += 1
                else:
                    sf, order = args[0], args[4]
                    got = sorted(zip([float(f) for f in np.atleast_1d(sf)], [int(x) for x in np.atleast_1d(order)]))
                    if got != fin:
                        t.violation(f"handover:{variant}", f"{variant}: handed pairs {got} to extraction, selection was {fin} (history {label(len(evs) - 1)})", case)
                    else:
                        t.outcomes["handover-ok"] += 1
                    # the extracted modes are those poles (frequency, order, damping tag)
                    r = a.result
                    try:
                        ext = sorted(zip([float(f) for f in np.atleast_1d(r.Fn)], [int(x) for x in np.atleast_1d(r.order_out)],
                                         [round(float(x), 12) for x in np.atleast_1d(r.Xi)]))
                    except Exception as e:
                        ext = f"unreadable ({e})"
                    want = sorted((f, o, round(float(XI[[k for k in range(FN.shape[0]) if FN[k, o] == f][0], o]), 12)) for f, o in fin)
                    # ground truth only: do picked poles have neighbours within rtol in their own column, and where are those stored
                    near = set()
                    for f, o in fin:
                        near |= close_neighbours(variant, f, o)
                    corner = ":neighbour-within-rtol-in-same-column" if near else ""
                    rt = "default" if rtol_of(variant) is None else rtol_of(variant)
                    if ext != want:
                        t.violation(f"extracted-modes:{variant}{corner}", f"{variant}: extracted {ext}, picked poles are {want} (rtol={rt}, history {label(len(evs) - 1)})", case)
                    else:
                        t.outcomes["extracted-ok"] += 1
                        # the mode shapes stay with their poles: column i of Phi is the designed shape of the pole (Fn[i], order_out[i])
                        try:
                            Fn_o, ord_o, Phi_o = np.atleast_1d(r.Fn), np.atleast_1d(r.order_out), np.asarray(r.Phi)
                            bad_phi = []
                            for i in range(len(Fn_o)):
                                row = [k for k in range(FN.shape[0]) if FN[k, int(ord_o[i])] == float(Fn_o[i])][0]
                                if not np.array_equal(np.asarray(Phi_o[:, i]), PHI[row, int(ord_o[i]), :]):
                                    bad_phi.append((float(Fn_o[i]), int(ord_o[i]), np.asarray(Phi_o[:, i]).tolist(), PHI[row, int(ord_o[i]), :].tolist()))
                        except Exception as e:
                            bad_phi = [f"unreadable ({type(e).__name__}: {e})"]
                        if bad_phi:
                            t.violation(f"extracted-shapes:{variant}{corner}",
                                        f"{variant}: the mode shapes extracted are not those of the picked poles: (Fn, order, Phi held, Phi of the pole) = {bad_phi[:2]} "
                                        f"(rtol={rt}, history {label(len(evs) - 1)})", case)
                        else:
                            t.outcomes["extracted-shapes-ok"] += 1
                            # vacuity monitors of the closely-spaced-poles corner
                            for w in sorted(near):
                                t.outcomes[f"extracted-ok:picked-pole-has-neighbour-within-rtol-in-{w}"] += 1
                            if near:
                                t.outcomes[f"extracted-ok:neighbour-within-rtol:{kind_of(variant)}:rtol-{rt}"] += 1
        t.transitions += 0
    picks = [e for e, ok in zip(evs, [True] * len(evs)) if e[0] == "click" and e[1] == 1]
    if "final" in out:
        f = out["final"]
        desc = any(e[0] == "click" and e[1] in (2, 3) for e in evs) and len(picks) >= 2
        if desc or (len(f) >= 2 and len({o for _, o in f}) >= 2):
            t.nontrivial.add((variant, tuple(hist)))
    return t, (None if out["stop"] else out["key"])


def _runner(hist):
    return run_history(_CFG["variant"], _CFG["events"], hist)


def plan_for(thorough):
    """(variant, depth of the merged BFS, depth of the un-merged pass). Depth 4 is the shortest history in which deselect-nearest
    has two selected entries to choose from (press, pick, pick, deselect). The quick tier has one band variant per click handler,
    with different bands: the stabilisation chart at depth 4, the singular-value plot at depth 3 (deselect-nearest with one entry);
    the thorough tier has all four band variants, deeper and over the larger band alphabet.
    Used-object variants (second session on an algorithm object that already holds modes): depth 3 is the shortest history that ends with
    everything deselected again (press, pick, deselect); the quick tier has both kinds of earlier extraction for the stabilisation chart of
    SSI, and one each for pLSCF and the singular-value plot (each algorithm family has its own mpe_from_plot); the thorough tier has all six
    at depth 4 (two picks, then both deselected one by one needs 5 and is not reached; two picks and one deselection is)."""
    if not thorough:
        return [("SSI", 4, 2), ("pLSCF", 3, 2), ("FDD", 4, 2), ("SSI-ordmin2", 3, 1),
                ("SSI-band3-7", 4, 1), ("FDD-band2.5-9.2", 3, 1),
                ("SSI-after-mpe", 3, 0), ("SSI-after-session", 3, 0), ("pLSCF-after-session", 3, 0), ("FDD-after-mpe", 3, 0)]
    return [("SSI", 5, 3), ("pLSCF", 5, 3), ("FDD", 5, 3), ("SSI-ordmin2", 4, 2),
            ("SSI-band3-7", 5, 2), ("pLSCF-band0-8.5", 4, 2), ("FDD-band3-7", 4, 2), ("FDD-band2.5-9.2", 5, 2),
            ("SSI-after-mpe", 4, 1), ("SSI-after-session", 4, 1), ("pLSCF-after-mpe", 4, 1), ("pLSCF-after-session", 4, 1),
            ("FDD-after-mpe", 4, 1), ("FDD-after-session", 4, 1)]


def explore(ctx):
    plan = plan_for(ctx.thorough)
    ctx.bounds = {"tables": {"Fn_poles": FN, "freq_lines_FDD": NF}, "click_x": XS, "click_y": YS, "click_x_band_variants": XB,
                  "prior_axis": {"mpe": PRIOR_MPE, "session": [list(e) for e in PRIOR_SESSION], "judged": "second session; result fields, hand-over and exception type against the same history on a fresh object"},
                  "variants": [
        {"variant": v, "dialog": kind_of(v), "freqlim": band_of(v) or "default (0, fs/2)",
         "rtol": "n/a" if kind_of(v) == "FDD" else ("not passed (default)" if rtol_of(v) is None else rtol_of(v)), "algorithm_object_already_holds": prior_of(v) or "nothing (fresh)", "events": [list(e) for e in events_for(v, ctx.thorough)], "merged_bfs_depth": d, "unmerged_depth": u} for v, d, u in plan]}
    for variant, depth, ud in plan:
        events = events_for(variant, ctx.thorough)
        _CFG.update(variant=variant, events=events)
        seen = bfs.merged(ctx, _runner, len(events), depth, label=f"{variant}/")
        items = list(seen.items())
        for k, h in items[:1] + items[-2:]:
            ctx.tally.sample({"variant": variant, "history": [list(events[i]) for i in h], "state_digest": k})
        keys, broken = bfs.unmerged(ctx, _runner, len(events), ud, label=f"{variant}/")
        for h0, h1, evs in broken:
            ctx.tally.violation(f"hidden-state:{variant}", f"histories {h0} and {h1} reach the same dialog state but differ after events {evs}",
                                {"variant": variant, "events": [events[i] for i in h1], "other": [events[i] for i in h0]})
    ctx.require("pick", "pick-on-empty-order", "deselect-one", "deselect-nearest", "click-without-modifier", "handover-ok", "extracted-ok",
                "extracted-shapes-ok", "extracted-ok:picked-pole-has-neighbour-within-rtol-in-earlier-row",
                "extracted-ok:picked-pole-has-neighbour-within-rtol-in-later-row",
                "extracted-ok:neighbour-within-rtol:SSI:rtol-default", "extracted-ok:neighbour-within-rtol:SSI:rtol-0.1",
                "extracted-ok:neighbour-within-rtol:pLSCF:rtol-default",
                "pick-outside-band", "pick-of-pole-outside-band", "deselect-nearest-outside-band", "deselect-nearest-outside-band-among-several",
                "used-object:holds-modes-of-earlier-mpe", "used-object:holds-modes-of-earlier-session", "used-object:held-and-handed-same-as-fresh",
                "used-object:session-ends-with-empty-selection", "used-object:session-ends-with-nonempty-selection", "used-object:everything-deselected-again")


def replay(case):
    evs = [tuple(e) for e in case["events"]]
    t, _ = run_history(case["variant"], evs, tuple(range(len(evs))), judge_all=True)
    return t
