"""C19 - geometry tables are validated, aligned to the sensor order and mapped faithfully.

Bounded-exhaustive enumeration of table sets (the dictionaries of DataFrames the Excel template yields, and the
documented argument forms) against a reference model written from the property statement.  The space is a union of
product lattices ("parts"), each enumerated completely:

  flat    flatten_sns_names: every reference layout of 2 (T: also 3) setups of <= 3 channels x name forms; single forms
  g1      geo1, single setup: n sensors x every row permutation of the coordinate/direction tables x name forms
          x every absent/empty/present combination of the 4 optional sheets x routes (function, SingleSetup.def_geo1,
          def_geo1_by_file with the Excel reader replaced)
  g1m     geo1, multi setup: every reference layout x name forms x row permutations x routes (function, PreGER, PoSER)
  g2map   geo2: every mapping table over {sensor names, constraint c1, 0, NaN} x constraints sheet absent/present:
          validation verdict (names absent / constraint never used -> ValueError) and dfphi_map_func values
  g2c     geo2: constraint matrices over {0, 1, -0.5} x column orders x placements (and column subsets, relaxed oracle)
  g2opt   geo2: every absent/empty/present combination of the 7 optional sheets x routes
  g2sign  geo2: every sign table over {1, -1, 0}
  g2m     geo2, multi setup: every reference layout x name forms x routes
  big12   one fixed 12-sensor instance (geo1 and geo2) under a family of row permutations
  cor1/2  every single-fault corruption (of the kinds the statement lists) of valid table sets -> ValueError; the offending
          label is an invented one ('zz', 99, 'c9') or one BORROWED from another table of the same set (a constraint row
          name, a mapping filler '0' / '0.0' / 'interp', a point / node number as int or string, a column header, another
          sensor's name, a raw reference-channel name) at every place a label is looked up; 0, 1 or 2 constraints
  plot1/2 plot_mode_geo1 / plot_mode_geo2_mpl on Agg: 3-D line ends and scatter offsets read from the artists
"""
import itertools
import traceback

import numpy as np
import pandas as pd

from mc import payload
from mc.core import Tally

ID = "C19"
TECHNIQUE = ("bounded-exhaustive enumeration of geometry table sets (row permutations, name forms, reference layouts, "
             "optional-sheet lattices, mapping/constraint/sign tables over small alphabets, single-fault corruptions) "
             "through the real validators, setup classes, the replaced Excel reader and the Agg plot artists, each case "
             "judged against a reference model written from the statement")
LEVEL_TEXT = ("every element of the stated finite lattices was executed on the real code and compared with the reference "
              "model; beyond the bounds (more than 4/6 sensors exhaustively, one fixed 12-sensor instance) nothing is claimed")
RULE = ("a case is one element of one part's product lattice (part + axis values); non-trivial = the table order differs "
        "from the sensor-name order, or the names come from a multi-setup layout, or an optional sheet is empty/absent, or "
        "a mapping table names at least two distinct symbols (or is invalid for a reason the statement lists), or the case "
        "is a corruption, or a plot with a non-zero displacement; distinct by (part, lattice index)")
ASSUMPTIONS = [
    "pandas indexing / DataFrame construction and Matplotlib's artist accessors (Line3D.get_data_3d, Path3DCollection._offsets3d) are trusted",
    "the dictionaries fed through the replaced read_excel_file are laid out as pd.read_excel(sheet_name=None, index_col=0) lays out the four shipped templates (layout read from the .xlsx files with zipfile; openpyxl is absent)",
    "a mapping cell naming a constraint for which no constraints row exists is outside the statement and not judged",
    "a constraints table listing only a subset of the sensors, and coordinate/direction tables holding the same rows in different orders, are judged with a relaxed oracle (ValueError or the correct geometry)",
    "'sensors surfaces' column count is not judged (documented as '(p, ?)')",
    "the (points, 3) tables of geo2 are read by cell position: column headers of mapping / sensors sign / points coordinates are varied independently over bounds.geo2_column_headers in the plot2 part only (displayed displacement judged positionally)",
    "optional arguments of def_geo1/def_geo2 are passed as DataFrames (the forms the validators can handle)",
    "corruption labels: invented ones and labels borrowed from another table of the same set (listed under bounds.corruption_labels); a sensor literally named like a mapping filler ('0') and line / surface numbers pointing outside the point table are outside the statement and not explored",
]

# ---------------------------------------------------------------------------------------------------------------
# alphabets

NAMES = ["ch10", "ch1", "ch2", "b", "a", "ch3", "s7", "s8", "s9", "s10", "s11", "s12"]   # not in lexicographic order
DIRS = np.array([[1, 0, 0], [0, 1, 0], [0, 0, -1], [-1, 0, 0], [0, -1, 0], [0, 0, 1],
                 [1, 1, 0], [0, 1, -1], [-1, 0, 1], [1, -1, 0], [0, 1, 1], [1, 0, 1]], dtype=np.int64)
COEF = [0.0, 1.0, -0.5]
SIGN = [1, -1, 0]
FIXED_C = [1.0, -0.5, 0.25, 2.0, -1.0, 0.5, 1.5, -2.0, 0.75, -0.25, 3.0, -1.5]
G1_OPT = ["sensors lines", "BG nodes", "BG lines", "BG surfaces"]
G2_OPT = ["constraints", "sensors sign", "sensors lines", "sensors surfaces", "BG nodes", "BG lines", "BG surfaces"]
XYZ = ["x", "y", "z"]
# column-header sets of the three (points, 3) tables of geo2 (points coordinates / mapping / sensors sign); the cells of
# these tables are addressed by position (row label, column position), the headers are free text of the user's workbook
HEADERS = [XYZ, ["dir_x", "dir_y", "dir_z"], ["x", "y", "dz"], [1, 2, 3]]
PART_CODE = {p: i for i, p in enumerate(
    ["flat", "g1", "g1m", "g2map", "g2c", "g2opt", "g2sign", "g2m", "big12", "cor1", "cor2", "plot1", "plot2", "shipped", "reuse"])}

_PAY = {}


def pay(seed):
    if seed not in _PAY:
        _PAY[seed] = {
            "X": payload.entries(seed, "c19/X", (12, 3), lo=1.0, hi=9.0, signed=False),
            "PT": payload.entries(seed, "c19/PT", (5, 3), lo=1.0, hi=9.0, signed=False),
            "BG": payload.entries(seed, "c19/BG", (3, 3), lo=10.0, hi=19.0, signed=False),
            "PHI": payload.entries(seed, "c19/PHI", (12, 2), lo=0.2, hi=1.0, signed=True),
        }
    return _PAY[seed]


def perms(n):
    return list(itertools.permutations(range(n)))


def perm_family(n):
    """Fixed family for tables too long for n!: identity, reversal, all rotations, two strides."""
    fam = [tuple(range(n)), tuple(range(n - 1, -1, -1))]
    fam += [tuple((i + r) % n for i in range(n)) for r in range(1, n)]
    for s in (5, 7):
        if n > s and np.gcd(s, n) == 1:
            fam.append(tuple((s * i) % n for i in range(n)))
    out = []
    for p in fam:
        if p not in out:
            out.append(p)
    return out


def unrank(i, radices):
    out = []
    for r in reversed(radices):
        out.append(i % r)
        i //= r
    return out[::-1]


# ---------------------------------------------------------------------------------------------------------------
# frames laid out like pd.read_excel(sheet_name=None, index_col=0) lays out the templates

def f_names_row(names):
    return pd.DataFrame([list(names)], index=pd.Index([1], name="setup No."),
                        columns=[f"chann. {i + 1}" for i in range(len(names))])


def f_names_table(setups):
    w = max(len(s) for s in setups)
    rows = [list(s) + [np.nan] * (w - len(s)) for s in setups]
    return pd.DataFrame(rows, index=pd.Index(range(1, len(setups) + 1), name="setup No."),
                        columns=[f"chann. {i + 1}" for i in range(w)])


def f_xyz(rows, index, iname="label"):
    return pd.DataFrame(np.asarray(rows), index=pd.Index(list(index), name=iname), columns=XYZ)


def f_obj(rows, index, iname="ptName"):
    """Table with mixed cells (mapping): per-column inference as the Excel reader does."""
    return pd.DataFrame([list(r) for r in rows], index=pd.Index(list(index), name=iname), columns=XYZ)


def f_lines(rows):
    return pd.DataFrame(np.asarray(rows, dtype=np.int64).reshape(-1, 2), index=pd.Index(range(1, len(rows) + 1), name="label"),
                        columns=["start", "end"])


def f_surf(rows):
    return pd.DataFrame(np.asarray(rows, dtype=np.int64).reshape(-1, 3), index=pd.Index(range(1, len(rows) + 1), name="lab"),
                        columns=["i", "j", "k"])


def f_cstr(matrix, cnames, cols):
    return pd.DataFrame(np.asarray(matrix, dtype=float).reshape(len(cnames), len(cols)),
                        index=pd.Index(list(cnames), name="cName"), columns=list(cols))


def f_empty(sheet, header):
    if not header:
        return pd.DataFrame()
    cols = {"sensors lines": ["start", "end"], "BG lines": ["start", "end"], "BG surfaces": ["i", "j", "k"],
            "sensors surfaces": ["i", "j", "k"]}.get(sheet, XYZ)
    if sheet == "constraints":
        cols = []
    return pd.DataFrame(columns=cols, index=pd.Index([], name="label"))


def names_form(form, flat_or_setups):
    if form == "row":
        return f_names_row(flat_or_setups)
    if form == "list":
        return list(flat_or_setups)
    if form == "array":
        return np.array(list(flat_or_setups))
    if form == "table":
        return f_names_table(flat_or_setups)
    if form == "lol":
        return [list(s) for s in flat_or_setups]
    raise ValueError(form)


# ---------------------------------------------------------------------------------------------------------------
# reference model (from the statement)

def ref_flatten(setups, ref_ind):
    """REF1..REFk followed by each setup's roving sensor names, in setup order."""
    k = len(ref_ind[0])
    out = [f"REF{i + 1}" for i in range(k)]
    for chans, refs in zip(setups, ref_ind):
        out += [c for j, c in enumerate(chans) if j not in refs]
    return out


def setup_names(chans):
    return [[f"ch{j + 1}_{i + 1}" for j in range(n)] for i, n in enumerate(chans)]


def ref_layouts(chan_counts_max, nsetups):
    """Every (channel counts, reference index lists): k references per setup, listed in every order."""
    out = []
    for chans in itertools.product(range(1, chan_counts_max + 1), repeat=nsetups):
        for k in range(1, min(chans) + 1):
            for refs in itertools.product(*[list(itertools.permutations(range(n), k)) for n in chans]):
                out.append((list(chans), [list(r) for r in refs]))
    return out


def ref_map_values(cells, names, phi, cnames=(), C=None, ccols=None):
    """Cell naming sensor s -> phi_s; constraint c -> sum_s C[c,s] phi_s; 0/NaN -> 0."""
    val = {n: float(p) for n, p in zip(names, phi)}
    for r, c in enumerate(cnames):
        val[c] = float(sum(C[r][j] * val[s] for j, s in enumerate(ccols)))
    return np.array([val[c] if isinstance(c, str) else 0.0 for c in cells], dtype=float).reshape(-1, 3)


# ---------------------------------------------------------------------------------------------------------------
# calling the library

_FILE = {}


def _fake_reader(path, **kwargs):
    d = _FILE[path]
    return {k: (v.copy() if hasattr(v, "copy") else v) for k, v in d.items()}


def _patch_reader():
    import pyoma2.support.geometry.mixin as mixin

    if mixin.read_excel_file is not _fake_reader:
        mixin.read_excel_file = _fake_reader


def attempt(fn):
    """-> ('ok', value) | ('ValueError', msg, where) | (other exception name, msg, where)."""
    try:
        return ("ok", fn())
    except Exception as e:   # classified by the caller
        where = "?"
        for fr in reversed(traceback.extract_tb(e.__traceback__)):
            if "/pyoma2/" in fr.filename:
                where = fr.name
                break
        return (type(e).__name__, str(e)[:160], where)


def make_obj(route, chans=None, ref=None, nch=1):
    from pyoma2.setup import MultiSetup_PoSER, MultiSetup_PreGER, SingleSetup

    if route in ("single", "file"):
        return SingleSetup(np.zeros((8, nch)), 10.0)
    if route in ("preger", "file_preger"):
        return MultiSetup_PreGER(fs=10.0, ref_ind=[list(r) for r in ref], datasets=[np.zeros((8, c)) for c in chans])
    if route in ("poser", "file_poser"):
        from pyoma2.algorithms import FDD
        from pyoma2.algorithms.data.result import FDDResult

        sss = []
        for c in chans:
            s = SingleSetup(np.zeros((8, c)), 10.0)
            a = FDD(name="f")
            s.add_algorithms(a)
            a.result = FDDResult(Fn=np.array([1.0]), Phi=np.zeros((c, 1)))
            sss.append(s)
        return MultiSetup_PoSER(ref_ind=[list(r) for r in ref], single_setups=sss, names=["f"])
    raise ValueError(route)


G1_ARG = {"sensors lines": "sens_lines", "BG nodes": "bg_nodes", "BG lines": "bg_lines", "BG surfaces": "bg_surf"}
G2_ARG = dict(G1_ARG, **{"constraints": "cstr", "sensors sign": "sens_sign", "sensors surfaces": "sens_surf"})


def call_geo1(route, sheets, states, ref_ind=None, chans=None, info=False):
    """sheets: full dict of frames (names form under 'sensors names'); states: {optional sheet: 0 absent/1 empty/2 present}."""
    from pyoma2.functions import gen

    req = ["sensors names", "sensors coordinates", "sensors directions"]
    if route == "func":
        d = {k: sheets[k] for k in req if k in sheets}
        for k in sheets:
            if k not in req and k not in G1_OPT:
                d[k] = sheets[k]
        for k in G1_OPT:
            if states.get(k, 0) == 2:
                d[k] = sheets[k]
            elif states.get(k, 0) == 1:
                d[k] = f_empty(k, False)
        return attempt(lambda: gen.check_on_geo1(d, ref_ind=ref_ind)), None
    nch = 1
    obj = make_obj(route, chans, ref_ind, nch)
    if route.startswith("file"):
        _patch_reader()
        d = {k: sheets[k] for k in sheets if k not in G1_OPT}
        if info:
            d["INFO"] = pd.DataFrame()
        for k in G1_OPT:
            if states.get(k, 0) == 2:
                d[k] = sheets[k]
            elif states.get(k, 0) == 1:
                d[k] = f_empty(k, True)
        _FILE["mem://c19"] = d
        r = attempt(lambda: obj.def_geo1_by_file("mem://c19"))
    else:
        kw = {}
        for k in G1_OPT:
            if states.get(k, 0) == 2:
                kw[G1_ARG[k]] = sheets[k]
            elif states.get(k, 0) == 1:
                kw[G1_ARG[k]] = f_empty(k, False)
        r = attempt(lambda: obj.def_geo1(sens_names=sheets["sensors names"], sens_coord=sheets["sensors coordinates"],
                                         sens_dir=sheets["sensors directions"], **kw))
    if r[0] == "ok":
        g = obj.geo1
        if g is None:
            return ("no-geometry", "def_geo1 returned without attaching geo1", route), obj
        return ("ok", (g.sens_names, g.sens_coord, g.sens_dir, g.sens_lines, g.bg_nodes, g.bg_lines, g.bg_surf)), obj
    return r, obj


def call_geo2(route, sheets, states, ref_ind=None, chans=None, info=False):
    from pyoma2.functions import gen

    req = ["sensors names", "points coordinates", "mapping"]
    if route == "func":
        d = {k: sheets[k] for k in req if k in sheets}
        for k in sheets:
            if k not in req and k not in G2_OPT:
                d[k] = sheets[k]
        for k in G2_OPT:
            if states.get(k, 0) == 2:
                d[k] = sheets[k]
            elif states.get(k, 0) == 1:
                d[k] = f_empty(k, False)
        return attempt(lambda: gen.check_on_geo2(d, ref_ind=ref_ind)), None
    obj = make_obj(route, chans, ref_ind, 1)
    if route.startswith("file"):
        _patch_reader()
        d = {k: sheets[k] for k in sheets if k not in G2_OPT}
        if info:
            d["INFO"] = pd.DataFrame()
        for k in G2_OPT:
            if states.get(k, 0) == 2:
                d[k] = sheets[k]
            elif states.get(k, 0) == 1:
                d[k] = f_empty(k, True)
        _FILE["mem://c19"] = d
        r = attempt(lambda: obj.def_geo2_by_file("mem://c19"))
    else:
        kw = {}
        for k in G2_OPT:
            if states.get(k, 0) == 2:
                kw[G2_ARG[k]] = sheets[k]
            elif states.get(k, 0) == 1:
                kw[G2_ARG[k]] = f_empty(k, False)
        r = attempt(lambda: obj.def_geo2(sens_names=sheets["sensors names"], pts_coord=sheets["points coordinates"],
                                         sens_map=sheets["mapping"], **kw))
    if r[0] == "ok":
        g = obj.geo2
        if g is None:
            return ("no-geometry", "def_geo2 returned without attaching geo2", route), obj
        return ("ok", (g.sens_names, g.pts_coord, g.sens_map, g.cstrn, g.sens_sign, g.sens_lines, g.sens_surf,
                       g.bg_nodes, g.bg_lines, g.bg_surf)), obj
    return r, obj


# ---------------------------------------------------------------------------------------------------------------
# comparison helpers

def arr_eq(got, exp):
    if got is None:
        return False
    try:
        g = np.asarray(got.to_numpy() if hasattr(got, "to_numpy") else got, dtype=float)
    except Exception:
        return False
    e = np.asarray(exp, dtype=float)
    return g.shape == e.shape and np.array_equal(g, e)


def same_names(got, exp):
    try:
        return [str(x) for x in got] == list(exp) and not isinstance(got, str)
    except TypeError:
        return False


def is_none_or_empty(got):
    if got is None:
        return True
    try:
        return len(got) == 0
    except Exception:
        return False


def cmp_index_table(field, got, exp):
    """One-based -> zero-based index tables (or None when the sheet is omitted/empty). Returns an error label or None."""
    if exp is None:
        return None if is_none_or_empty(got) else f"{field}:expected-none"
    e = np.asarray(exp, dtype=float)
    if arr_eq(got, e - 1):
        return None
    if arr_eq(got, e):
        return f"{field}:index-not-shifted"
    if arr_eq(got, e - 2):
        return f"{field}:index-shifted-twice"
    return f"{field}:wrong"


def cmp_plain_table(field, got, exp):
    if exp is None:
        return None if is_none_or_empty(got) else f"{field}:expected-none"
    return None if arr_eq(got, exp) else f"{field}:wrong"


def short(x):
    try:
        if hasattr(x, "to_numpy"):
            x = x.to_numpy()
        return np.asarray(x).tolist()
    except Exception:
        return repr(x)[:80]


# ---------------------------------------------------------------------------------------------------------------
# geo1 tables and judge

def geo1_sheets(seed, flat, perm, names_obj):
    n = len(flat)
    P = pay(seed)
    X, D = P["X"][:n], DIRS[:n]
    p = list(perm)
    idx = [flat[i] for i in p]
    lines = [[i + 1, (i + 1) % n + 1] for i in range(n)]
    sheets = {
        "sensors names": names_obj,
        "sensors coordinates": f_xyz(X[p], idx),
        "sensors directions": f_xyz(D[p], idx),
        "sensors lines": f_lines(lines),
        "BG nodes": f_xyz(P["BG"], [1, 2, 3], "label"),
        "BG lines": f_lines([[1, 2], [2, 3], [3, 1]]),
        "BG surfaces": f_surf([[1, 2, 3], [3, 2, 1]]),
    }
    exp = {"names": list(flat), "X": X, "D": D, "sensors lines": np.array(lines), "BG nodes": P["BG"],
           "BG lines": np.array([[1, 2], [2, 3], [3, 1]]), "BG surfaces": np.array([[1, 2, 3], [3, 2, 1]])}
    return sheets, exp


def geo1_errors(obs, exp, states):
    names, coord, sdir, lines, bgn, bgl, bgs = obs
    errs = []
    if not same_names(names, exp["names"]):
        errs.append("names")
    if not (arr_eq(coord, exp["X"]) and (not hasattr(coord, "index") or [str(i) for i in coord.index] == exp["names"])):
        errs.append("coordinates-not-in-name-order")
    if not arr_eq(sdir, exp["D"]):
        errs.append("directions-not-in-name-order")
    for field, got in (("sensors lines", lines), ("BG lines", bgl), ("BG surfaces", bgs)):
        e = cmp_index_table(field, got, exp[field] if states.get(field, 0) == 2 else None)
        if e:
            errs.append(e)
    e = cmp_plain_table("BG nodes", bgn, exp["BG nodes"] if states.get("BG nodes", 0) == 2 else None)
    if e:
        errs.append(e)
    return errs


def judge_valid_result(t, r, case, geo, route, form, errs_fn, ok_label):
    """Common tail for cases the statement says are valid: must be accepted and equal the model."""
    t.transitions += 1
    t.evaluations += 1
    if r[0] != "ok":
        t.violation(f"raises:{r[0]}@{r[2]}:{geo}:names={form}",
                    f"valid {geo} table set rejected on route {route} (names as {form}): {r[0]}: {r[1]} | case {case}", case)
        t.outcomes[f"{case['part']}:valid-raised"] += 1
        return False
    errs = errs_fn(r[1])
    t.validated += 1
    if errs:
        t.violation(f"{geo}:{'+'.join(sorted(set(errs)))}",
                    f"{geo} via {route} differs from the reference model in {sorted(set(errs))}: got names {short(r[1][0])} | case {case}", case)
        t.outcomes[f"{case['part']}:mismatch"] += 1
        return False
    t.outcomes[ok_label] += 1
    return True


def judge_g1(case, t):
    seed, n, perm, form, route, opt = case["seed"], case["n"], case["perm"], case["form"], case["route"], case["opt"]
    flat = NAMES[:n]
    sheets, exp = geo1_sheets(seed, flat, perm, names_form(form, flat))
    states = dict(zip(G1_OPT, opt))
    r, _ = call_geo1(route, sheets, states, info=bool(case.get("info")))
    t.states += 1
    ok = judge_valid_result(t, r, case, "geo1", route, form, lambda o: geo1_errors(o, exp, states), "g1:aligned")
    if ok and list(perm) != sorted(perm):
        t.outcomes["g1:reordered"] += 1
    if ok and any(s != 2 for s in opt):
        t.outcomes["g1:optional-omitted"] += 1
    return list(perm) != sorted(perm) or any(s != 2 for s in opt)


def judge_g1m(case, t):
    seed, chans, ref, form, route, perm, o = (case["seed"], case["chans"], case["ref"], case["form"], case["route"],
                                              case["perm"], case["opt"])
    setups = setup_names(chans)
    flat = ref_flatten(setups, ref)
    sheets, exp = geo1_sheets(seed, flat, perm, names_form(form, setups))
    states = {k: o for k in G1_OPT}
    r, _ = call_geo1(route, sheets, states, ref_ind=ref, chans=chans, info=False)
    t.states += 1
    ok = judge_valid_result(t, r, case, "geo1", route, form, lambda ob: geo1_errors(ob, exp, states), "g1m:aligned")
    if ok and len(flat) > len(ref[0]):
        t.outcomes["g1m:with-roving"] += 1
    return True


def judge_flat(case, t):
    from pyoma2.functions import gen

    t.states += 1
    t.transitions += 1
    t.evaluations += 1
    form = case["form"]
    if form in ("table", "lol"):
        setups = setup_names(case["chans"])
        exp = ref_flatten(setups, case["ref"])
        r = attempt(lambda: gen.flatten_sns_names(names_form(form, setups), [list(x) for x in case["ref"]]))
    else:
        exp = NAMES[:case["n"]]
        r = attempt(lambda: gen.flatten_sns_names(names_form(form, exp)))
    if r[0] != "ok":
        t.violation(f"raises:{r[0]}@{r[2]}:flatten:names={form}", f"flatten_sns_names rejected a documented form {form}: {r[1]} | {case}", case)
        return True
    t.validated += 1
    got = r[1]
    if not same_names(got, exp):
        t.violation(f"flatten:order:names={form}", f"flatten_sns_names returned {got}, statement gives {exp} | {case}", case)
    else:
        t.outcomes["flat:ok-multi" if form in ("table", "lol") else "flat:ok-single"] += 1
    return form in ("table", "lol")


# ---------------------------------------------------------------------------------------------------------------
# geo2 tables and judges

def geo2_sheets(seed, flat, P, cells, names_obj, cnames=(), C=None, ccols=None, sign=None):
    pp = pay(seed)
    PT = pp["PT"][:P]
    pid = list(range(1, P + 1))
    lines = [[i + 1, (i + 1) % P + 1] for i in range(P)]
    surf = [[1, min(2, P), P]]
    sheets = {
        "sensors names": names_obj,
        "points coordinates": f_xyz(PT, pid, "ptName"),
        "mapping": f_obj(np.array(cells, dtype=object).reshape(P, 3), pid),
        "sensors lines": f_lines(lines),
        "sensors surfaces": f_surf(surf),
        "BG nodes": f_xyz(pp["BG"], [1, 2, 3], "label"),
        "BG lines": f_lines([[1, 2], [2, 3], [3, 1]]),
        "BG surfaces": f_surf([[1, 2, 3], [3, 2, 1]]),
    }
    if cnames:
        sheets["constraints"] = f_cstr(C, cnames, ccols)
    sg = np.ones((P, 3), dtype=np.int64) if sign is None else np.asarray(sign, dtype=np.int64).reshape(P, 3)
    sheets["sensors sign"] = pd.DataFrame(sg, index=pd.Index(pid, name="ptName"), columns=XYZ)
    exp = {"names": list(flat), "PT": PT, "sign": sg, "sensors lines": np.array(lines), "sensors surfaces": np.array(surf),
           "BG nodes": pp["BG"], "BG lines": np.array([[1, 2], [2, 3], [3, 1]]), "BG surfaces": np.array([[1, 2, 3], [3, 2, 1]])}
    return sheets, exp


def mapped_by_library(obs, phi):
    from pyoma2.functions import gen

    return attempt(lambda: gen.dfphi_map_func(np.asarray(phi, dtype=float), obs[0], obs[2], cstrn=obs[3]).to_numpy())


def geo2_errors(obs, exp, states, phi, expmap):
    names, pts, smap, cstr, sign, lines, surf, bgn, bgl, bgs = obs
    errs = []
    if not same_names(names, exp["names"]):
        errs.append("names")
    if not arr_eq(pts, exp["PT"]):
        errs.append("points-coordinates")
    if states.get("sensors sign", 0) == 2:
        if not arr_eq(sign, exp["sign"]):
            errs.append("sign-table-changed")
    elif not (sign is None or arr_eq(sign, np.ones_like(exp["PT"]))):
        errs.append("sign-default-not-ones")
    for field, got in (("sensors lines", lines), ("sensors surfaces", surf), ("BG lines", bgl), ("BG surfaces", bgs)):
        e = cmp_index_table(field, got, exp[field] if states.get(field, 0) == 2 else None)
        if e:
            errs.append(e)
    e = cmp_plain_table("BG nodes", bgn, exp["BG nodes"] if states.get("BG nodes", 0) == 2 else None)
    if e:
        errs.append(e)
    if errs and "names" in errs:
        return errs
    m = mapped_by_library(obs, phi)
    if m[0] != "ok":
        errs.append(f"dfphi_map_func-raises-{m[0]}")
    else:
        got = np.asarray(m[1], dtype=float)
        if got.shape != expmap.shape or not np.allclose(got, expmap, rtol=1e-12, atol=1e-14, equal_nan=False):
            errs.append("mapped-values")
    return errs


def g2map_alphabet(n, nan=1):
    return NAMES[:n] + (["c1", 0, np.nan] if nan else ["c1", 0])


def judge_g2map(case, t):
    """One mapping table (cells as alphabet indices) x constraints sheet absent (0) / present (2)."""
    seed, n, P, ci, cs, route = case["seed"], case["n"], case["P"], case["cells"], case["cstr"], case["route"]
    flat = NAMES[:n]
    alpha = g2map_alphabet(n, case.get("nan", 1))
    cells = [alpha[i] for i in ci]
    has_all = all(s in cells for s in flat)
    uses_c = "c1" in cells
    t.states += 1
    distinct = len({c for c in cells if isinstance(c, str)})
    if has_all and uses_c and cs == 0:
        t.not_judged += 1
        t.outcomes["g2map:undefined-constraint(not judged)"] += 1
        return False
    C = [FIXED_C[:n]]
    sheets, exp = geo2_sheets(seed, flat, P, cells, names_form("row", flat), ("c1",) if cs else (), C, flat)
    states = {"constraints": cs, "sensors sign": 0}
    r, _ = call_geo2(route, sheets, states)
    phi = pay(seed)["PHI"][:n, 0]
    if not has_all or (cs and not uses_c):
        kind = "sensor-name-absent-from-mapping" if not has_all else "constraint-never-used"
        t.transitions += 1
        t.evaluations += 1
        t.validated += 1
        if r[0] == "ValueError":
            t.outcomes[f"g2map:{kind}->ValueError"] += 1
        else:
            what = "accepted" if r[0] == "ok" else r[0]
            t.violation(f"corrupt:geo2:{kind}:mapping:{what}",
                        f"mapping {cells} with sensors {flat}, constraints sheet {'present (row c1)' if cs else 'absent'}: "
                        f"expected ValueError, got {what} {'' if r[0] == 'ok' else r[1]} | {case}", case)
        return True
    expmap = ref_map_values(cells, flat, phi, ("c1",) if cs else (), C, flat)
    judge_valid_result(t, r, case, "geo2", route, "row", lambda o: geo2_errors(o, exp, states, phi, expmap),
                       "g2map:valid-mapped-with-constraint" if uses_c else "g2map:valid-mapped")
    return distinct >= 2


def placements(m, ncell=6):
    return list(itertools.permutations(range(ncell), m))


def judge_g2c(case, t):
    """Constraint matrices: n sensors + nr constraints placed injectively on a 2x3 grid; coefficient matrix over COEF;
    constraint columns in a given order, possibly only a subset of the sensors (relaxed oracle)."""
    seed, n, nr, place, coef, cols = case["seed"], case["n"], case["nr"], case["place"], case["coef"], case["cols"]
    flat = NAMES[:n]
    cn = [f"c{i + 1}" for i in range(nr)]
    cells = [0] * 6
    for sym, pos in zip(flat + cn, place):
        cells[pos] = sym
    ccols = [flat[j] for j in cols]
    C = np.array([COEF[i] for i in coef], dtype=float).reshape(nr, len(ccols))
    sheets, exp = geo2_sheets(seed, flat, 2, cells, names_form("row", flat), tuple(cn), C, ccols)
    states = {"constraints": 2, "sensors sign": 0}
    r, _ = call_geo2(case["route"], sheets, states)
    phi = pay(seed)["PHI"][:n, 1]
    expmap = ref_map_values(cells, flat, phi, cn, C, ccols)
    t.states += 1
    if len(cols) < n:
        t.transitions += 1
        t.evaluations += 1
        t.validated += 1
        if r[0] == "ValueError":
            t.outcomes["g2c:column-subset->ValueError(admissible)"] += 1
        elif r[0] == "ok":
            errs = geo2_errors(r[1], exp, states, phi, expmap)
            if errs:
                t.violation(f"geo2:{'+'.join(sorted(set(errs)))}:constraint-column-subset",
                            f"constraints with columns {ccols} of sensors {flat} accepted but differs from the model in {errs} | {case}", case)
            else:
                t.outcomes["g2c:column-subset-mapped"] += 1
        else:
            t.violation(f"raises:{r[0]}@{r[2]}:geo2:constraint-column-subset", f"{r[0]}: {r[1]} | {case}", case)
        return True
    ok = judge_valid_result(t, r, case, "geo2", case["route"], "row", lambda o: geo2_errors(o, exp, states, phi, expmap), "g2c:mapped")
    if ok and list(cols) != sorted(cols):
        t.outcomes["g2c:columns-reordered"] += 1
    return True


G2OPT_CELLS = ["ch10", "c1", 0, np.nan, "ch1", 0]


def judge_g2opt(case, t):
    seed, opt, route, form = case["seed"], case["opt"], case["route"], case.get("form", "row")
    flat = NAMES[:2]
    states = dict(zip(G2_OPT, opt))
    cells = list(G2OPT_CELLS)
    if states["constraints"] != 2:
        cells[1] = 0
    sign = [1, -1, 0, -1, -1, 1]
    C = [[1.0, -0.5]]
    sheets, exp = geo2_sheets(seed, flat, 2, cells, names_form(form, flat), ("c1",), C, flat, sign)
    r, _ = call_geo2(route, sheets, states, info=bool(case.get("info")))
    phi = pay(seed)["PHI"][:2, 0]
    expmap = ref_map_values(cells, flat, phi, ("c1",) if states["constraints"] == 2 else (), C, flat)
    t.states += 1
    ok = judge_valid_result(t, r, case, "geo2", route, form, lambda o: geo2_errors(o, exp, states, phi, expmap), "g2opt:ok")
    if ok and states["constraints"] == 0:
        t.outcomes["g2opt:constraints-sheet-absent"] += 1
    if ok and any(s != 2 for s in opt):
        t.outcomes["g2opt:optional-omitted"] += 1
    return any(s != 2 for s in opt)


def judge_g2sign(case, t):
    seed, P, sg, route = case["seed"], case["P"], case["sign"], case["route"]
    flat = NAMES[:2]
    cells = (["ch10", "ch1", 0] + [0, np.nan, "ch10"])[:3 * P]
    sign = [SIGN[i] for i in sg]
    sheets, exp = geo2_sheets(seed, flat, P, cells, names_form("row", flat), sign=sign)
    states = {"sensors sign": 2}
    r, _ = call_geo2(route, sheets, states)
    phi = pay(seed)["PHI"][:2, 0]
    expmap = ref_map_values(cells, flat, phi)
    t.states += 1
    judge_valid_result(t, r, case, "geo2", route, "row", lambda o: geo2_errors(o, exp, states, phi, expmap), "g2sign:kept")
    return any(s != 1 for s in sign)


def judge_g2m(case, t):
    seed, chans, ref, form, route = case["seed"], case["chans"], case["ref"], case["form"], case["route"]
    setups = setup_names(chans)
    flat = ref_flatten(setups, ref)
    n = len(flat)
    P = (n + 2) // 3
    cells = list(reversed(flat)) + [0] * (3 * P - n)
    sheets, exp = geo2_sheets(seed, flat, P, cells, names_form(form, setups))
    states = {k: case["opt"] for k in G2_OPT}
    states["constraints"] = 0
    r, _ = call_geo2(route, sheets, states, ref_ind=ref, chans=chans)
    phi = pay(seed)["PHI"][:n, 0]
    expmap = ref_map_values(cells, flat, phi)
    t.states += 1
    judge_valid_result(t, r, case, "geo2", route, form, lambda o: geo2_errors(o, exp, states, phi, expmap), "g2m:ok")
    return True


def judge_big12(case, t):
    seed, geo, pi, form, route, o = case["seed"], case["geo"], case["perm_i"], case["form"], case["route"], case["opt"]
    flat = NAMES[:12]
    t.states += 1
    if geo == 1:
        perm = perm_family(12)[pi]
        sheets, exp = geo1_sheets(seed, flat, perm, names_form(form, flat))
        states = {k: o for k in G1_OPT}
        r, _ = call_geo1(route, sheets, states)
        judge_valid_result(t, r, case, "geo1", route, form, lambda ob: geo1_errors(ob, exp, states), "big12:geo1-aligned")
    else:
        base = flat + ["c1", 0, np.nan]
        rot = pi % 15
        cells = base[rot:] + base[:rot]
        C = [FIXED_C]
        ccols = [flat[(5 * i) % 12] for i in range(12)]
        Cc = [[FIXED_C[(5 * i) % 12] for i in range(12)]]
        sheets, exp = geo2_sheets(seed, flat, 5, cells, names_form(form, flat), ("c1",), Cc, ccols)
        states = {k: o for k in G2_OPT}
        states["constraints"] = 2
        r, _ = call_geo2(route, sheets, states)
        phi = pay(seed)["PHI"][:12, 0]
        expmap = ref_map_values(cells, flat, phi, ("c1",), C, flat)
        judge_valid_result(t, r, case, "geo2", route, form, lambda ob: geo2_errors(ob, exp, states, phi, expmap), "big12:geo2-mapped")
    return True


# ---------------------------------------------------------------------------------------------------------------
# single-fault corruptions

def cols_changed(df, delta):
    if delta < 0:
        return df.iloc[:, :df.shape[1] + delta]
    out = df.copy()
    out["extra"] = 1
    return out


def cor1_list(n, opt_present, multi):
    """(kind, sheet, arg) for geo1; only kinds the statement lists."""
    out = []
    for s in ("sensors names", "sensors coordinates", "sensors directions"):
        out.append(("drop-required", s, 0))
    for nm in ("foo", "Sensors names", "sensors line", "BG surface"):
        out.append(("unknown-sheet", nm, 0))
    for s in ("sensors coordinates", "sensors directions", "both coordinate tables"):
        for d in (-1, 1):
            out.append(("cols", s, d))
    if opt_present:
        for s in G1_OPT:
            for d in (-1, 1):
                out.append(("cols", s, d))
    for s in ("sensors coordinates", "sensors directions"):
        for r in range(n):
            out.append(("drop-row", s, r))
            out.append(("rename-index", s, r))
    for r in range(n):
        out.append(("name-absent-from-coordinates", "both coordinate tables", r))
    out.append(("name-absent-from-coordinates", "sensors names", 0))
    if n >= 2:
        for r in range(n - 1):
            out.append(("row-order-differs(relaxed)", "sensors directions", r))
    return out


def raw_ref_names(setups, ref):
    """Multi-setup: the names the reference channels carry in the 'sensors names' table (legal there, but the sensor list
    knows these channels as REF1..REFk only)."""
    return [setups[i][ref[i][k]] for i in range(len(setups)) for k in range(len(ref[i]))]


def cor1_borrowed(flat, setups=None, ref=None):
    """geo1 corruptions 'unknown label that occurs elsewhere in the tables': the offending label is not invented ('zz') but a
    legal token of ANOTHER place of the same table set - another sensor's name (a duplicate), a line / background-node number
    (as int and as string), a column header of the coordinate table or of the names table, 'REF1', and for multi-setup
    layouts the raw name of a reference channel.  arg = [row, token]."""
    n = len(flat)
    out = []
    for r in range(n):
        toks = [1, "1", str(r + 1), "x", "chann. 1"] + ([flat[(r + 1) % n]] if n >= 2 else [])
        toks += ["REF1"] if setups is None else raw_ref_names(setups, ref)
        seen = []
        for tok in toks:
            if tok in seen or tok == flat[r]:
                continue
            seen.append(tok)
            for s in ("sensors coordinates", "sensors directions"):
                out.append(("index-borrowed-label", s, [r, tok]))                  # one table only: indices mismatch
            out.append(("coordinate-rows-borrowed-label", "both coordinate tables", [r, tok]))   # both: the name is absent
    for tok in ["1", "x", "sensors lines"] + (["REF1"] if setups is None else raw_ref_names(setups, ref)[:2]):
        if tok not in flat:
            out.append(("extra-name-borrowed-label", "sensors names", [0, tok]))
    return out


def apply_cor1(sheets, states, kind, sheet, arg, flat, form, setups):
    d = dict(sheets)
    st = dict(states)
    if kind == "index-borrowed-label":
        r, tok = arg
        # position r of the SENSOR order (the table itself may be permuted)
        d[sheet] = d[sheet].rename(index={flat[r]: tok})
    elif kind == "coordinate-rows-borrowed-label":
        r, tok = arg
        d["sensors coordinates"] = d["sensors coordinates"].rename(index={flat[r]: tok})
        d["sensors directions"] = d["sensors directions"].rename(index={flat[r]: tok})
    elif kind == "extra-name-borrowed-label":
        tok = arg[1]
        if setups is None:
            d["sensors names"] = names_form(form, list(flat) + [tok])
        else:
            s2 = [list(s) for s in setups]
            s2[-1] = s2[-1] + [tok]
            d["sensors names"] = names_form(form, s2)
    elif kind == "drop-required":
        d.pop(sheet)
    elif kind == "unknown-sheet":
        d[sheet] = f_lines([[1, 1]])
    elif kind == "cols":
        if sheet == "both coordinate tables":
            d["sensors coordinates"] = cols_changed(d["sensors coordinates"], arg)
            d["sensors directions"] = cols_changed(d["sensors directions"], arg)
        else:
            d[sheet] = cols_changed(d[sheet], arg)
    elif kind == "drop-row":
        d[sheet] = d[sheet].drop(d[sheet].index[arg])
    elif kind == "rename-index":
        d[sheet] = d[sheet].rename(index={d[sheet].index[arg]: "zz"})
    elif kind == "name-absent-from-coordinates":
        if sheet == "sensors names":
            if setups is None:
                d["sensors names"] = names_form(form, list(flat) + ["zz"])
            else:
                s2 = [list(s) for s in setups]
                s2[-1] = s2[-1] + ["zz"]
                d["sensors names"] = names_form(form, s2)
        else:
            old = d["sensors coordinates"].index[arg]
            d["sensors coordinates"] = d["sensors coordinates"].rename(index={old: "zz"})
            d["sensors directions"] = d["sensors directions"].rename(index={old: "zz"})
    elif kind == "row-order-differs(relaxed)":
        idx = list(d["sensors directions"].index)
        idx[arg], idx[arg + 1] = idx[arg + 1], idx[arg]
        d["sensors directions"] = d["sensors directions"].loc[idx]
    else:
        raise ValueError(kind)
    return d, st


def judge_corruption(t, r, case, geo, kind, sheet, route, obj, relaxed_ok=None):
    t.states += 1
    t.transitions += 1
    t.evaluations += 1
    t.validated += 1
    attached = obj is not None and getattr(obj, "geo1" if geo == "geo1" else "geo2", None) is not None
    if r[0] == "ValueError" and not attached:
        t.outcomes[f"cor:{geo}:{kind}->ValueError"] += 1
        return
    if relaxed_ok is not None and r[0] == "ok":
        errs = relaxed_ok(r[1])
        if not errs:
            t.outcomes[f"cor:{geo}:{kind}->aligned-by-name(admissible)"] += 1
        else:
            t.violation(f"{geo}:{'+'.join(sorted(set(errs)))}:{kind}", f"accepted but wrong {errs} | {case}", case)
        return
    if r[0] == "ValueError" and attached:
        what = "ValueError-but-geometry-attached"
    else:
        what = "accepted" if r[0] == "ok" else r[0]
    t.violation(f"corrupt:{geo}:{kind}:{sheet}:{what}",
                f"{geo} corruption '{kind}' of '{sheet}' (arg {case.get('arg')}) on route {route}: expected ValueError and no geometry, got {what}"
                f"{'' if r[0] in ('ok', 'ValueError') else ': ' + str(r[1]) + ' in ' + str(r[2])} | {case}", case)


def route_supports(route, kind):
    if route in ("func",) or route.startswith("file"):
        return True
    return kind not in ("drop-required", "unknown-sheet")


def judge_cor1(case, t):
    seed, n, perm, form, route, o = case["seed"], case["n"], case["perm"], case["form"], case["route"], case["opt"]
    kind, sheet, arg = case["kind"], case["sheet"], case["arg"]
    ref, chans, setups = case.get("ref"), case.get("chans"), None
    if ref is not None:
        setups = setup_names(chans)
        flat = ref_flatten(setups, ref)
        nobj = names_form(form, setups)
    else:
        flat = NAMES[:n]
        nobj = names_form(form, flat)
    sheets, exp = geo1_sheets(seed, flat, perm, nobj)
    states = {k: o for k in G1_OPT}
    d, st = apply_cor1(sheets, states, kind, sheet, arg, flat, form, setups)
    r, obj = call_geo1(route, d, st, ref_ind=ref, chans=chans)
    relaxed = (lambda ob: geo1_errors(ob, exp, st)) if kind.endswith("(relaxed)") else None
    judge_corruption(t, r, case, "geo1", kind, sheet, route, obj, relaxed)
    return True


def cor2_list(n, P, opt_present, with_c):
    out = []
    for s in ("sensors names", "points coordinates", "mapping"):
        out.append(("drop-required", s, 0))
    for nm in ("foo", "Mapping", "sensor sign", "constraint"):
        out.append(("unknown-sheet", nm, 0))
    for s in ("points coordinates", "mapping", "points+mapping+sign"):
        for d in (-1, 1):
            out.append(("cols", s, d))
    if opt_present:
        for s in ("sensors sign", "sensors lines", "BG nodes", "BG lines", "BG surfaces"):
            for d in (-1, 1):
                out.append(("cols", s, d))
    for s in ("points coordinates", "mapping") + (("sensors sign",) if opt_present else ()):
        for r in range(P):
            if not (s == "sensors sign" and P == 1):     # an emptied optional sheet is a valid omission
                out.append(("drop-row", s, r))
            out.append(("rename-index", s, r))
    if P >= 2:
        # same labels, other row order: an index mismatch too (relaxed oracle: ValueError, or a geometry aligned by label)
        for s in ("points coordinates", "mapping") + (("sensors sign",) if opt_present else ()):
            out.append(("reorder-rows", s, 0))
    for r in range(n):
        out.append(("name-absent-from-mapping", "mapping", r))
    out.append(("name-absent-from-mapping", "sensors names", 0))
    if with_c:
        out.append(("constraint-unknown-sensor", "constraints", 0))     # extra column 'zz'
        for r in range(n):
            out.append(("constraint-unknown-sensor", "constraints", r + 1))   # column r renamed to 'zz'
    out.append(("constraint-never-used", "constraints", 0))         # extra row 'c9'
    return out


CNAMES2 = ["c1", "c2"]


def cor2_borrowed(n, P, opt_present, with_c):
    """geo2 corruptions 'unknown label that occurs elsewhere in the tables': wherever a label is looked up (constraints
    columns -> sensor names, constraints rows -> constraint names of the mapping, mapping cells / extra name -> sensor
    names, point index of one table -> the other tables) the offending label is a legal token of ANOTHER table, not an
    invented one: a constraint row name (a constraint written in terms of a constraint), the mapping fillers '0' / '0.0' /
    0 / 'interp', a point label (as int, as string, zero-based), a column header, a sensor name, 'REF1'.
    arg = [position, token]."""
    flat = NAMES[:n]
    cn = CNAMES2[:with_c]
    out = []
    # constraints COLUMNS must be sensor names: tokens that are not
    if with_c:
        for tok in cn + ["0", "0.0", 0, "interp", "1", 1, "x"]:
            for pos in range(n + 1):                  # 0: an extra column; r + 1: column r relabelled
                out.append(("constraint-column-borrowed-label", "constraints", [pos, tok]))
    # constraints ROWS must be constraint names the mapping uses: tokens that are not (a sensor name, a filler, ...)
    for tok in list(dict.fromkeys([flat[0], flat[-1], "0", "0.0", "interp", "1", "x"])):
        for pos in range(with_c + 1):                 # 0: an extra row; k + 1: row k relabelled
            out.append(("constraint-row-borrowed-label", "constraints", [pos, tok]))
    # every mapping cell naming sensor r names something else that is legal elsewhere: the sensor is absent from the mapping
    for r in range(n):
        for tok in cn + ["1", 1, "x", "interp"] + ([flat[(r + 1) % n]] if n >= 2 else []):
            out.append(("mapping-cell-borrowed-label", "mapping", [r, tok]))
    for tok in ["1", "x", "REF1", "points coordinates"]:
        out.append(("extra-name-borrowed-label", "sensors names", [0, tok]))
    # the point label of ONE table replaced by a label that is legal elsewhere: the indices no longer agree
    for s in ("points coordinates", "mapping") + (("sensors sign",) if opt_present else ()):
        for r in range(P):
            seen = []
            for tok in [str(r + 1), r, flat[0], "x", (r + 1) % P + 1 if P >= 2 else 3]:
                if tok not in seen and tok != r + 1:
                    seen.append(tok)
                    out.append(("index-borrowed-label", s, [r, tok]))
    return out


def apply_cor2(sheets, states, kind, sheet, arg, flat, form, with_c):
    d = dict(sheets)
    st = dict(states)
    if kind == "constraint-column-borrowed-label":
        pos, tok = arg
        c = d["constraints"].copy()
        if pos == 0:
            c[tok] = 1.0
        else:
            c = c.rename(columns={c.columns[pos - 1]: tok})
        d["constraints"] = c
        st["constraints"] = 2
    elif kind == "constraint-row-borrowed-label":
        pos, tok = arg
        if not with_c:
            d["constraints"] = f_cstr([FIXED_C[:len(flat)]], [tok], flat)
        elif pos == 0:
            c = d["constraints"]
            d["constraints"] = pd.concat([c, c.iloc[:1].rename(index={c.index[0]: tok})])
        else:
            c = d["constraints"]
            d["constraints"] = c.rename(index={c.index[pos - 1]: tok})
        st["constraints"] = 2
    elif kind == "mapping-cell-borrowed-label":
        r, tok = arg
        m = d["mapping"].to_numpy().astype(object)
        m[m == flat[r]] = tok
        d["mapping"] = f_obj(m, d["mapping"].index)
    elif kind == "extra-name-borrowed-label":
        d["sensors names"] = names_form(form, list(flat) + [arg[1]])
    elif kind == "index-borrowed-label":
        r, tok = arg
        d[sheet] = d[sheet].rename(index={d[sheet].index[r]: tok})
    elif kind == "drop-required":
        d.pop(sheet)
    elif kind == "unknown-sheet":
        d[sheet] = f_lines([[1, 1]])
    elif kind == "cols":
        if sheet == "points+mapping+sign":
            for s in ("points coordinates", "mapping", "sensors sign"):
                d[s] = cols_changed(d[s], arg)
        else:
            d[sheet] = cols_changed(d[sheet], arg)
    elif kind == "drop-row":
        d[sheet] = d[sheet].drop(d[sheet].index[arg])
    elif kind == "rename-index":
        d[sheet] = d[sheet].rename(index={d[sheet].index[arg]: 99})
    elif kind == "reorder-rows":
        d[sheet] = d[sheet].iloc[::-1]
    elif kind == "name-absent-from-mapping":
        if sheet == "sensors names":
            d["sensors names"] = names_form(form, list(flat) + ["zz"])
        else:
            m = d["mapping"].to_numpy().astype(object)
            m[m == flat[arg]] = 0
            d["mapping"] = f_obj(m, d["mapping"].index)
    elif kind == "constraint-unknown-sensor":
        c = d["constraints"].copy()
        if arg == 0:
            c["zz"] = 1.0
        else:
            c = c.rename(columns={c.columns[arg - 1]: "zz"})
        d["constraints"] = c
        st["constraints"] = 2
    elif kind == "constraint-never-used":
        if with_c:
            c = d["constraints"]
            extra = c.iloc[:1].rename(index={c.index[0]: "c9"})
            d["constraints"] = pd.concat([c, extra])
        else:
            d["constraints"] = f_cstr([FIXED_C[:len(flat)]], ["c9"], flat)
        st["constraints"] = 2
    else:
        raise ValueError(kind)
    return d, st


def judge_cor2(case, t):
    seed, n, P, form, route, o, with_c = case["seed"], case["n"], case["P"], case["form"], case["route"], case["opt"], case["with_c"]
    kind, sheet, arg = case["kind"], case["sheet"], case["arg"]
    flat = NAMES[:n]
    cn = tuple(CNAMES2[:with_c])                 # with_c = 2: two constraints c1, c2 (both used by the mapping)
    Cm = [FIXED_C[:n], FIXED_C[1:n + 1]][:max(1, with_c)]
    cells = (list(flat) + list(cn) + [0, np.nan, 0, 0, 0, 0])[:3 * P]
    sign = ([1, -1, 1, -1, 0, 1])[:3 * P]
    sheets, exp = geo2_sheets(seed, flat, P, cells, names_form(form, flat), cn or ("c1",), Cm, flat, sign)
    states = {k: o for k in G2_OPT}
    states["constraints"] = 2 if with_c else 0
    d, st = apply_cor2(sheets, states, kind, sheet, arg, flat, form, with_c)
    r, obj = call_geo2(route, d, st)
    relaxed = None
    if kind == "reorder-rows":
        phi = pay(seed)["PHI"][:n, 0]
        expmap = ref_map_values(cells, flat, phi, cn, Cm, flat)
        relaxed = lambda o_: geo2_errors(o_, exp, st, phi, expmap)      # noqa: E731  (aligned by label = the uncorrupted geometry)
    judge_corruption(t, r, case, "geo2", kind, sheet, route, obj, relaxed_ok=relaxed)
    return True


# ---------------------------------------------------------------------------------------------------------------
# plot level

def match_multiset(expected, observed, rtol=1e-9, atol=1e-12):
    """Greedy multiset matching; returns (missing expected, indices of observed left unmatched)."""
    left = list(range(len(observed)))
    missing = []
    for e in expected:
        hit = None
        for i in left:
            o = observed[i]
            if o.shape == e.shape and np.allclose(o, e, rtol=rtol, atol=atol):
                hit = i
                break
        if hit is None:
            missing.append(e)
        else:
            left.remove(hit)
    return missing, left


def read_artists(ax):
    from mpl_toolkits.mplot3d.art3d import Line3D, Path3DCollection

    segs = [np.array(ln.get_data_3d(), dtype=float).T for ln in ax.get_lines() if isinstance(ln, Line3D)]
    pts = []
    for c in ax.collections:
        if isinstance(c, Path3DCollection):
            x, y, z = c._offsets3d
            for p in zip(np.ma.filled(np.ma.asarray(x, dtype=float), np.nan).ravel(),
                         np.ma.filled(np.ma.asarray(y, dtype=float), np.nan).ravel(),
                         np.ma.filled(np.ma.asarray(z, dtype=float), np.nan).ravel()):
                pts.append(np.array(p))
    return segs, pts


def touches(seg, anchors, atol=1e-9):
    return any(np.allclose(seg[0], a, rtol=0, atol=atol) or np.allclose(seg[-1], a, rtol=0, atol=atol) for a in anchors)


def judge_plot(t, case, tag, exp_segs, exp_pts, anchors, segs, pts, nonzero):
    t.transitions += 1
    t.evaluations += 1
    t.validated += 1
    miss_s, left_s = match_multiset(exp_segs, segs)
    miss_p, left_p = match_multiset(exp_pts, pts)
    stray = [segs[i] for i in left_s if touches(segs[i], anchors)]
    errs = []
    if miss_s:
        errs.append("line-missing-or-misplaced")
    if stray:
        errs.append("unexpected-line-at-sensor")
    if miss_p:
        errs.append("marker-missing-or-misplaced")
    if errs:
        t.violation(f"{tag}:{'+'.join(errs)}",
                    f"{tag}: expected segment(s) not drawn {[short(m) for m in miss_s[:2]]}, stray {[short(s) for s in stray[:2]]}, "
                    f"markers not drawn {[short(m) for m in miss_p[:2]]}; drawn lines {[short(s) for s in segs[:6]]} | {case}", case)
    else:
        t.outcomes[f"{tag}:ok"] += 1
        if nonzero:
            t.outcomes[f"{tag}:nonzero-displacement"] += 1


def judge_plot1(case, t):
    import matplotlib.pyplot as plt
    from pyoma2.algorithms.data.result import BaseResult

    seed, perm, mode, scale, route, o = case["seed"], case["perm"], case["mode"], case["scale"], case["route"], case["opt"]
    ref, chans = case.get("ref"), case.get("chans")
    if ref is not None:
        setups = setup_names(chans)
        flat = ref_flatten(setups, ref)
        nobj = names_form("table", setups)
    else:
        flat = NAMES[:case["n"]]
        nobj = names_form("row", flat)
    n = len(flat)
    sheets, exp = geo1_sheets(seed, flat, perm, nobj)
    states = {k: o for k in G1_OPT}
    r, obj = call_geo1(route, sheets, states, ref_ind=ref, chans=chans)
    t.states += 1
    if r[0] != "ok":
        t.transitions += 1
        t.violation(f"raises:{r[0]}@{r[2]}:geo1:{route}:plot", f"valid geo1 rejected before plotting: {r[1]} | {case}", case)
        return True
    Phi = pay(seed)["PHI"][:n, :2]
    res = BaseResult(Fn=np.array([1.0, 2.0]), Phi=Phi)
    pr = attempt(lambda: obj.plot_mode_geo1(res, mode_nr=mode, scaleF=scale, view="3D"))
    if pr[0] != "ok":
        plt.close("all")
        t.transitions += 1
        t.violation(f"raises:{pr[0]}@{pr[2]}:plot_mode_geo1", f"plot_mode_geo1 raised {pr[0]}: {pr[1]} | {case}", case)
        return True
    fig, ax = pr[1]
    segs, pts = read_artists(ax)
    plt.close(fig)
    X, D = exp["X"], exp["D"].astype(float)
    phi = Phi[:, mode - 1]
    exp_segs = [np.array([X[k], X[k] + D[k] * phi[k] * scale]) for k in range(n)]
    exp_pts = [X[k] for k in range(n)]
    anchors = [X[k] for k in range(n)]
    if o == 2:
        exp_segs += [np.array([X[i - 1], X[j - 1]]) for i, j in exp["sensors lines"]]
        B = exp["BG nodes"]
        exp_segs += [np.array([B[i - 1], B[j - 1]]) for i, j in exp["BG lines"]]
        exp_pts += [b for b in B]
    judge_plot(t, case, "plot1", exp_segs, exp_pts, anchors, segs, pts, True)
    return True


def judge_plot2(case, t):
    import matplotlib.pyplot as plt
    from pyoma2.algorithms.data.result import BaseResult

    seed, n, P, ci, sg, cs, mode, scale, color, route, o = (case["seed"], case["n"], case["P"], case["cells"], case["sign"],
                                                          case["cstr"], case["mode"], case["scale"], case["color"],
                                                          case["route"], case["opt"])
    ref, chans = case.get("ref"), case.get("chans")
    if ref is not None:
        setups = setup_names(chans)
        flat = ref_flatten(setups, ref)
        nobj = names_form("table", setups)
        n = len(flat)
        alpha = list(flat) + ["c1", 0, np.nan]
    else:
        flat = NAMES[:n]
        nobj = names_form("row", flat)
        alpha = g2map_alphabet(n)
    cells = [alpha[i] for i in ci]
    uses_c = "c1" in cells
    sign = None if sg is None else [SIGN[i] for i in sg]
    C = [FIXED_C[:n]]
    sheets, exp = geo2_sheets(seed, flat, P, cells, nobj, ("c1",) if uses_c else (), C, flat, sign)
    hdr = case.get("hdr")
    if hdr is not None:
        # column headers of (mapping, sensors sign, points coordinates) drawn from HEADERS; the oracle below stays positional
        for sheet, h in zip(("mapping", "sensors sign", "points coordinates"), hdr):
            sheets[sheet] = sheets[sheet].set_axis(list(HEADERS[h]), axis=1)
    states = {k: o for k in G2_OPT}
    states["constraints"] = 2 if uses_c else 0
    states["sensors sign"] = 0 if sg is None else 2
    if P < 3:
        states["sensors surfaces"] = 0
    r, obj = call_geo2(route, sheets, states, ref_ind=ref, chans=chans)
    t.states += 1
    if r[0] != "ok":
        t.transitions += 1
        t.violation(f"raises:{r[0]}@{r[2]}:geo2:{route}:plot", f"valid geo2 rejected before plotting: {r[1]} | {case}", case)
        return True
    Phi = pay(seed)["PHI"][:n, :2]
    res = BaseResult(Fn=np.array([1.0, 2.0]), Phi=Phi)
    pr = attempt(lambda: obj.plot_mode_geo2_mpl(res, mode_nr=mode, scaleF=scale, view="3D", color=color))
    if pr[0] != "ok":
        plt.close("all")
        t.transitions += 1
        t.violation(f"raises:{pr[0]}@{pr[2]}:plot_mode_geo2_mpl", f"plot_mode_geo2_mpl raised {pr[0]}: {pr[1]} | {case}", case)
        return True
    fig, ax = pr[1]
    segs, pts = read_artists(ax)
    plt.close(fig)
    phi = Phi[:, mode - 1]
    M = ref_map_values(cells, flat, phi, ("c1",) if uses_c else (), C, flat)
    S = exp["sign"].astype(float) if sg is not None else np.ones((P, 3))
    newp = exp["PT"] + M * S * scale
    exp_pts = [newp[i] for i in range(P)]
    exp_segs = []
    anchors = [newp[i] for i in range(P)]
    if o == 2:
        exp_segs += [np.array([newp[i - 1], newp[j - 1]]) for i, j in exp["sensors lines"]]
        B = exp["BG nodes"]
        exp_segs += [np.array([B[i - 1], B[j - 1]]) for i, j in exp["BG lines"]]
        exp_pts += [b for b in B]
    nonzero = bool(np.any(M * S != 0))
    ok_before = t.outcomes["plot2:ok"]
    judge_plot(t, case, "plot2", exp_segs, exp_pts, anchors, segs, pts, nonzero)
    if hdr is not None and nonzero and len(set(hdr)) > 1 and t.outcomes["plot2:ok"] > ok_before:
        t.outcomes["plot2:column-headers-differ:sign-" + ("omitted" if sg is None else "present")] += 1
    if sg is not None and any(s == -1 for s in sign) and nonzero:
        t.outcomes["plot2:negative-sign-cell"] += 1
    return nonzero


# ---------------------------------------------------------------------------------------------------------------
# the shipped workbooks, read with zipfile + xml into the layout pd.read_excel(sheet_name=None, index_col=0) produces

SHIPPED = [("3SL", "Geo1.xlsx", [[0, 1, 2]] * 3, [10, 10, 10]), ("3SL", "Geo2.xlsx", [[0, 1, 2]] * 3, [10, 10, 10]),
           ("palisaden", "Geo1.xlsx", None, [6]), ("palisaden", "Geo2.xlsx", None, [6])]


def _xlsx_frames(path):
    import re
    import xml.etree.ElementTree as ET
    import zipfile

    M = "{http://schemas.openxmlformats.org/spreadsheetml/2006/main}"
    R = "{http://schemas.openxmlformats.org/officeDocument/2006/relationships}"
    z = zipfile.ZipFile(path)
    ss = []
    if "xl/sharedStrings.xml" in z.namelist():
        for si in ET.fromstring(z.read("xl/sharedStrings.xml")).findall(M + "si"):
            ss.append("".join(x.text or "" for x in si.iter(M + "t")))
    rid = {r.get("Id"): r.get("Target") for r in ET.fromstring(z.read("xl/_rels/workbook.xml.rels"))}

    def conv(v):
        try:
            f = float(v)
        except ValueError:
            return v
        return int(f) if re.fullmatch(r"-?\d+(\.0*)?", v) else f

    out = {}
    for sh in ET.fromstring(z.read("xl/workbook.xml")).find(M + "sheets"):
        tgt = rid[sh.get(R + "id")].lstrip("/")
        tgt = tgt if tgt.startswith("xl/") else "xl/" + tgt
        grid = {}
        for row in ET.fromstring(z.read(tgt)).iter(M + "row"):
            for c in row.findall(M + "c"):
                v = c.find(M + "v")
                if v is None or v.text in (None, ""):
                    continue
                col = 0
                for ch in re.match(r"[A-Z]+", c.get("r")).group(0):
                    col = col * 26 + ord(ch) - 64
                grid[(int(row.get("r")) - 1, col - 1)] = ss[int(v.text)] if c.get("t") == "s" else conv(v.text)
        if not grid:
            out[sh.get("name")] = pd.DataFrame()
            continue
        nr, nc = max(r for r, _ in grid) + 1, max(c for _, c in grid) + 1
        head = [grid.get((0, c), f"Unnamed: {c}") for c in range(nc)]
        body = [[grid.get((r, c), np.nan) for c in range(nc)] for r in range(1, nr)]
        out[sh.get("name")] = pd.DataFrame(body, columns=head).set_index(head[0])
    return out


def judge_shipped(case, t):
    """A shipped workbook must be accepted (no validator may be stricter than the project's own files) and aligned."""
    import os

    from mc import env
    from pyoma2.functions import gen

    folder, fname, ref, chans = SHIPPED[case["file"]]
    path = os.path.join(env.REPO, "tests", "test_data", folder, fname)
    if not os.path.exists(path):
        path = os.path.join("/repo", "tests", "test_data", folder, fname)
    frames = _xlsx_frames(path)
    geo1 = fname == "Geo1.xlsx"
    route = case["route"]
    t.states += 1
    t.transitions += 1
    t.evaluations += 1
    setups_tbl = frames["sensors names"]
    rows = [[x for x in r if not (isinstance(x, float) and np.isnan(x))] for r in setups_tbl.to_numpy().tolist()]
    flat = ref_flatten(rows, ref) if ref is not None else rows[0]
    if route == "func":
        d = {k: v.copy() for k, v in frames.items()}
        r = attempt(lambda: (gen.check_on_geo1 if geo1 else gen.check_on_geo2)(d, ref_ind=ref))
        obs = r[1] if r[0] == "ok" else None
    else:
        _patch_reader()
        _FILE["mem://shipped"] = frames
        obj = make_obj("file_preger" if ref is not None else "file", chans, ref, chans[0])
        r = attempt(lambda: (obj.def_geo1_by_file if geo1 else obj.def_geo2_by_file)("mem://shipped"))
        g = (obj.geo1 if geo1 else obj.geo2) if r[0] == "ok" else None
        obs = None if g is None else ((g.sens_names, g.sens_coord, g.sens_dir) if geo1 else (g.sens_names, g.pts_coord, g.sens_map))
        if r[0] == "ok" and g is None:
            r = ("no-geometry", "nothing attached", route)
    if r[0] != "ok":
        t.violation(f"raises:{r[0]}@{r[2]}:shipped-workbook", f"{folder}/{fname} rejected on route {route}: {r[0]}: {r[1]}", case)
        return True
    t.validated += 1
    errs = []
    if list(obs[0]) != flat:
        errs.append("names")
    if geo1:
        X = frames["sensors coordinates"].loc[flat].to_numpy()
        Dr = frames["sensors directions"].loc[flat].to_numpy()
        if not (arr_eq(obs[1], X) and [str(i) for i in obs[1].index] == flat):
            errs.append("coordinates-not-in-name-order")
        if not arr_eq(obs[2], Dr):
            errs.append("directions-not-in-name-order")
    else:
        if not arr_eq(obs[1], frames["points coordinates"].to_numpy()):
            errs.append("points-coordinates")
    if errs:
        t.violation(f"shipped:{'+'.join(errs)}", f"{folder}/{fname} via {route}: {errs}", case)
    else:
        t.outcomes["shipped:accepted-and-aligned"] += 1
    return True


# ---------------------------------------------------------------------------------------------------------------
# lattices: blocks = (part, args, number of cases); case_of decodes one lattice index into a case dict

def _frames_snapshot(sheets):
    return {k: v.copy(deep=True) for k, v in sheets.items() if isinstance(v, pd.DataFrame)}


def _frames_changed(sheets, snap):
    return [k for k, v in snap.items() if not (isinstance(sheets.get(k), pd.DataFrame) and sheets[k].equals(v))]


def judge_reuse(case, t):
    """The SAME table objects handed to a second definition (a second setup built from the same tables, or geometry 2 after
    geometry 1 sharing the background tables): the second geometry must be as right as the first, and the caller's tables
    must come back unchanged."""
    seed, n, perm, route, geo = case["seed"], case["n"], case["perm"], case["route"], case["geo"]
    flat = NAMES[:n]
    t.states += 1
    if geo == "geo1":
        sheets, exp = geo1_sheets(seed, flat, perm, names_form("row", flat))
        states = {k: 2 for k in G1_OPT}
        calls = [lambda: call_geo1(route, sheets, states)[0], lambda: call_geo1(route, sheets, states)[0]]
        errs = [lambda o: geo1_errors(o, exp, states)] * 2
    else:
        cells = (list(flat) + [0] * 3)[:3]           # one point, three direction cells: the sensors, then zeros
        sheets, exp = geo2_sheets(seed, flat, 1, cells, names_form("row", flat))
        states = {k: 2 for k in G2_OPT}
        states["constraints"] = 0
        phi = pay(seed)["PHI"][:n, 0]
        expmap = ref_map_values(cells, flat, phi)
        if case.get("after_geo1"):
            # geometry 1 first, sharing the three background tables with geometry 2
            s1, exp1 = geo1_sheets(seed, flat, perm, names_form("row", flat))
            for k in ("BG nodes", "BG lines", "BG surfaces"):
                s1[k] = sheets[k]
            st1 = {k: 2 for k in G1_OPT}
            calls = [lambda: call_geo1(route, s1, st1)[0], lambda: call_geo2(route, sheets, states)[0]]
            errs = [lambda o: geo1_errors(o, exp1, st1), lambda o: geo2_errors(o, exp, states, phi, expmap)]
        else:
            calls = [lambda: call_geo2(route, sheets, states)[0], lambda: call_geo2(route, sheets, states)[0]]
            errs = [lambda o: geo2_errors(o, exp, states, phi, expmap)] * 2
    snap = _frames_snapshot(sheets)
    ok = True
    for k, (c, e) in enumerate(zip(calls, errs)):
        r = c()
        ok = judge_valid_result(t, r, dict(case, call=k + 1), geo if k else (case.get("after_geo1") and "geo1" or geo), route, "row", e,
                                "reuse:second-definition-right" if k else "reuse:first-definition-right") and ok
        if not ok:
            break
    changed = _frames_changed(sheets, snap)
    if changed:
        t.violation(f"reuse:caller-tables-modified:{geo}", f"{geo} via {route}: the caller's own tables {changed} were modified by the definition "
                    f"(first rows now {[sheets[c].head(2).values.tolist() for c in changed][:2]}) | case {case}", case)
    elif ok:
        t.outcomes["reuse:caller-tables-unchanged"] += 1
    return True


JUDGES = {"flat": judge_flat, "g1": judge_g1, "g1m": judge_g1m, "g2map": judge_g2map, "g2c": judge_g2c, "g2opt": judge_g2opt,
          "g2sign": judge_g2sign, "g2m": judge_g2m, "big12": judge_big12, "cor1": judge_cor1, "cor2": judge_cor2,
          "plot1": judge_plot1, "plot2": judge_plot2, "shipped": judge_shipped, "reuse": judge_reuse}

_LAYOUTS = {}


def layouts(maxch, ns):
    if (maxch, ns) not in _LAYOUTS:
        _LAYOUTS[(maxch, ns)] = ref_layouts(maxch, ns)
    return _LAYOUTS[(maxch, ns)]


_PL = {}


def placements_cached(m):
    if m not in _PL:
        _PL[m] = placements(m)
    return _PL[m]


def multi_perms(ntot, full_upto):
    return perms(ntot) if ntot <= full_upto else [tuple(range(ntot)), tuple(range(ntot - 1, -1, -1)),
                                                  tuple((i + 1) % ntot for i in range(ntot)),
                                                  tuple((i + 2) % ntot for i in range(ntot))]


def preger_ok(chans, ref):
    return all(c > len(r) for c, r in zip(chans, ref))


def col_orders(n, subset):
    if not subset:
        return perms(n)
    out = []
    for m in range(1, n):
        for comb in itertools.combinations(range(n), m):
            out += list(itertools.permutations(comb))
    return out


def explicit_cases(part, a, seed):
    """Parts whose lattice is small and irregular are listed explicitly (still complete products)."""
    out = []
    if part == "flat":
        for form in ("row", "list", "array"):
            for n in range(1, 13):
                out.append({"form": form, "n": n})
        for ns in a["nsetups"]:
            for chans, ref in layouts(3 if ns == 2 else a["maxch3"], ns):
                for form in ("table", "lol"):
                    out.append({"form": form, "chans": chans, "ref": ref})
    elif part == "g1m":
        for chans, ref in layouts(3, 2) + (layouts(2, 3) if a["three"] else []):
            ntot = len(ref[0]) + sum(c - len(r) for c, r in zip(chans, ref))
            for form in ("table", "lol"):
                for route in ("func", "preger", "poser", "file_preger") + (("file_poser",) if a["three"] else ()):
                    if "preger" in route and not preger_ok(chans, ref):
                        continue
                    if route.startswith("file") and form != "table":
                        continue
                    for perm in multi_perms(ntot, a["full_upto"]):
                        for o in ((0, 2) if route == "func" else (2,)):
                            out.append({"chans": chans, "ref": ref, "form": form, "route": route, "perm": list(perm), "opt": o})
    elif part == "g2m":
        for chans, ref in layouts(3, 2) + (layouts(2, 3) if a["three"] else []):
            for form in ("table", "lol"):
                for route in ("func", "preger", "poser", "file_poser"):
                    if "preger" in route and not preger_ok(chans, ref):
                        continue
                    if route.startswith("file") and form != "table":
                        continue
                    for o in (0, 2):
                        out.append({"chans": chans, "ref": ref, "form": form, "route": route, "opt": o})
    elif part == "big12":
        for pi in range(len(perm_family(12))):
            for form in ("row", "list", "array"):
                for route in ("func", "single", "file"):
                    if route == "file" and form != "row":
                        continue
                    for o in (0, 1, 2):
                        out.append({"geo": 1, "perm_i": pi, "form": form, "route": route, "opt": o})
        for pi in range(15):
            for form in ("row", "list", "array"):
                for route in ("func", "single", "file"):
                    if route == "file" and form != "row":
                        continue
                    out.append({"geo": 2, "perm_i": pi, "form": form, "route": route, "opt": 2})
    elif part == "cor1":
        for n in a["ns"]:
            pl = [tuple(range(n))] + ([tuple(range(n - 1, -1, -1))] if n > 1 else [])
            for perm in pl:
                for form in ("row", "list"):
                    for route in ("func", "single", "file"):
                        if route == "file" and form != "row":
                            continue
                        for o in (0, 2):
                            for kind, sheet, arg in cor1_list(n, o == 2, False) + cor1_borrowed(NAMES[:n]):
                                if route_supports(route, kind):
                                    out.append({"n": n, "perm": list(perm), "form": form, "route": route, "opt": o,
                                                "kind": kind, "sheet": sheet, "arg": arg})
        for chans, ref in a["multi"]:
            flat = ref_flatten(setup_names(chans), ref)
            n = len(flat)
            for form in ("table", "lol"):
                for route in ("func", "poser", "file_preger"):
                    if route.startswith("file") and form != "table":
                        continue
                    for kind, sheet, arg in cor1_list(n, True, True) + cor1_borrowed(flat, setup_names(chans), ref):
                        if route_supports(route, kind):
                            out.append({"n": n, "perm": list(range(n - 1, -1, -1)), "form": form, "route": route, "opt": 2,
                                        "kind": kind, "sheet": sheet, "arg": arg, "chans": chans, "ref": ref})
    elif part == "cor2":
        for n, P in a["nP"]:
            for form in ("row", "array"):
                for route in ("func", "single", "file"):
                    if route == "file" and form != "row":
                        continue
                    for o in (0, 2):
                        for with_c in (0, 1, 2):
                            if with_c and 3 * P < n + with_c:
                                continue
                            for kind, sheet, arg in cor2_list(n, P, o == 2, with_c) + cor2_borrowed(n, P, o == 2, with_c):
                                if route_supports(route, kind):
                                    out.append({"n": n, "P": P, "form": form, "route": route, "opt": o, "with_c": with_c,
                                                "kind": kind, "sheet": sheet, "arg": arg})
    elif part == "plot1":
        for n in a["ns"]:
            for perm in perms(n):
                for mode in (1, 2):
                    for scale in a["scales"]:
                        for o in (0, 2):
                            out.append({"n": n, "perm": list(perm), "mode": mode, "scale": scale, "route": "single", "opt": o})
        for chans, ref in a["multi"]:
            ntot = len(ref[0]) + sum(c - len(r) for c, r in zip(chans, ref))
            for route in ("preger", "poser"):
                for perm in (tuple(range(ntot - 1, -1, -1)), tuple((i + 1) % ntot for i in range(ntot))):
                    out.append({"perm": list(perm), "mode": 1, "scale": 2.0, "route": route, "opt": 2, "chans": chans, "ref": ref})
    elif part == "plot2":
        # P = 1, sensors ch10, ch1 and constraint c1 in every arrangement x sign tables
        arr = list(itertools.permutations([0, 1, 2]))       # indices into alphabet [ch10, ch1, c1, 0, NaN]
        for ai, cells in enumerate(arr):
            for sg in itertools.product(range(3), repeat=3):
                if ai % a["sign_every"] == 0:
                    out.append({"n": 2, "P": 1, "cells": list(cells), "sign": list(sg), "cstr": 1, "mode": 1, "scale": 2.0,
                                "color": "b", "route": "single", "opt": 0})
            for color in ("b", "cmap"):
                out.append({"n": 2, "P": 1, "cells": list(cells), "sign": None, "cstr": 1, "mode": 2, "scale": 1.0,
                            "color": color, "route": "single", "opt": 0})
        if a.get("full_p1"):
            for n in (1, 2):
                al = g2map_alphabet(n)
                for cells in itertools.product(range(n + 3), repeat=3):
                    sym = [al[i] for i in cells]
                    if not all(s in sym for s in NAMES[:n]):
                        continue
                    for sg in itertools.product(range(3), repeat=3):
                        out.append({"n": n, "P": 1, "cells": list(cells), "sign": list(sg), "cstr": 1, "mode": 1, "scale": 1.5,
                                    "color": "b", "route": "single", "opt": 0})
        # P = 2 / 3 with lines (index shift visible in the plot), BG, zero and NaN cells
        for P, n in ((2, 2), (3, 3)):
            base = list(range(n)) + [n, n + 1, n + 2] + [n + 1] * (3 * P - n - 3)
            for rot in range(0, 3 * P, a["rot_step"]):
                cells = base[rot:] + base[:rot]
                for color in ("b", "cmap"):
                    sg = [(i + rot) % 3 for i in range(3 * P)]
                    out.append({"n": n, "P": P, "cells": cells, "sign": sg, "cstr": 1, "mode": 1, "scale": 1.5, "color": color,
                                "route": "single", "opt": 2})
        # column headers of mapping / sensors sign / points coordinates: every triple over HEADERS x sign sheet
        # present / omitted x routes (the tables are read by position, so the headers must not matter)
        for P, n in ((2, 2), (3, 3)) if a.get("full_p1") else ((2, 2),):
            cells = list(range(n)) + [n, n + 1, n + 2] + [n + 1] * (3 * P - n - 3)
            for hdr in itertools.product(range(len(HEADERS)), repeat=3):
                for sg in ([(i + 1) % 3 for i in range(3 * P)], None):
                    for route in ("single", "file"):
                        out.append({"n": n, "P": P, "cells": cells, "sign": sg, "cstr": 1, "mode": 1, "scale": 1.5, "color": "b",
                                    "route": route, "opt": 2 if P == 3 else 0, "hdr": list(hdr)})
        for chans, ref in a["multi"]:
            flat = ref_flatten(setup_names(chans), ref)
            n = len(flat)
            P = (n + 3) // 3
            cells = (list(range(n)) + [n] + [n + 1] * 3)[:3 * P]
            for route in ("preger", "poser"):
                out.append({"n": n, "P": P, "cells": cells, "sign": [0, 1] * 3 + [1] * (3 * P - 6) if P >= 2 else [0, 1, 0],
                            "cstr": 1, "mode": 2, "scale": 2.0, "color": "b", "route": route, "opt": 2, "chans": chans, "ref": ref})
    elif part == "reuse":
        for n in (2, 3):
            for perm in perms(n):
                for route in ("func", "single"):
                    out.append({"n": n, "perm": list(perm), "route": route, "geo": "geo1"})
                    out.append({"n": n, "perm": list(perm), "route": route, "geo": "geo2"})
                    out.append({"n": n, "perm": list(perm), "route": route, "geo": "geo2", "after_geo1": 1})
    elif part == "shipped":
        for fi in range(len(SHIPPED)):
            for route in ("func", "file"):
                out.append({"file": fi, "route": route})
    else:
        raise ValueError(part)
    for c in out:
        c["part"] = part
        c["seed"] = seed
    return out


_EXPL = {}


def g1_axes(a):
    return perms(a["n"]), (ALL_OPT4 if a["opts"] == "all" else DIAG4)


def block_count(part, a, seed):
    if part == "g1":
        p, o = g1_axes(a)
        return len(p) * len(o)
    if part == "g2map":
        return (a["n"] + 2 + a.get("nan", 1)) ** (3 * a["P"])
    if part == "g2opt":
        return 3 ** 7
    if part == "g2sign":
        return 3 ** (3 * a["P"])
    key = (part, repr(a), seed)
    if key not in _EXPL:
        _EXPL[key] = explicit_cases(part, a, seed)
    return len(_EXPL[key])


def g2c_cases(a, seed):
    out = []
    n, nr = a["n"], a["nr"]
    for place in placements_cached(n + nr)[::a["place_step"]]:
        for cols in col_orders(n, bool(a["subset"])):
            for coef in itertools.product(range(3), repeat=nr * len(cols)):
                out.append({"part": "g2c", "seed": seed, "n": n, "nr": nr, "place": list(place), "coef": list(coef),
                            "cols": list(cols), "route": a["route"]})
    return out


def case_of(part, a, i, seed):
    if part == "g1":
        p, o = g1_axes(a)
        pi, oi = unrank(i, [len(p), len(o)])
        return {"part": "g1", "seed": seed, "n": a["n"], "perm": list(p[pi]), "form": a["form"], "route": a["route"],
                "opt": list(o[oi]), "info": a.get("info", 0)}
    if part == "g2map":
        cells = unrank(i, [a["n"] + 2 + a.get("nan", 1)] * (3 * a["P"]))
        return {"part": "g2map", "seed": seed, "n": a["n"], "P": a["P"], "cells": cells, "cstr": a["cstr"], "route": a["route"],
                "nan": a.get("nan", 1)}
    if part == "g2opt":
        return {"part": "g2opt", "seed": seed, "opt": unrank(i, [3] * 7), "route": a["route"], "form": a["form"], "info": a.get("info", 0)}
    if part == "g2sign":
        return {"part": "g2sign", "seed": seed, "P": a["P"], "sign": unrank(i, [3] * (3 * a["P"])), "route": a["route"]}
    key = (part, repr(a), seed)
    if key not in _EXPL:
        _EXPL[key] = g2c_cases(a, seed) if part == "g2c" else explicit_cases(part, a, seed)
    return _EXPL[key][i]


def n_cases(part, a, seed):
    if part == "g2c":
        key = (part, repr(a), seed)
        if key not in _EXPL:
            _EXPL[key] = g2c_cases(a, seed)
        return len(_EXPL[key])
    return block_count(part, a, seed)


def describe(case):
    """Human-readable rendering of a case's tables (for the evidence samples)."""
    d = {}
    p = case["part"]
    if "chans" in case and case.get("ref") is not None:
        su = setup_names(case["chans"])
        d["setups"] = su
        d["ref_ind"] = case["ref"]
        d["expected_sensor_order"] = ref_flatten(su, case["ref"])
    elif "n" in case:
        d["expected_sensor_order"] = NAMES[:case["n"]]
    if "perm" in case and "expected_sensor_order" in d and len(case["perm"]) == len(d["expected_sensor_order"]):
        d["row_order_of_coordinate_and_direction_tables"] = [d["expected_sensor_order"][i] for i in case["perm"]]
    if p in ("g2map", "plot2") and "chans" not in case:
        al = g2map_alphabet(case["n"], case.get("nan", 1))
        d["mapping_cells_row_major"] = [str(al[i]) for i in case["cells"]]
    if p == "g2c":
        d["constraint_columns"] = [NAMES[j] for j in case["cols"]]
        d["constraint_coefficients"] = [COEF[i] for i in case["coef"]]
    if case.get("sign") is not None:
        d["sign_cells_row_major"] = [SIGN[i] for i in case["sign"]]
    if "opt" in case and isinstance(case["opt"], list):
        names = G1_OPT if len(case["opt"]) == 4 else G2_OPT
        d["optional_sheets"] = {k: ["absent", "empty", "present"][s] for k, s in zip(names, case["opt"])}
    return d


SAMPLE_PARTS = ("g1", "g1m", "g2map", "g2c", "cor2", "plot2")


def run_item(item):
    part, a, start, stop, seed, id_base, bi, sample_at = item
    t = Tally()
    for i in range(start, stop):
        case = case_of(part, a, i, seed)
        before = dict(t.outcomes)
        nontrivial = JUDGES[part](case, t)
        if nontrivial:
            t.nontrivial.add(id_base + i)
        if i == sample_at:
            t.sample({"case": case, "tables": describe(case),
                      "judged_as": [k for k, v in t.outcomes.items() if v != before.get(k, 0)]})
    return t


ALL_OPT4 = [tuple(unrank(i, [3] * 4)) for i in range(81)]
DIAG4 = [(0, 0, 0, 0), (1, 1, 1, 1), (2, 2, 2, 2)]


def blocks(tier):
    T = tier == "thorough"
    B = []
    B.append(("flat", {"nsetups": [2, 3] if T else [2], "maxch3": 3 if T else 2}))
    # geo1 single setup
    for n in range(1, (6 if T else 4) + 1):
        for form in ("row", "list", "array"):
            for route in ("func", "single", "file"):
                if route == "file" and form != "row":
                    continue        # a file always yields the table form
                B.append(("g1", {"n": n, "opts": "all" if n <= (4 if T else 3) else "diag", "form": form, "route": route,
                                 "info": 1 if (route == "file" and n % 2 == 0) else 0}))
    B.append(("g1m", {"three": T, "full_upto": 5 if T else 4}))
    # geo2 mapping lattices
    maps = [(1, 1), (2, 1), (3, 1), (1, 2), (2, 2)] + ([(3, 2), (4, 1)] if T else [])
    for n, P in maps:
        for cs in (0, 2):
            B.append(("g2map", {"n": n, "P": P, "cstr": cs, "route": "func"}))
    for cs in (0, 2):
        B.append(("g2map", {"n": 2, "P": 1, "cstr": cs, "route": "single"}))
        B.append(("g2map", {"n": 2, "P": 1, "cstr": cs, "route": "file"}))
        B.append(("g2map", {"n": 1, "P": 2, "cstr": cs, "route": "single", "nan": 0}))
        if T:
            B.append(("g2map", {"n": 2, "P": 2, "cstr": cs, "route": "single"}))
            B.append(("g2map", {"n": 2, "P": 3, "cstr": cs, "route": "func", "nan": 0}))
    # constraint matrices
    B.append(("g2c", {"n": 2, "nr": 1, "place_step": 1, "subset": 0, "route": "func"}))
    B.append(("g2c", {"n": 3, "nr": 1, "place_step": 1 if T else 60, "subset": 0, "route": "func"}))
    B.append(("g2c", {"n": 2, "nr": 2, "place_step": 1 if T else 45, "subset": 0, "route": "func"}))
    B.append(("g2c", {"n": 2, "nr": 1, "place_step": 1 if T else 10, "subset": 1, "route": "func"}))
    B.append(("g2c", {"n": 3, "nr": 1, "place_step": 12 if T else 90, "subset": 1, "route": "func"}))
    B.append(("g2c", {"n": 2, "nr": 1, "place_step": 5, "subset": 0, "route": "single"}))
    # optional sheets of geo2, sign tables
    for route, form, info in (("func", "row", 0), ("single", "row", 0), ("file", "row", 1)) + \
            ((("func", "list", 0), ("single", "array", 0), ("file", "row", 0)) if T else ()):
        B.append(("g2opt", {"route": route, "form": form, "info": info}))
    B.append(("g2sign", {"P": 1, "route": "func"}))
    B.append(("g2sign", {"P": 2, "route": "func"}))
    B.append(("g2sign", {"P": 1, "route": "single"}))
    if T:
        B.append(("g2sign", {"P": 2, "route": "single"}))
    B.append(("g2m", {"three": T}))
    B.append(("big12", {}))
    multi = [([3, 2], [[1], [0]]), ([3, 3], [[1, 0], [2, 0]])]
    B.append(("cor1", {"ns": [1, 2, 3, 4] if not T else [1, 2, 3, 4, 5], "multi": multi}))
    B.append(("cor2", {"nP": [(1, 1), (2, 1), (2, 2), (3, 2)] + ([(4, 2), (5, 2)] if T else [])}))
    pm = [([3, 2], [[1], [0]]), ([3, 3], [[1, 0], [2, 0]])] + ([([3, 3], [[2], [0]]), ([2, 2], [[0], [1]])] if T else [])
    B.append(("plot1", {"ns": [1, 2, 3] + ([4] if T else []), "scales": [1.0, 2.5] if T else [2.5], "multi": pm}))
    B.append(("plot2", {"sign_every": 1 if T else 2, "rot_step": 1 if T else 3, "multi": pm, "full_p1": 1 if T else 0}))
    B.append(("shipped", {}))
    B.append(("reuse", {}))
    return B


CHUNK = {"g2map": 120, "g1": 160, "g2opt": 150, "g2c": 150, "g2sign": 120, "plot1": 8, "plot2": 8}


def explore(ctx):
    B = blocks(ctx.tier)
    seed = ctx.seed
    items = []
    bounds = []
    id_off = {}
    sampled_parts = set()
    for bi, (part, a) in enumerate(B):
        n = n_cases(part, a, seed)
        base = PART_CODE[part] * 10 ** 9 + id_off.get(part, 0)
        id_off[part] = id_off.get(part, 0) + n
        ch = CHUNK.get(part, 100)
        sample_at = -1
        big_enough = n >= {"g1": 400, "g2map": 10000}.get(part, 100) and not (part == "g2map" and a["cstr"] != 2)
        if part in SAMPLE_PARTS and part not in sampled_parts and big_enough:
            sampled_parts.add(part)
            sample_at = (2 * n) // 3
            if part == "g2c":
                sample_at += 7      # a coefficient row without zeros
            if part == "g2map":     # a written-out valid table: [ch10, c1, 0 / NaN, ch1, 0]
                sample_at = sum(d * 5 ** k for k, d in enumerate(reversed([0, 2, 3, 4, 1, 3])))
        for s in range(0, n, ch):
            items.append((part, a, s, min(n, s + ch), seed, base, bi, sample_at if s <= sample_at < s + ch else -1))
        desc = {k: (v if not isinstance(v, list) or len(v) <= 12 else f"{len(v)} values") for k, v in a.items()}
        bounds.append({"part": part, "axes": desc, "cases": n})
    ctx.bounds = {
        "sensor_names": NAMES, "coefficient_alphabet": COEF, "sign_alphabet": SIGN,
        "mapping_cell_alphabet": "sensor names + ['c1', 0, NaN]",
        "geo2_column_headers": {"sets": [[str(h) for h in hs] for hs in HEADERS],
                                "space": "plot2: every triple (mapping, sensors sign, points coordinates) x sign sheet present/omitted x {def_geo2, def_geo2_by_file}"}, "optional_sheet_states": ["absent", "empty", "present"],
        "corruption_labels": {"invented": ["zz", 99, "c9"],
                              "borrowed_from_another_table (not a sensor name / not the expected label there)": [
                                  "constraint row names c1, c2", "mapping fillers '0', '0.0', 0, 'interp'",
                                  "point / line / background-node numbers as int, as string and zero-based",
                                  "column headers 'x', 'chann. 1'", "another sensor's name", "sheet names", "'REF1'",
                                  "raw names of the reference channels (multi-setup)"],
                              "places": ["constraints columns", "constraints rows", "mapping cells", "extra sensor name",
                                         "index of one of points coordinates / mapping / sensors sign",
                                         "index of one or both of sensors coordinates / sensors directions"],
                              "cor2_constraints": "none / c1 / c1 and c2"},
        "name_forms": ["row table", "list", "array", "multi-row table padded with NaN", "list of lists"],
        "routes": ["check_on_geo1/2", "SingleSetup.def_geo*", "MultiSetup_PreGER.def_geo*", "MultiSetup_PoSER.def_geo*",
                   "def_geo*_by_file with read_excel_file replaced"],
        "blocks": bounds, "total_cases": sum(b["cases"] for b in bounds),
    }
    # interleave expensive and cheap items deterministically (order of results does not matter for the tallies)
    ctx.pmap(run_item, items, chunksize=1)
    ctx.tally.extra["cases_per_part"] = {p: sum(b["cases"] for b in bounds if b["part"] == p) for p in PART_CODE}
    ctx.require("flat:ok-multi", "flat:ok-single", "g1:aligned", "g1:reordered", "g1:optional-omitted", "g1m:aligned",
                "g1m:with-roving", "g2map:valid-mapped", "g2map:valid-mapped-with-constraint",
                "g2map:sensor-name-absent-from-mapping->ValueError", "g2map:constraint-never-used->ValueError",
                "g2map:undefined-constraint(not judged)", "g2c:mapped", "g2c:columns-reordered", "g2opt:ok",
                "g2opt:constraints-sheet-absent", "g2opt:optional-omitted", "g2sign:kept", "g2m:ok",
                "big12:geo1-aligned", "big12:geo2-mapped", "plot1:ok", "plot2:ok", "plot2:nonzero-displacement",
                "plot2:negative-sign-cell", "plot2:column-headers-differ:sign-present", "plot2:column-headers-differ:sign-omitted",
                "cor:geo1:drop-required->ValueError", "cor:geo1:unknown-sheet->ValueError", "cor:geo1:cols->ValueError",
                "cor:geo1:drop-row->ValueError", "cor:geo1:rename-index->ValueError",
                "cor:geo1:name-absent-from-coordinates->ValueError",
                "cor:geo2:drop-required->ValueError", "cor:geo2:unknown-sheet->ValueError", "cor:geo2:cols->ValueError",
                "cor:geo2:drop-row->ValueError", "cor:geo2:name-absent-from-mapping->ValueError",
                "cor:geo2:constraint-unknown-sensor->ValueError", "cor:geo2:constraint-never-used->ValueError",
                "cor:geo2:rename-index->ValueError", "shipped:accepted-and-aligned",
                # corruption family 'unknown label that occurs elsewhere in the tables'
                "cor:geo2:constraint-column-borrowed-label->ValueError", "cor:geo2:constraint-row-borrowed-label->ValueError",
                "cor:geo2:mapping-cell-borrowed-label->ValueError", "cor:geo2:extra-name-borrowed-label->ValueError",
                "cor:geo2:index-borrowed-label->ValueError", "cor:geo1:index-borrowed-label->ValueError",
                "cor:geo1:coordinate-rows-borrowed-label->ValueError", "cor:geo1:extra-name-borrowed-label->ValueError",
                "reuse:second-definition-right", "reuse:caller-tables-unchanged")


def replay(case):
    t = Tally()
    case = dict(case)

    def fix(v):
        if v == "NaN":
            return np.nan
        if isinstance(v, list):
            return [fix(x) for x in v]
        return v

    case = {k: fix(v) for k, v in case.items()}
    JUDGES[case["part"]](case, t)
    return t
