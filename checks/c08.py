"""C08 - identification is covariant under gain, channel permutation / orthogonal mixing and the time unit.

Each element of the lattice is a PAIR of runs through the setup classes - the original record and a
transformed one (y' = L y, fs' = k fs) - for every algorithm class; the whole result tables of the two runs
are compared under the relation the statement gives (Fn' = k Fn, Xi' = Xi, phi' ~ L phi, labels equal), pole
tables column by column as multisets matched one-to-one by value. The transformed record is handed over both as a fresh array and as the SAME array
object re-declared at another rate / rescaled or permuted in place (sequences of runs back to back, identical settings).
"""
import hashlib
import itertools

import numpy as np
from scipy.optimize import linear_sum_assignment

from checks import _a_fdd as H
from mc import looks
from mc.core import Tally

LOOK_EVERY = 24

ID = "C08"
TECHNIQUE = ("exhaustive walk of the (record x algorithm class (SSIcov also with the uncertainty bounds switched on) x estimation setting x transformation x fresh copy / same array "
             "object re-used) lattice; every element "
             "is a pair of complete runs through SingleSetup / MultiSetup_PreGER whose whole result tables are compared under "
             "the stated covariance relation (metamorphic oracle, pole tables as per-order multisets with one-to-one matching)")
LEVEL_TEXT = ("every pair of the stated lattice (fresh-copy pairs and every step of the same-object sequences) is executed on the real code; the oracle is the relation between the two runs "
              "written in the property, evaluated on every cell of every result table")
RULE = ("a case is one (record, channels, algorithm variant, setting, transformation) pair of runs; distinct by lattice "
        "coordinates; non-trivial = the transformation is not the identity and the original run reports at least one "
        "pole / selected line whose value is compared (all lattice pairs are built that way); a step of a same-object "
        "sequence is one case, distinct by the prefix of the sequence up to it")
ASSUMPTIONS = [
    "tolerances: 1e-9 on FDD-family tables, 1e-8 on SSI tables (worst observed over the thorough lattice, seeds 0-4: 3e-10, on "
    "spurious poles of the largest models), 1e-4 on pLSCF tables (observed 9e-8) - Fn relative, Xi absolute, shapes "
    "component-wise after a common normalisation; 1e-6 on the EFDD/FSDD damping and frequency (the library's fit is scipy "
    "curve_fit with a finite-difference Jacobian, observed noise 3e-8); 1e-12 on the unit component",
    "records carry a noise floor of at least ~1.5 % of the signal amplitude (decided when the record is built): on (nearly) "
    "noise-free data the spurious poles of over-specified models are ill-conditioned and no tolerance can be stated",
    "spectra and stored singular values are compared up to one positive constant per table (the statement speaks about "
    "frequencies, damping ratios and shapes only)",
    "orthogonal mixing runs with MPC/MPD switched off (mpc_lim=-1, mpd_lim=1e9): MPC with mean removal is not rotation "
    "invariant and the statement does not say it is; multi-setup mixing is block-orthogonal (references among themselves, "
    "the same in every setup; roving channels among themselves per setup)",
    "object re-use: besides fresh copies, the transformed record is the same ndarray object(s) handed to a new setup for every "
    "step of a fixed sequence (time unit: object untouched, declared at k x fs; gain / permutation: applied in place, "
    "accumulating, so later steps are composite transformations of the untouched record), all runs of a sequence directly "
    "after one another in one process with identical settings; orthogonal mixing is not part of these sequences (it needs "
    "the MPC/MPD criteria switched off in the original run as well); integer-count records are not re-used in place",
    "uncertainty bounds (SSIcov, 'cov_mm', calc_unc=True, single setup - the only place the library offers them): the number "
    "of data blocks nb rotates with the setting over (8, 20); the hard criterion on the frequency variance ('cov_max', a "
    "threshold in Hz^2, i.e. a dimensional user setting like the selected frequencies) is given as 0.2 x k^2 when the record is "
    "declared at k x fs; these runs are judged on the tables every variant is judged on (unit largest component, pole tables, "
    "extraction); the variance tables themselves are property C17's business - the frequency variance of matched poles is only "
    "observed (max_observed_error), not judged, because its propagation is ill-conditioned for orders close to the Hankel rank",
    "a difference of labels or of the NaN pattern is not judged when the harness, recomputing the criterion from the "
    "original table, finds it within 1e3 x tolerance of its threshold (knife edge); every other difference is a violation; "
    "with the uncertainty bounds on, an order column whose pole counts differ is not judged when the run reporting more poles "
    "holds at least as many poles with a frequency variance within 1 % of cov_max as the counts differ (the propagated variance "
    "is reproducible to ~3e-3 only for orders close to the Hankel rank; never met in the quick tier)",
]

FS = 102.4         # a non-integer sampling rate
TOL = {"ssi": 1e-8, "fdd": 1e-9, "plscf": 1e-4}
TOL_FIT = 1e-6
TOL_UNIT = 1e-12
NB_UNC = (8, 20)    # number of data blocks of the uncertainty estimate, rotating with the setting
VAR_EDGE = 1e-2     # knife edge of the variance criterion (relative distance of a frequency variance to cov_max)
COV_MAX = 0.2       # hard criterion on the frequency variance, Hz^2 at the original sampling rate

GAINS = (1e-6, -1.0, 1e3, 1e6)
TIMES = (0.01, 0.5, 7.0, 100.0)
PERMS4 = ((1, 0, 2, 3), (0, 2, 1, 3), (3, 2, 1, 0), (1, 2, 3, 0), (2, 0, 3, 1), (0, 1, 3, 2), (3, 0, 1, 2), (2, 3, 0, 1))


# ---- transformations ---------------------------------------------------------------------------------
def rot(n, planes):
    Q = np.eye(n)
    for i, j, a in planes:
        G = np.eye(n)
        G[i, i] = G[j, j] = np.cos(a)
        G[i, j] = -np.sin(a)
        G[j, i] = np.sin(a)
        Q = G @ Q
    return Q


def mixing(n, which):
    """Three fixed orthogonal matrices per size: a plane rotation, a product of rotations, a rotation with a reflection."""
    if n == 1:
        return np.array([[1.0], [-1.0], [1.0]][which])
    if which == 0:
        return rot(n, [(0, 1, 0.7)])
    if which == 1:
        return rot(n, [(i, (i + 1) % n, 0.4 + 0.3 * i) for i in range(n - 1)] + [(0, n - 1, 1.1)])
    Q = rot(n, [(0, n - 1, 2.1), (0, 1, -0.9)])
    Q[:, 0] *= -1.0
    return Q


def transformations(nch, thorough, ms):
    out = [("gain", g) for g in GAINS]
    if ms:
        # permutations inside the data sets (4 columns each: 2 references + 2 roving), reference indices mapped
        out += [("perm", (p, q)) for p, q in [((1, 0, 2, 3), (1, 0, 2, 3)), ((2, 3, 0, 1), (2, 3, 0, 1)), ((0, 1, 3, 2), (0, 1, 2, 3)),
                                              ((3, 0, 2, 1), (3, 0, 2, 1)), ((0, 2, 1, 3), (0, 3, 1, 2)), ((1, 3, 0, 2), (1, 2, 0, 3))]]
    elif nch == 3:
        out += [("perm", p) for p in itertools.permutations(range(3)) if p != (0, 1, 2)]
    elif nch == 4:
        out += [("perm", p) for p in PERMS4]
    else:
        base = list(range(nch))
        out += [("perm", tuple(base[1:] + base[:1])), ("perm", tuple(base[::-1])), ("perm", tuple([1, 0] + base[2:]))]
    out += [("mix", w) for w in range(3)]
    out += [("time", k) for k in TIMES]
    if thorough:
        out += [("gain", g) for g in (-1e-3, 0.37, 12345.678)] + [("time", k) for k in (0.1, 3.3, 41.0)]
    return out


# ---- data ------------------------------------------------------------------------------------------------
MS_COLS = ([0, 1, 2, 3], [0, 1, 4, 5])       # global channel ids held by the two data sets of a 6-channel record
MS_REF = [[0, 1], [0, 1]]


def apply_single(Y, fs, ref_ind, tr):
    """-> (Y', fs', ref_ind', L, k): y' = L y."""
    n = Y.shape[1]
    kind, a = tr
    L, k = np.eye(n), 1.0
    if kind == "gain":
        L = a * np.eye(n)
        if np.issubdtype(Y.dtype, np.integer) and float(a).is_integer():
            return Y * int(a), fs * k, ref_ind, L, k      # raw counts times an integer gain stay integer-typed
    elif kind == "perm":
        L = np.eye(n)[list(a)]
        ref_ind = None if ref_ind is None else [list(a).index(r) for r in ref_ind]
    elif kind == "mix":
        L = mixing(n, a)
    elif kind == "time":
        k = a
    return Y @ L.T, fs * k, ref_ind, L, k


def merged_ids(cols, refs):
    """Global channel id of every row of the merged (PreGER) channel order: references in listed order, then the roving
    channels of each setup in ascending column order - written from the statement of the split (C03)."""
    ids = [cols[0][r] for r in refs[0]]
    for c, r in zip(cols, refs):
        ids += [c[j] for j in range(len(c)) if j not in r]
    return ids


def apply_multi(Y6, fs, tr):
    """-> (datasets', fs', ref_ind', L (merged order), k)."""
    kind, a = tr
    ds = [Y6[:, c] for c in MS_COLS]
    refs = [list(r) for r in MS_REF]
    ids0 = merged_ids(MS_COLS, MS_REF)
    n = len(ids0)
    L, k = np.eye(n), 1.0
    if kind == "gain":
        ds = [a * d for d in ds]
        L = a * np.eye(n)
    elif kind == "perm":
        cols = []
        for i, p in enumerate(a):
            ds[i] = ds[i][:, list(p)]
            cols.append([MS_COLS[i][j] for j in p])
            refs[i] = [list(p).index(r) for r in MS_REF[i]]
        ids1 = merged_ids(cols, refs)
        L = np.array([[1.0 if g1 == g0 else 0.0 for g0 in ids0] for g1 in ids1])
    elif kind == "mix":
        Qr = mixing(2, a)
        Qm = [mixing(2, (a + 1 + i) % 3) for i in range(2)]
        for i in range(2):
            B = np.zeros((4, 4))
            B[:2, :2] = Qr
            B[2:, 2:] = Qm[i]
            ds[i] = ds[i] @ B.T
        L = np.zeros((n, n))
        L[:2, :2] = Qr
        L[2:4, 2:4] = Qm[0]
        L[4:6, 4:6] = Qm[1]
    elif kind == "time":
        k = a
    return [np.ascontiguousarray(d) for d in ds], fs * k, refs, L, k


# ---- algorithm variants -----------------------------------------------------------------------------------
def hc_for(tr_kind, fam):
    if tr_kind == "mix":
        hc = dict(conj=True, xi_max=0.15, mpc_lim=-1.0, mpd_lim=1e9)
    else:
        hc = dict(conj=True, xi_max=0.15, mpc_lim=0.6, mpd_lim=0.4)
    if fam == "ssi":
        hc["cov_max"] = 0.2
    return hc


VARIANTS = {
    # name: (class, family, fixed kwargs, setting axis name)
    "FDD(per)": ("FDD", "fdd", dict(method_SD="per")),
    "FDD(cor)": ("FDD", "fdd", dict(method_SD="cor")),
    "EFDD(per)": ("EFDD", "efdd", dict(method_SD="per")),
    "EFDD(cor)": ("EFDD", "efdd", dict(method_SD="cor")),
    "FSDD(per)": ("FSDD", "efdd", dict(method_SD="per")),
    "FSDD(cor)": ("FSDD", "efdd", dict(method_SD="cor")),
    "SSIcov(cov_mm)": ("SSIcov", "ssi", dict(method="cov_mm")),
    "SSIcov(cov_R)": ("SSIcov", "ssi", dict(method="cov_R")),
    "SSIcov(cov_mm,ref)": ("SSIcov", "ssi", dict(method="cov_mm", ref_ind=[0, 2])),
    # uncertainty bounds switched on (only legal for SSIcov with the 'cov_mm' Hankel matrix, single setup); nb is set per setting
    "SSIcov(cov_mm,unc)": ("SSIcov", "ssi", dict(method="cov_mm", calc_unc=True)),
    "SSIcov(cov_mm,ref,unc)": ("SSIcov", "ssi", dict(method="cov_mm", ref_ind=[0, 2], calc_unc=True)),
    "SSIdat": ("SSIdat", "ssi", dict()),
    "SSIdat(ref)": ("SSIdat", "ssi", dict(ref_ind=[2, 1])),
    "pLSCF(per)": ("pLSCF", "plscf", dict(method_SD="per")),
    "pLSCF(cor)": ("pLSCF", "plscf", dict(method_SD="cor")),
    "FDD_MS": ("FDD_MS", "fdd", dict(method_SD="per")),
    "FDD_MS(cor)": ("FDD_MS", "fdd", dict(method_SD="cor")),
    "EFDD_MS": ("EFDD_MS", "efdd", dict(method_SD="per")),
    "SSIcov_MS": ("SSIcov_MS", "ssi", dict(method="cov_mm")),
    "SSIcov_MS(cov_R)": ("SSIcov_MS", "ssi", dict(method="cov_R")),
    "SSIdat_MS": ("SSIdat_MS", "ssi", dict()),
    "pLSCF_MS": ("pLSCF_MS", "plscf", dict(method_SD="per")),
    "pLSCF_MS(cor)": ("pLSCF_MS", "plscf", dict(method_SD="cor")),
}


def settings(fam, thorough):
    if fam in ("fdd",):
        return [dict(nxseg=n) for n in ((256, 512, 1024) if thorough else (256, 512))]
    if fam == "efdd":
        return [dict(nxseg=n) for n in ((512, 1024) if thorough else (512,))]
    if fam == "ssi":
        return [dict(br=b, ordmax=o) for b, o in (((6, 6), (6, 12), (10, 6), (10, 12), (15, 20)) if thorough else ((6, 6), (10, 12)))]
    return [dict(nxseg=n, ordmax=o) for n, o in (((256, 6), (256, 12), (512, 6), (512, 12)) if thorough else ((256, 6), (512, 12)))]


def unc_blocks(setting):
    """Number of data blocks of the uncertainty estimate for a setting: rotates with the position in the thorough list."""
    full = settings("ssi", True)
    return NB_UNC[(full.index(setting) if setting in full else 0) % len(NB_UNC)]


class Run:
    """One run through a setup: result tables and the extraction results."""


def execute(variant, setting, tr_kind, data, fs, refs, k, seed, nch, look=None):
    """Run one algorithm through its setup class; returns a Run (tables as plain arrays)."""
    from pyoma2 import algorithms as A
    from pyoma2.setup import MultiSetup_PreGER, SingleSetup

    cls, fam, kw = VARIANTS[variant]
    kw = dict(kw)
    ms = cls.endswith("_MS")
    if "ref_ind" in kw:
        kw["ref_ind"] = refs
    if fam in ("ssi", "plscf"):
        kw["hc"] = hc_for(tr_kind, fam)
    if kw.get("calc_unc"):
        kw["nb"] = unc_blocks(setting)
        kw["hc"]["cov_max"] = COV_MAX * k ** 2      # the same threshold (Hz^2) in the declared time unit
    alg = getattr(A, cls)(name="a", **kw, **setting)
    if ms:
        ss = MultiSetup_PreGER(fs=fs, ref_ind=refs, datasets=data)
    else:
        ss = SingleSetup(data, fs)
    ss.add_algorithms(alg)
    looked = []
    if look is not None:      # LOOK, then run (mc/looks.py): the data plots of the setup are read-only operations
        looked = looks.look_at_setup(ss, look, band=(0.05 * fs, 0.4 * fs), nxseg=128)
    ss.run_by_name("a")
    r = Run()
    r.looked = looked
    res = alg.result
    r.fam = fam
    r.held = all(a is b for a, b in zip(ss.datasets, data)) if ms else (alg.data is data)   # monitor only, never a guard
    f_true = H.system(seed, nch)[0] * fs          # the three natural frequencies in the declared time unit
    if fam in ("fdd", "efdd"):
        r.freq, r.Sy, r.S_val, r.S_vec = (np.array(getattr(res, a)) for a in ("freq", "Sy", "S_val", "S_vec"))
        df = r.freq[1] - r.freq[0]
        Nf = len(r.freq)
        try:
            if fam == "fdd":
                sel = list(r.freq[2:Nf - 2:max(1, Nf // 40)] + 0.3 * df)
                ss.mpe("a", sel_freq=sel, DF=2.0 * df)
                r.mpe = dict(Fn=np.array(alg.result.Fn), Phi=np.array(alg.result.Phi))
            else:
                ss.mpe("a", sel_freq=list(f_true), DF1=2.0 * df, DF2=0.03 * fs)
                r.mpe = dict(Fn=np.array(alg.result.Fn), Xi=np.array(alg.result.Xi), Phi=np.array(alg.result.Phi))
        except Exception as e:
            r.mpe = e
    else:
        r.Fn, r.Xi, r.Phi, r.Lab = (np.array(getattr(res, a)) for a in ("Fn_poles", "Xi_poles", "Phi_poles", "Lab"))
        if fam == "plscf":
            r.freq, r.Sy = np.array(res.freq), np.array(res.Sy)
        r.sc = dict(alg.run_params.sc)
        r.unc = bool(kw.get("calc_unc"))
        if r.unc:
            r.Fn_cov = np.array(res.Fn_poles_cov, float)
            r.cov_max = float(kw["hc"]["cov_max"])
        try:
            order = "find_min" if fam == "ssi" else int(r.Fn.shape[1] - 1)
            ss.mpe("a", sel_freq=list(f_true), order=order, rtol=5e-2)
            rr = alg.result
            r.mpe = dict(Fn=np.array(rr.Fn, float), Xi=np.array(rr.Xi, float), Phi=np.array(rr.Phi), order_out=np.array(rr.order_out))
        except Exception as e:
            r.mpe = e
    return r


# ---- comparison ------------------------------------------------------------------------------------------
def unit_check(t, Phi, where, case, axis=-1):
    """Every reported shape has a component of largest modulus equal to 1+0j."""
    P = np.asarray(Phi)
    P = np.moveaxis(P, axis, -1).reshape(-1, P.shape[axis])
    ok = np.all(np.isfinite(P), axis=1)
    P = P[ok]
    if not len(P):
        return 0
    t.validated += len(P)
    k = np.argmax(np.abs(P), axis=1)
    e = np.abs(P[np.arange(len(P)), k] - 1.0)
    t.err("|largest component - 1|", e.max())
    if not e.max() <= TOL_UNIT:
        i = int(np.argmax(e))
        t.violation(f"unit-component:{where}", f"largest component of a reported shape is {P[i, k[i]]!r}", case)
        return 0
    t.outcomes["unit largest component verified"] += len(P)
    return len(P)


def renorm_pairs(A, B):
    """A (n,c), B (m,c): component-wise distance of every pair after dividing both by the component that is largest in A's row."""
    kk = np.argmax(np.abs(A), axis=1)
    An = A / A[np.arange(len(A)), kk][:, None]
    den = B[:, kk].T                                    # (n, m): B_j[kk_i]
    with np.errstate(all="ignore"):
        Bn = B[None, :, :] / den[:, :, None]
        d = np.max(np.abs(Bn - An[:, None, :]), axis=2)
    return np.where(np.isfinite(d), d, np.inf)


def present(Fn, Xi, Phi):
    return np.isfinite(Fn) & np.isfinite(Xi) & np.all(np.isfinite(Phi), axis=-1)


def sc_margin(r, o, rows):
    """Smallest relative distance of the soft criteria of the given poles of column o to their thresholds (recomputed from the table)."""
    if o == 0:
        return np.inf
    p1 = present(r.Fn[:, o - 1], r.Xi[:, o - 1], r.Phi[:, o - 1, :])
    if not p1.any():
        return np.inf
    m = np.inf
    for i in rows:
        d = np.abs(r.Fn[:, o - 1] - r.Fn[i, o])
        d[~p1] = np.inf
        near = np.where(d <= d.min() * (1 + 1e-6) + 1e-300)[0]
        for j in near:
            c = [abs(r.Fn[i, o] - r.Fn[j, o - 1]) / r.Fn[i, o], abs(r.Xi[i, o] - r.Xi[j, o - 1]) / r.Xi[i, o],
                 1 - H.mac(r.Phi[i, o, :], r.Phi[j, o - 1, :])]
            e = [r.sc["err_fn"], r.sc["err_xi"], r.sc["err_phi"]]
            m = min(m, min(abs(ci - ei) / ei for ci, ei in zip(c, e)))
    return m


def compare_poles(t, r0, r1, L, k, tol, where, case):
    """Column by column, the poles of the two tables as multisets of (fn, xi, shape, label), matched one-to-one."""
    if r0.Fn.shape != r1.Fn.shape or r0.Phi.shape != r1.Phi.shape or r0.Lab.shape != r1.Lab.shape:
        t.violation(f"table-shape:{where}", f"{r0.Fn.shape}/{r0.Phi.shape} vs {r1.Fn.shape}/{r1.Phi.shape}", case)
        return
    nu = unit_check(t, r0.Phi, where, case) + unit_check(t, r1.Phi, where, case)
    if getattr(r0, "unc", False) and nu:
        t.outcomes["uncertainty bounds on: unit largest component verified (pole tables)"] += nu
    npoles = 0
    for o in range(r0.Fn.shape[1]):
        p0 = present(r0.Fn[:, o], r0.Xi[:, o], r0.Phi[:, o, :])
        p1 = present(r1.Fn[:, o], r1.Xi[:, o], r1.Phi[:, o, :])
        t.transitions += 1
        n0, n1 = int(p0.sum()), int(p1.sum())
        if n0 != n1 and getattr(r0, "unc", False):
            # knife edge of the variance criterion: the run reporting more poles holds at least as many poles whose frequency
            # variance lies within VAR_EDGE of the cov_max threshold as the counts differ
            rb, pb = (r0, p0) if n0 > n1 else (r1, p1)
            near = np.abs(rb.Fn_cov[pb, o] - rb.cov_max) <= VAR_EDGE * rb.cov_max
            if int(near.sum()) >= abs(n0 - n1):
                t.not_judged += 1
                t.outcomes["pole count differs on a knife edge of the variance criterion (not judged)"] += 1
                continue
        if n0 != n1:
            t.violation(f"pole-count:{where}", f"order column {o}: {n0} poles in the original run, {n1} in the transformed one", case)
            continue
        if n0 == 0:
            continue
        i0, i1 = np.where(p0)[0], np.where(p1)[0]
        f0, f1 = r0.Fn[i0, o] * k, r1.Fn[i1, o]
        x0, x1 = r0.Xi[i0, o], r1.Xi[i1, o]
        A = r0.Phi[i0, o, :] @ L.T
        B = r1.Phi[i1, o, :]
        l0, l1 = r0.Lab[i0, o], r1.Lab[i1, o]
        d = np.maximum(np.abs(f0[:, None] - f1[None, :]) / np.abs(f1[None, :]), np.abs(x0[:, None] - x1[None, :]))
        d = np.maximum(d, renorm_pairs(A, B))
        samelab = l0[:, None] == l1[None, :]
        BIG = 1e6
        cost = np.where((d <= tol) & samelab, d, BIG)
        ri, ci = linear_sum_assignment(cost)
        tot = cost[ri, ci]
        t.validated += n0
        npoles += n0
        if tot.max() < BIG:
            t.err(f"pole mismatch {where.split(':')[0]}", tot.max())
            if int(l0.sum()):
                t.outcomes["stable poles matched"] += int(l0.sum())
            if getattr(r0, "unc", False):
                observe_variance(t, r0.Fn_cov[i0[ri], o] * k ** 2, r1.Fn_cov[i1[ci], o])
            continue
        # diagnose: values first, labels second
        cost2 = np.where(d <= tol, d, BIG)
        r2, c2 = linear_sum_assignment(cost2)
        if cost2[r2, c2].max() < BIG:
            flips = [(int(i0[a]), int(i1[b])) for a, b in zip(r2, c2) if l0[a] != l1[b]]
            m = min(sc_margin(r0, o, [a for a, _ in flips]), sc_margin(r1, o, [b for _, b in flips]))
            if m <= 1e3 * tol:
                t.not_judged += 1
                t.outcomes["label difference on a knife edge (not judged)"] += 1
                continue
            t.violation(f"labels:{where}", f"order column {o}: poles agree in value but {len(flips)} label(s) differ "
                        f"(rows {flips[:3]}); nearest soft-criterion margin {m:.3g}", case)
            continue
        r3, c3 = linear_sum_assignment(d)
        j = int(np.argmax(d[r3, c3]))
        a, b = r3[j], c3[j]
        t.err(f"pole mismatch {where.split(':')[0]}", d[a, b])
        t.violation(f"poles:{where}", f"order column {o}: best one-to-one matching leaves a distance {d[a, b]:.3g} "
                    f"(fn {f0[a]:.8g} vs {f1[b]:.8g}, xi {x0[a]:.6g} vs {x1[b]:.6g})", case)
    if npoles:
        t.outcomes[f"pole tables compared ({r0.fam})"] += 1
        if getattr(r0, "unc", False):
            t.outcomes["uncertainty bounds on: pole tables compared"] += 1


def observe_variance(t, v0, v1):
    """Frequency variance of the matched poles of one order column (uncertainty bounds on). OBSERVED, not judged: in exact
    arithmetic Fn_cov' = k^2 Fn_cov, but the propagation inverts matrices whose condition grows like (s_1 / s_n)^2 of the Hankel
    singular values, so no tolerance can be stated for the higher orders (seen: 1e-15 under the time unit, up to 3e-3 under gain /
    permutation for ordmax close to the rank of the Hankel matrix); the variance tables are property C17's business."""
    ok = np.isfinite(v0) & np.isfinite(v1) & (v0 > 0)
    if ok.any():
        t.err("frequency variance of matched poles vs k^2 x original (uncertainty bounds on; observed only, not judged)",
              np.max(np.abs(v1[ok] - v0[ok]) / v0[ok]))
    t.outcomes["uncertainty bounds on: matched poles carrying a frequency variance in both runs"] += int(ok.sum())


def const_fit(a, b):
    """Positive constant c minimising |b - c a| in the Frobenius sense."""
    den = np.vdot(a, a).real
    return float(np.vdot(a, b).real / den) if den > 0 else 1.0


def compare_spectra(t, r0, r1, L, k, tol, where, case, vectors=True):
    if r0.freq.shape != r1.freq.shape or r0.Sy.shape != r1.Sy.shape:
        t.violation(f"table-shape:{where}", f"freq/Sy {r0.freq.shape}/{r0.Sy.shape} vs {r1.freq.shape}/{r1.Sy.shape}", case)
        return False
    t.transitions += 1
    t.validated += len(r0.freq)
    e = np.max(np.abs(r1.freq - k * r0.freq)) / np.max(np.abs(r1.freq))
    t.err("frequency grid", e)
    if not e <= tol:
        t.violation(f"grid:{where}", f"frequency lines differ from k x original by {e:.3g} (relative)", case)
        return False
    Lr = L if r0.Sy.shape[0] == L.shape[0] else None
    Lc = L if r0.Sy.shape[1] == L.shape[0] else L[: r0.Sy.shape[1], : r0.Sy.shape[1]]
    S0 = np.einsum("ia,abf,jb->ijf", L if Lr is not None else np.eye(r0.Sy.shape[0]), r0.Sy, Lc)
    c = const_fit(S0, r1.Sy)
    scale = np.max(np.abs(r1.Sy), axis=(0, 1))
    e = float(np.max(np.max(np.abs(r1.Sy - c * S0), axis=(0, 1)) / scale)) if c > 0 else np.inf
    t.err(f"spectral matrix ({where.split(':')[0]})", e)
    if not e <= tol:
        t.violation(f"spectrum:{where}", f"Sy of the transformed run differs from c L Sy L^T by {e:.3g} (relative, per line; c={c:.6g})", case)
    if not vectors:
        return True
    if r0.S_val.shape != r1.S_val.shape or r0.S_vec.shape != r1.S_vec.shape:
        t.violation(f"table-shape:{where}", f"S_val/S_vec {r0.S_val.shape}/{r0.S_vec.shape} vs {r1.S_val.shape}/{r1.S_vec.shape}", case)
        return False
    v0 = np.einsum("iif->if", r0.S_val)
    v1 = np.einsum("iif->if", r1.S_val)
    c = const_fit(v0, v1)
    e = float(np.max(np.abs(v1 - c * v0) / np.max(np.abs(v1), axis=0))) if c > 0 else np.inf
    t.err("stored singular values", e)
    if not e <= tol:
        t.violation(f"singular-values:{where}", f"S_val differs from c x original by {e:.3g} (relative to the largest of the line; c={c:.6g})", case)
    # first stored vector (conj u1): u1' ~ L u1 where the first singular value is separated
    sep = v0[0] >= 1.05 * v0[1]
    a = np.einsum("ij,jf->if", L, r0.S_vec[0, :, :].conj()).conj()[:, sep]
    b = r1.S_vec[0, :, :][:, sep]
    if a.shape[1]:
        num = np.abs(np.einsum("if,if->f", a.conj(), b)) ** 2
        den = np.einsum("if,if->f", a.conj(), a).real * np.einsum("if,if->f", b.conj(), b).real
        e = float(np.max(1 - num / den))
        t.err("1 - MAC of first singular vectors", e)
        t.validated += int(sep.sum())
        if not e <= 1e-9:
            t.violation(f"singular-vectors:{where}", f"first singular vector of the transformed run is not L x original: 1-MAC up to {e:.3g}", case)
    return True


def compare_mpe(t, r0, r1, L, k, tol, where, case):
    m0, m1 = r0.mpe, r1.mpe
    t.transitions += 1
    if isinstance(m0, Exception) or isinstance(m1, Exception):
        if isinstance(m0, Exception) and isinstance(m1, Exception) and type(m0) is type(m1):
            t.outcomes[f"extraction raises {type(m0).__name__} in both runs"] += 1
            t.not_judged += 1
            return
        t.violation(f"extraction-raises-in-one-run:{where}", f"original: {m0!r:.120}; transformed: {m1!r:.120}", case)
        return
    fit = r0.fam == "efdd"
    tf = max(tol, TOL_FIT) if fit else tol
    F0, F1 = np.asarray(m0["Fn"], float).ravel() * k, np.asarray(m1["Fn"], float).ravel()
    if F0.shape != F1.shape or np.shape(m0["Phi"]) != np.shape(m1["Phi"]):
        t.violation(f"extracted-found-differs:{where}", f"number of extracted modes / shape of Phi: {F0.shape}/{np.shape(m0['Phi'])} in the "
                    f"original run, {F1.shape}/{np.shape(m1['Phi'])} in the transformed one", case)
        return
    nan0, nan1 = ~np.isfinite(F0), ~np.isfinite(F1)
    if np.any(nan0 != nan1):
        t.violation(f"extracted-found-differs:{where}", f"modes found {(~nan0).tolist()} vs {(~nan1).tolist()}", case)
        return
    ok = ~nan0
    t.validated += int(ok.sum())
    if not ok.any():
        t.outcomes["extraction found nothing in both runs"] += 1
        return
    e = float(np.max(np.abs(F1[ok] - F0[ok])) / np.max(np.abs(F1[ok])))
    t.err(f"extracted Fn ({r0.fam})", e)
    bad = []
    if not e <= tf:
        bad.append(f"Fn differs from k x original by {e:.3g}")
    if "Xi" in m0:
        X0, X1 = np.asarray(m0["Xi"], float).ravel(), np.asarray(m1["Xi"], float).ravel()
        e = float(np.max(np.abs(X1[ok] - X0[ok]) / np.maximum(np.abs(X0[ok]), 1e-3 if fit else 1.0)))
        t.err(f"extracted Xi ({r0.fam})", e)
        if not e <= tf:
            bad.append(f"Xi differs by {e:.3g} ({X0[ok][:3]} vs {X1[ok][:3]})")
    P0 = (L @ np.asarray(m0["Phi"]))[:, ok].T
    P1 = np.asarray(m1["Phi"])[:, ok].T
    nu = unit_check(t, np.asarray(m0["Phi"]).T, where, case) + unit_check(t, np.asarray(m1["Phi"]).T, where, case)
    if getattr(r0, "unc", False) and nu:
        t.outcomes["uncertainty bounds on: unit largest component verified (extracted modes)"] += nu
    kk = np.argmax(np.abs(P0), axis=1)
    ar = np.arange(len(P0))
    e = float(np.max(np.abs(P0 / P0[ar, kk][:, None] - P1 / P1[ar, kk][:, None])))
    t.err(f"extracted shapes ({r0.fam})", e)
    if not e <= tol:
        bad.append(f"shapes differ from L x original by {e:.3g} (component-wise, common normalisation)")
    if "order_out" in m0 and not np.array_equal(np.asarray(m0["order_out"]), np.asarray(m1["order_out"])):
        bad.append(f"order_out {np.asarray(m0['order_out']).tolist()} vs {np.asarray(m1['order_out']).tolist()}")
    if bad:
        t.violation(f"extracted:{where}", "; ".join(bad), case)
    else:
        t.outcomes[f"extraction compared ({r0.fam})"] += 1


# ---- one lattice slice ------------------------------------------------------------------------------------
NREC = 4096


def build_inputs(seed, kind, nch, ms):
    if ms:
        return H.record(seed, kind, NREC, 6, tag="c08")
    if kind == "counts":
        # the random-response record as 24-bit raw ADC counts (int64): integer-typed data are legal input
        Y = H.record(seed, "resp", NREC, nch, tag="c08")
        return np.round(Y / np.max(np.abs(Y)) * (2 ** 23 - 1)).astype(np.int64)
    return H.record(seed, kind, NREC, nch, tag="c08")


def run_pair(t, seed, kind, nch, variant, setting, tr, cache=None):
    cls, fam, kw = VARIANTS[variant]
    ms = cls.endswith("_MS")
    case = {"seed": seed, "record": kind, "nch": nch, "variant": variant, "setting": setting, "transformation": [tr[0], tr[1]]}
    if kw.get("calc_unc"):
        case["uncertainty_bounds_on_with_nb_blocks"] = unc_blocks(setting)
    Y = build_inputs(seed, kind, nch, ms)
    nn = 6 if ms else nch
    runs = []
    # on a fixed fraction (1 in LOOK_EVERY) of the pairs both runs LOOK at the records (plot_data, plot_ch_info, plot_STFT of the setup) before the run
    pick = int(hashlib.sha1(repr((kind, nch, variant, sorted(setting.items()), tr[0], repr(tr[1]))).encode()).hexdigest(), 16)
    look = pick // LOOK_EVERY if pick % LOOK_EVERY == 0 else None
    if look is not None:
        cache = None
        case["looked_at_the_records_before_both_runs"] = True
    for which, trx in (("original", ("gain", 1.0)), ("transformed", tr)):
        ck = (which == "original", tr[0] == "mix")
        if cache is not None and which == "original" and ck in cache:
            runs.append(cache[ck])
            continue
        if ms:
            data, fs, refs, L, k = apply_multi(Y, FS, trx)
        else:
            data, fs, refs, L, k = apply_single(Y.copy(), FS, kw.get("ref_ind"), trx)
        t.evaluations += 1
        try:
            r = execute(variant, setting, tr[0], data, fs, refs, k, seed, nn, look=look)
            for name, err in r.looked:
                t.outcomes[f"looked at the records before the run: {name}" + (" (raised)" if err else "")] += 1
        except Exception as e:
            r = e
        if cache is not None and which == "original":
            cache[ck] = r
        runs.append(r)
    r0, r1 = runs
    where = f"{fam}:{tr[0]}:{variant}"
    if judge(t, r0, r1, L, k, fam, cls, where, case):
        t.outcomes[f"pair {tr[0]}"] += 1
        t.outcomes[f"pair {cls}"] += 1
        if kw.get("calc_unc"):
            t.outcomes[f"uncertainty bounds on: pair {tr[0]}"] += 1
        t.nontrivial.add((kind, nch, variant, tuple(sorted(setting.items())), tr[0], repr(tr[1])))


def judge(t, r0, r1, L, k, fam, cls, where, case):
    """Compare the whole result tables of two runs under y' = L y, fs' = k fs; True when the tables were compared."""
    t.states += 1
    if isinstance(r0, Exception) or isinstance(r1, Exception):
        if isinstance(r0, Exception) and isinstance(r1, Exception) and type(r0) is type(r1):
            t.violation(f"raises:{type(r0).__name__}:{cls}.run", f"both runs raise {r0!r:.200}", case)
        else:
            t.violation(f"run-raises-in-one-run:{where}", f"original: {r0!r:.150}; transformed: {r1!r:.150}", case)
        return False
    tol = TOL["plscf" if fam == "plscf" else ("ssi" if fam == "ssi" else "fdd")]
    if fam in ("fdd", "efdd"):
        compare_spectra(t, r0, r1, L, k, tol, where, case)
    else:
        if fam == "plscf":
            compare_spectra(t, r0, r1, L, k, 1e-9, where, case, vectors=False)
        compare_poles(t, r0, r1, L, k, tol, where, case)
    compare_mpe(t, r0, r1, L, k, tol, where, case)
    return True


# ---- the same array object handed to several setups one after the other -------------------------------------
# A step is (kind, a). ("time", k): the very same ndarray object(s) - content untouched - are declared at k x FS in a new
# setup. ("gain", g) / ("perm", p): the object is rescaled / its columns are permuted IN PLACE and declared at FS again; the
# in-place changes accumulate, so a later "time" step is a composite gain x permutation x time transformation of the original
# record. Every step is one complete run with identical estimation settings, executed directly after the previous one in the
# same process, and compared with the run on the untouched record under the accumulated (L, k).
REUSE_QUICK = (
    (("time", 7.0), ("time", 0.01), ("gain", 1e-6), ("time", 100.0), ("perm", 0)),
    (("time", 0.5), ("time", 100.0), ("gain", -1e3), ("time", 0.01), ("perm", 1)),
)
# thorough tier: every quick sequence is continued by one of these tails (so the quick steps are prefixes of the thorough ones)
REUSE_TAILS = (
    (("time", 0.5), ("gain", -1.0), ("time", 3.3), ("perm", 2)),
    (("time", 7.0), ("gain", 12345.678), ("time", 0.1), ("perm", 3)),
    (("gain", 0.37), ("time", 41.0), ("perm", 2), ("time", 0.1)),
)
REUSE_PERMS_MS = (((1, 0, 2, 3), (1, 0, 2, 3)), ((0, 2, 1, 3), (0, 3, 1, 2)), ((2, 3, 0, 1), (2, 3, 0, 1)), ((1, 3, 0, 2), (1, 2, 0, 3)))


def reuse_perm(which, nch, ms):
    if ms:
        return REUSE_PERMS_MS[which % len(REUSE_PERMS_MS)]
    base = list(range(nch))
    return (tuple(base[1:] + base[:1]), tuple([1, 0] + base[2:]), tuple(base[::-1]), tuple(base[-1:] + base[:-1]))[which % 4]


def run_reuse(t, seed, kind, nch, variant, setting, steps):
    cls, fam, kw = VARIANTS[variant]
    ms = cls.endswith("_MS")
    Y = build_inputs(seed, kind, nch, ms)
    if ms:
        data = [np.ascontiguousarray(Y[:, c]) for c in MS_COLS]          # this list and these arrays go to every setup
        objs = data
        cols = [list(c) for c in MS_COLS]
        ref_ids = [[c[r] for r in rr] for c, rr in zip(MS_COLS, MS_REF)]
        refs = [list(r) for r in MS_REF]
        ids0 = merged_ids(MS_COLS, MS_REF)
        nn = 6
    else:
        data = np.ascontiguousarray(Y, dtype=float)                      # this array goes to every setup
        objs = [data]
        cols = [list(range(nch))]
        ref_ids = [kw.get("ref_ind")]
        refs = kw.get("ref_ind")
        ids0 = list(range(nch))
        nn = nch
    g, k = 1.0, 1.0
    ids1 = list(ids0)

    def one(k):
        t.evaluations += 1
        try:
            return execute(variant, setting, "reuse", data, FS * k, refs, k, seed, nn)
        except Exception as e:
            return e

    r0 = one(1.0)
    if not isinstance(r0, Exception) and r0.held:
        t.outcomes["same-object: the algorithm received the caller's own array object (no copy)"] += 1
    for i, (sk, a) in enumerate(steps):
        if sk == "time":
            k = a
        elif sk == "gain":
            for X in objs:
                np.multiply(X, a, out=X)
            g, k = g * a, 1.0
        elif sk == "perm":
            pp = reuse_perm(a, nch, ms)
            pp = pp if ms else (pp,)
            for j, (X, p) in enumerate(zip(objs, pp)):
                X[:] = X[:, list(p)]
                cols[j] = [cols[j][c] for c in p]
            if ms:
                refs = [[cols[j].index(gid) for gid in ref_ids[j]] for j in range(len(objs))]
                ids1 = merged_ids(cols, refs)
            else:
                refs = None if ref_ids[0] is None else [cols[0].index(gid) for gid in ref_ids[0]]
                ids1 = list(cols[0])
            k = 1.0
        L = g * np.array([[1.0 if g1 == g0 else 0.0 for g0 in ids0] for g1 in ids1])
        r1 = one(k)
        case = {"seed": seed, "record": kind, "nch": nch, "variant": variant, "setting": setting,
                "same_object_sequence": [[x, y] for x, y in steps[:i + 1]]}
        where = f"{fam}:{sk}@same-object:{variant}"
        if judge(t, r0, r1, L, k, fam, cls, where, case):
            t.outcomes[f"same-object pair {sk}"] += 1
            if kw.get("calc_unc"):
                t.outcomes[f"uncertainty bounds on: same-object pair {sk}"] += 1
            if g != 1.0 and k != 1.0:
                t.outcomes["same-object pair composite (in-place gain/permutation, then another time unit)"] += 1
            t.nontrivial.add((kind, nch, variant, tuple(sorted(setting.items())), "same-object", repr(steps[:i + 1])))


def reuse_item(it):
    _, seed, kind, nch, variant, setting, steps = it
    t = Tally()
    run_reuse(t, seed, kind, nch, variant, setting, steps)
    return t


def work(it):
    return reuse_item(it) if it[0] == "same-object" else item(it)


def item(it):
    seed, kind, nch, variant, setting, trs = it
    t = Tally()
    cache = {}
    for tr in trs:
        run_pair(t, seed, kind, nch, variant, setting, tr, cache)
    if trs and trs[0][0] == "gain" and kind == "resp":
        r = cache.get((True, False))
        if r is not None and not isinstance(r, Exception):
            s = {"record": kind, "channels": nch, "variant": variant, "setting": setting, "transformations": [list(map(str, x)) for x in trs[:3]]}
            if hasattr(r, "Fn"):
                col = r.Fn.shape[1] - 1
                s["original_last_order_Fn"] = np.round(np.sort(r.Fn[np.isfinite(r.Fn[:, col]), col])[:6], 4)
            t.sample(s)
    return t


def lattice(ctx):
    th = ctx.thorough
    items = []
    single = [v for v in VARIANTS if not VARIANTS[v][0].endswith("_MS")]
    multi = [v for v in VARIANTS if VARIANTS[v][0].endswith("_MS")]
    kinds = ["resp", "decay", "white"]
    nchs = [3, 4, 6] if th else [3, 4]
    for kind in kinds:
        for v in single + multi:
            cls, fam, kw = VARIANTS[v]
            ms = cls.endswith("_MS")
            if fam == "efdd" and kind == "white":
                continue                                  # no resonance to fit
            for nch in ([6] if ms else nchs):
                if "ref_ind" in kw and nch < 3:
                    continue
                for st in settings(fam, th):
                    trs = transformations(nch, th, ms)
                    if "ref_ind" in kw:
                        trs = [x for x in trs if x[0] != "mix"]       # a reference subset cannot follow a mixing of all channels
                    # heavy variants: split the transformations over several items
                    nsplit = 4 if fam == "plscf" else (2 if fam == "ssi" else 1)
                    for j in range(nsplit):
                        part = trs[j::nsplit]
                        if part:
                            items.append((ctx.seed, kind, nch, v, st, part))
    # integer-typed records (raw counts) under integer gains, single-setup variants without a reference subset
    for v in single:
        cls, fam, kw = VARIANTS[v]
        if "ref_ind" in kw or fam == "efdd":
            continue
        st = settings(fam, th)[0]
        items.append((ctx.seed, "counts", nchs[0], v, st, [("gain", 1000.0), ("gain", -1.0)]))
    # the same array object(s) handed to several setups back to back (identical settings): every variant, every record kind,
    # every setting; quick: the channel count and the sequence rotate with the setting; thorough: every channel count, the
    # quick sequence of the setting continued by a rotating tail
    seqs = []
    n_reuse = 0
    for kind in kinds:
        for v in single + multi:
            cls, fam, kw = VARIANTS[v]
            ms = cls.endswith("_MS")
            if fam == "efdd" and kind == "white":
                continue
            full = settings(fam, True)
            for st in settings(fam, th):
                J = full.index(st)                         # position in the thorough list: the same rotation in both tiers
                for ni, nch in enumerate([6] if ms else (nchs if th else [nchs[J % len(nchs)]])):
                    sq = REUSE_QUICK[J % len(REUSE_QUICK)]
                    if th:
                        sq = sq + REUSE_TAILS[(J + ni) % len(REUSE_TAILS)]
                    if sq not in seqs:
                        seqs.append(sq)
                    items.append(("same-object", ctx.seed, kind, nch, v, st, sq))
                    n_reuse += 1
    ctx.bounds["read_only_operations_interleaved"] = (f"one pair in {LOOK_EVERY} (fixed by a digest of record, variant, setting and transformation): plot_data, "
                                                      "plot_ch_info and plot_STFT of the setup are called before BOTH runs of the pair (all channels / explicit list, "
                                                      "with / without a frequency window, by rotation); the pair is judged as any other")
    ctx.bounds.update({
        "same array object re-used": {
            "sequences": [[list(x) for x in sq] for sq in seqs], "number of sequences": n_reuse,
            "meaning": "one ndarray (single setup) / one list of ndarrays (multi-setup) is handed, without copying, to a new setup "
                       "for every step, all runs of a sequence directly after one another with identical settings: 'time' = same "
                       "object declared at k x fs; 'gain' / 'perm' = object rescaled / columns permuted in place (accumulating), "
                       "declared at fs; every step is compared with the run on the untouched record",
            "in-place permutations": "single setup: rotation, swap of the first two, reversal, back-rotation; multi-setup: "
                                     + repr(REUSE_PERMS_MS) + " with reference indices mapped",
            "coverage": "every variant x record kind x setting" + (" x channel count; the sequence (a quick sequence continued by a tail) rotates with the setting and the channel count" if th else "; channel count and sequence rotate with the setting")},
        "records": {"kinds": kinds + ["counts (int64 raw counts of the response record; integer gains 1000 and -1)"], "samples": NREC, "fs": FS, "channels (single setup)": nchs, "multi-setup": "6-channel record split into 2 data sets of 4 columns sharing 2 references"},
        "algorithm variants": list(VARIANTS),
        "uncertainty bounds": {"variants": [v for v in VARIANTS if VARIANTS[v][2].get("calc_unc")],
                               "nb (data blocks) per ssi setting": {repr(st): unc_blocks(st) for st in settings("ssi", th)},
                               "cov_max": f"{COV_MAX} x k^2 (Hz^2 in the declared time unit)",
                               "judged": "like every other variant (unit largest component, pole tables, extraction; fresh-copy pairs, integer-count "
                                         "records, same-object sequences); frequency variance of matched poles observed only"},
        "settings": {f: settings(f, th) for f in ("fdd", "efdd", "ssi", "plscf")},
        "transformations": {"gain": [g for kd, g in transformations(4, th, False) if kd == "gain"],
                            "time unit k": [g for kd, g in transformations(4, th, False) if kd == "time"],
                            "permutations": "all 5 non-identity for 3 channels; 8 covering for 4 channels; 3 for 6 channels; 6 pairs of in-data-set permutations (multi-setup), reference indices mapped",
                            "orthogonal mixings": 3},
    })
    return items


def explore(ctx):
    items = lattice(ctx)
    ctx.pmap(work, items, chunksize=1)
    ctx.require("same-object pair time", "same-object pair gain", "same-object pair perm",
                "same-object pair composite (in-place gain/permutation, then another time unit)")
    ctx.require("looked at the records before the run: plot_ch_info", "looked at the records before the run: plot_data",
                "looked at the records before the run: plot_STFT")
    ctx.require(*[f"uncertainty bounds on: pair {x}" for x in ("gain", "perm", "mix", "time")],
                *[f"uncertainty bounds on: same-object pair {x}" for x in ("gain", "perm", "time")],
                "uncertainty bounds on: pole tables compared", "uncertainty bounds on: unit largest component verified (pole tables)",
                "uncertainty bounds on: unit largest component verified (extracted modes)",
                "uncertainty bounds on: matched poles carrying a frequency variance in both runs")
    ctx.require("pair gain", "pair perm", "pair mix", "pair time", "stable poles matched", "unit largest component verified",
                "pole tables compared (ssi)", "pole tables compared (plscf)", "extraction compared (ssi)",
                "extraction compared (plscf)", "extraction compared (fdd)", "extraction compared (efdd)",
                *[f"pair {VARIANTS[v][0]}" for v in VARIANTS])


def replay(case):
    t = Tally()
    if "same_object_sequence" in case:
        steps = tuple((x, y) for x, y in case["same_object_sequence"])
        run_reuse(t, case["seed"], case["record"], case["nch"], case["variant"], dict(case["setting"]), steps)
        return t
    tr = (case["transformation"][0], case["transformation"][1])
    if tr[0] == "perm":
        a = tr[1]
        tr = ("perm", tuple(tuple(x) for x in a) if isinstance(a[0], (list, tuple)) else tuple(a))
    run_pair(t, case["seed"], case["record"], case["nch"], case["variant"], dict(case["setting"]), tr)
    return t
